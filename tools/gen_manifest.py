#!/usr/bin/env python3
"""Regenerates /verif/MANIFEST.json from the table below (kept in one place so that the claimed
checks, the not_applicable list and DESIGN.md cannot drift apart silently)."""
import json, os, sys
HERE = os.path.dirname(os.path.dirname(os.path.abspath(__file__)))
sys.path.insert(0, os.path.join(HERE, "tools"))
from manifest_table import CLAIMED, NOT_APPLICABLE  # noqa

checks = []
for pid, c in sorted(CLAIMED.items()):
    checks.append({
        "property_id": pid,
        "quick_cmd": "tools/check %s --tier quick" % pid,
        "thorough_cmd": "tools/check %s --tier thorough" % pid,
        "evidence_file": "/verif/evidence/%s.json" % pid,
        "replay_cmd_template": "tools/check %s --replay {path}" % pid,
        "engine": "harper-facts",
        "level_claimed": {"category": c["level"], "text": c["text"], "design_ref": c["ref"]},
        "level_note": c["note"],
        "technique": c["technique"],
    })
m = {
    "version": 1,
    "setup_cmd": "tools/setup",
    "hooks": {
        "guard": "harper_verif",
        "enable": "none: the checks read the type-checked MIR of the unmodified sources through a rustc_private driver injected with RUSTC_WRAPPER; no hook or instrumentation exists in /repo",
        "baseline_off_cmd": "tools/baseline",
        "source_commits": [],
        "add_only": True,
    },
    "engines": [{
        "name": "harper-facts",
        "path": "/verif/driver + /verif/tools/hf",
        "serves_properties": sorted(CLAIMED),
        "kind_free_text": "static analysis: rustc_private driver dumps type-checked MIR / call-graph facts of /repo's current tree (cargo +nightly check, whole dependency closure); python rules (CFG dominance, value provenance, effect sets, type graph, linear-constraint abstract interpretation, whole-program reachability) decide structural clauses of each property",
    }],
    "checks": checks,
    "not_applicable": [{"property_id": k, "reason": v} for k, v in sorted(NOT_APPLICABLE.items())],
    "notes": "Every check decides *structural clauses* of its property from source (see level_note / DESIGN.md section 3); value-level remainders are declared not decided in each evidence file. Known findings: /verif/known_findings.txt.",
}
with open(os.path.join(HERE, "MANIFEST.json"), "w") as f:
    json.dump(m, f, indent=1)
print("MANIFEST.json: %d checks, %d not_applicable" % (len(checks), len(m["not_applicable"])))
