#!/usr/bin/env python3
"""Regenerates the machine-derived tables of DESIGN.md section 8 (between BEGIN/END markers) from the
evidence files of the last run and from seeded/*/meta.json.  Run after `for i in C01..C19: tools/check`."""
import glob, json, os, re
HERE = os.path.dirname(os.path.dirname(os.path.abspath(__file__)))


def inventory():
    out = ["| property | rule | decides (rule text, as printed in the evidence) | today: proved / undecided / refuted |", "|---|---|---|---|"]
    for f in sorted(glob.glob(os.path.join(HERE, "evidence", "C*.json"))):
        d = json.load(open(f))
        cov = d["coverage"]
        for rid, text in cov["rules"].items():
            pr = cov["per_rule"].get(rid, {})
            out.append("| %s | `%s` | %s | %d / %d / %d |" % (d["property_id"], rid, text.replace("|", "\\|"), pr.get("PROVED", 0), pr.get("UNDECIDED", 0), pr.get("REFUTED", 0)))
    return "\n".join(out)


def seeds():
    out = ["| seed | property | what the change does / what it needs to manifest | verdict of the checks when first run | caught by (now) |", "|---|---|---|---|---|"]
    for m in sorted(glob.glob(os.path.join(HERE, "seeded", "*", "meta.json"))):
        d = json.load(open(m))
        name = os.path.basename(os.path.dirname(m))
        now = d["check"].get("now")
        if now:
            cell = ("`%s`" % "`, `".join(now["keys"][:3])) if now["keys"] else ("*%s*" % now["verdict"])
            cell += " (tree %s)" % now.get("repo_head", "?")
            if d.get("status_at_head"):
                cell += "; " + d["status_at_head"]
        else:
            cell = "`%s`" % d["check"].get("caught_by", "")
        out.append("| `seeded/%s` | %s | %s — needs: %s | %s | %s |" % (name, d["property"], d["breaks"], d["needs_to_manifest"], d["check"].get("first_verdict", ""), cell))
    return "\n".join(out)


def splice(s, tag, body):
    a, b = "<!-- BEGIN %s -->" % tag, "<!-- END %s -->" % tag
    i, j = s.index(a) + len(a), s.index(b)
    return s[:i] + "\n" + body + "\n" + s[j:]


p = os.path.join(HERE, "DESIGN.md")
s = open(p).read()
s = splice(s, "rule-inventory", inventory())
s = splice(s, "seeds", seeds())
open(p, "w").write(s)
print("DESIGN.md tables regenerated")
