CLAIMED = {
    "C10": {
        "level": "proof",
        "ref": "DESIGN.md section 3, C10",
        "technique": "whole-program effect analysis: class-hierarchy call graph over the MIR of all crates of the dependency closure, who-may-call reachability to socket/file/process sinks, constant provenance of the listener address, dependency-name audit",
        "text": "Exhaustive over the MIR of every compilation unit cargo builds for the workspace (x86_64-linux cfg): no path in the over-approximating call graph from any workspace function to an association-creating network sink except through harper_ls::main (whose listener address is a constant loopback literal), to a file-modifying sink except through save_dict/save_stats (destinations traced to the three configured paths), or to a process launch except under the HarperOpen command. A clean result is sound for the analysed MIR because dispatch is over-approximated.",
        "note": "Trusted: rustc's MIR and callee resolution; std/libc/tree-sitter C code are leaves without MIR; only the host cfg is analysed; sinks are association-creating operations (reads/writes on an already open descriptor are what the server is for).",
    },
    "C15": {
        "level": "other",
        "ref": "DESIGN.md section 3, C15",
        "technique": "sibling-agreement / delegation rules over resolved callees and receiver provenance in the MIR of every Dictionary impl",
        "text": "Decides the agreement-by-delegation clauses exactly: every *_str query of all four Dictionary impls reaches only the same-named char-slice query of its own receiver; every exact query of FstDictionary delegates to the same-named query of full_dict (built from the same word vector as the FST); every MergedDictionary query folds the same-named child query. This is what makes the three back-ends answer exact queries identically for every string; it is not a statement about fuzzy search.",
        "note": "Not decided (value-level): Levenshtein soundness/completeness, ordering and caps of fuzzy results, the positional zip in FstDictionary::fuzzy_match, u8 overflow for very long words.",
    },
    "C11": {
        "level": "proof",
        "ref": "DESIGN.md section 3, C11",
        "technique": "structural lemma chain over MIR: dominance of every rule invocation by its is_rule_enabled gate with same-entry provenance, deep-Freeze type graph of Document, effect census of the result vectors, cache-key provenance, must-pass-through restore of configuration overlays, serde attribute audit",
        "text": "All lemmas of the structural argument are decided exactly: every Linter::lint / run_on_chunk call in LintGroup::lint is dominated by the true edge of config.is_rule_enabled(key) with key and linter from the same map entry; rules get &Document whose type graph has no interior mutability; the group only extends/appends/clones its result vectors and re-bases spans; the chunk-cache key contains the configuration hash and Hash for LintGroupConfig feeds key and value of every entry; the three overlay sites restore the saved configuration on every path; merge_from / fill_with_curated / set_rule_enabled_if_unset have the stated guards and argument order; LintGroupConfig is a transparent serde map. Together these give lints(config) = union over enabled rules for all 3^290 configurations without executing any.",
        "note": "Rule-internal hidden state (a rule influencing a later run of another rule through statics or interior mutability) is the subject of C05's rules and is inherited from there; no configuration value is executed.",
    },
    "C14": {
        "level": "proof",
        "ref": "DESIGN.md section 3, C14",
        "technique": "type-graph walk over Hash impls (derived impls feed every field, hand-written impls are read from MIR) with a position-carrying-field predicate; sibling agreement of ignore/lookup hashing; serde attribute audit",
        "text": "Exact structural rules: no field that feeds the Hash of LintContext is of type Span or an integer that any workspace function assigns from a token-index source (this found Quote.twin_loc, now repaired); ignore_lint and is_ignored hash through one function with identical argument roles and insert/contains that hash; remove_ignored retains exactly !is_ignored; from_lint copies kind, suggestions, message, priority from the lint; IgnoredLints and the wasm export/import use a symmetric serde codec and import is a union.",
        "note": "Not decided: hash collisions; the arithmetic that selects the 2-character neighbourhood.",
    },
    "C13": {
        "level": "other",
        "ref": "DESIGN.md section 3, C13",
        "technique": "effect census on the lint vector (only length/sort/read/remove_indices; retain closure ignores its element), provenance of the removal queue (ascending enumerate counter), dominance of every consumption of the lints by remove_overlaps in the wasm and CLI paths",
        "text": "Decides the sub-list clause for every input (nothing invented, nothing altered: the only mutation is Vec::retain with an element-blind predicate after a sort), the sortedness precondition of remove_indices, and that the JS API and the CLI cannot hand out lints that skipped overlap removal.",
        "note": "Not decided (value-level, left to dynamic/symbolic techniques): that the kept lints are pairwise disjoint and that each dropped lint starts inside a kept one — that depends on the sort key (start, !0-end) and the sweep arithmetic.",
    },
    "C16": {
        "level": "other",
        "ref": "DESIGN.md section 3, C16",
        "technique": "must-pass-through / dominance ordering of the wasm Linter::lint pipeline with same-value provenance (document, lint vector, source vector), provenance rules for ignore_lint/apply_suggestion/import_words/synchronize_lint_dict, serde attribute audit of the exported types",
        "text": "Decides the pipeline and same-source clauses: lint() runs new_from_vec -> overlay -> lint -> restore -> remove_overlaps -> remove_ignored on one Document and one lint vector and takes problem_text from the very source vector the Document was built from; ignore_lint/apply_suggestion rebuild the Document with the lint's language and the linter's dictionary and apply the suggestion at the lint's span to the supplied text; import_words/synchronize_lint_dict rebuild dictionary and rule group and keep the user's config; Lint/Suggestion/Span JSON codecs are symmetric.",
        "note": "Not decided: value-level consistency across call sequences (returned spans inside the text, equality after export/import).",
    },
    "C19": {
        "level": "other",
        "ref": "DESIGN.md section 3, C19",
        "technique": "type-resolved formatter check and must-pass-through newline rule in Stats::write, sibling agreement with Stats::read, OpenOptions builder-chain operand check, serde attribute audit of the Record type graph, loop-nesting rule for the counters",
        "text": "Decides the format discipline that makes the log line-delimited and append-only: each record is written by serde_json's compact serializer (formatter type resolved by rustc) followed on every path by exactly one newline with errors propagated; read() parses lines().next() with from_str::<Record> and pushes in order; save_stats opens with append(true) and never truncates; import_stats_file appends; every type under Record derives both serde traits without asymmetric attributes; an applied lint is counted once.",
        "note": "Trusted: serde_json's compact formatter escapes control characters. Not decided: value round trip of each field (e.g. non-finite floats serialise to null).",
    },
    "C07": {
        "level": "other",
        "ref": "DESIGN.md section 3, C07",
        "technique": "dominance / must-pass-through ordering of the add-to-dictionary command arms on pre-transform coroutine MIR with same-value provenance (dictionary, word, url); crash-consistency rule on save_dict (no truncating open of the destination; temp file, flush, rename); writer/reader delimiter agreement",
        "text": "Decides the pipeline clause (load -> append the first argument -> save that same dictionary -> refresh -> publish for the same url, each awaited, nothing skippable once the word is appended; file-dictionary load and save resolve the path through the same function of the same url) and the crash clause as a structural fact: save_dict never opens the destination for truncation, it writes a sibling temp file, flushes/syncs and renames it over the destination, so every crash point leaves either the old or the new complete file. The in-place truncation this rule found was repaired (fix F7).",
        "note": "Trusted: rename(2) is atomic on one file system. Not decided: words containing line breaks or differing only in case (values), concurrent writers, the JS import path (decided under C16).",
    },
    "C09": {
        "level": "other",
        "ref": "DESIGN.md section 3, C09",
        "technique": "must-pass-through / dominance rules on the pre-transform coroutine MIR of every LSP handler (publish after update for the same url; empty publish after removal), who-may-call on the disk-reading refresh with a state-absence guard, await-point census before the doc_state lock",
        "text": "Decides three structural clauses over all handler paths: (1) every handler that replaces or removes document state publishes for the same URL afterwards on every path, removal handlers publish an empty list, and publish_diagnostics always recomputes from doc_state under the lock; (2) only did_save (and the not-open fallback) may refresh from disk, every other refresh uses the buffer the client sent (three violations found and repaired); (3) ordering discipline: a store is ordered like its request only if no await point precedes the doc_state lock or the store is version-guarded — violated today by update_document and recorded as a known finding with the concrete two-didChange history.",
        "note": "Assumes tower-lsp 0.20's buffer_unordered(4) arrival-order polling and tokio Mutex FIFO fairness. Not decided: equality of the published diagnostics with those of the newest text (needs execution).",
    },
    "C05": {
        "level": "other",
        "ref": "DESIGN.md section 3, C05",
        "technique": "hidden-state census: write-sets on self of all 28 Linter::lint impls (effects), interior-mutability walk over the type graphs of all Pattern/PatternLinter implementors and of every static, cache-key provenance (characters, tokenisation, config hash, symmetric re-basing), classification of every iteration over randomly seeded hash containers with a sort-key totality rule for the word-map consumers",
        "text": "Decides the absence of hidden state structurally: no rule writes a field of self outside the two registered memos and the delegation containers; Pattern/PatternLinter structs and Document have no interior mutability; every static is write-once-immutable or a registered scratch/memo whose justification is checked; the chunk cache key covers characters, tokenisation and configuration and hits are re-based symmetrically; LintGroup's tables are BTreeMaps and the only consumer of hash-seed order on the lint path sorts by a total key before truncating. Two genuine defects were found this way and repaired (cache key without tokenisation; tie order of suggestions).",
        "note": "One iteration site (dictionary affix expansion) is UNDECIDED and listed in the evidence. Not decided: equality of concrete lint lists across histories/threads (needs execution).",
    },
    "C06": {
        "level": "other",
        "ref": "DESIGN.md section 3, C06",
        "technique": "must-pass-through chain for the word identity (hash_one(to_lower(normalized(..))) with a fixed-seed hasher), path rule on SpellCheck::lint (every lint-skipping path passes the true edges of the dialect predicate and of contains_exact_word on the loop's own word), must-pass-through of the dialect retain between fuzzy search and cache put/return",
        "text": "Decides the three code mechanisms the property rests on, each a necessary condition: word identity is computed from the normalised lower-cased spelling (and the map key from the entry's own canonical spelling); a word is skipped only through an exact-match test of its own text (plain or lower-cased) under the dialect predicate, otherwise a lint covering exactly the word token's span is pushed; suggestions pass a dialect filter before they are cached or returned.",
        "note": "Not decided: membership of the ~130k concrete words (affix expansion is data), what the fuzzy search returns, value-level sabotage inside a predicate (e.g. `|| true`).",
    },
    "C08": {
        "level": "other",
        "ref": "DESIGN.md section 3, C08",
        "technique": "unit provenance (the only additive source of the LSP column in both conversion directions is char::len_utf16; lines are counted by '\\n'), range/edit provenance of Diagnostic and TextEdit construction, per-arm classification of the replacement text",
        "text": "Decides the unit agreement of the two position conversions (UTF-16 code units per char, newline-delimited lines) and that every diagnostic and text edit takes its range from span_to_range(source of the lint's own document, lint.span) with Remove -> empty, ReplaceWith(w) -> w, InsertAfter(w) -> flagged text + w, and that code actions are selected with overlaps_with(range_to_span(..)) on the same document.",
        "note": "Not decided: the arithmetic of position_to_index (a value-level slip on the last line without trailing newline is known and out of reach of structural rules).",
    },
    "C17": {
        "level": "other",
        "ref": "DESIGN.md section 3, C17",
        "technique": "abstract interpretation of the MIR decision structure of correct_suffix_for over the 100 residue classes mod 100 (exact), of from_chars over the 16 letter-case variants, table extraction of to_chars; guarded-by and constant/provenance rules for the linter's condition, span and suggestion",
        "text": "The integer core is decided exhaustively: for all 100 residue classes the extracted suffix equals the English rule, so the verdict holds for every u64; negative/fractional/overflowing floats return None before the cast; the lint fires exactly on suffix != correct, covers [end-2, end), suggests correct.to_chars(); the suffix tables agree in every letter case; exactly two tokens are merged.",
        "note": "Proof-level for the residue table (finite, exhaustive); assumed: `as u64` of an integral f64 below 2^53 is exact and the lexer yields the right number.",
    },
    "C18": {
        "level": "other",
        "ref": "DESIGN.md section 3, C18",
        "technique": "effect census on the output buffer (element stores only), same-index provenance of every store (to_ascii_upper/lowercase of the element at the same index expression, or the canonical-capitalisation copy under the is_proper_noun guard)",
        "text": "Decides the same-length clause for every input (the buffer is a copy of the span's characters, is never grown or shrunk, and is what is returned) and the case-only clause store by store.",
        "note": "Not decided: idempotence, the first-letter clause, in-bounds-ness of correct_caps[idx] (values).",
    },
    "C01": {
        "level": "other",
        "ref": "DESIGN.md section 3, C01",
        "technique": "abstract interpretation of MIR over linear constraints (Fourier–Motzkin entailment, trace partitioning, loop peeling for refutation, three-valued verdicts) for the Pattern::matches length contract, the slice cuts of its consumers, lexer progress/totality and ordered affine spans; CFG rule for exhaustion exits of cursor loops",
        "text": "Decides the four contracts the property's own mechanism list names, each a necessary condition with a concrete witness: all 25 impls of Pattern::matches return at most tokens.len() (induction over call depth), the four consumers cut in bounds given that contract, all 14 lexer table entries consume at least one character when they match and the last one always matches (so PlainEnglish::parse strictly progresses and its panic arm is dead), get(cursor) loops leave on None, and Span::new sites with affine operands are ordered. REFUTED verdicts carry a counter-assignment over free symbols; this found three genuine crashes/hangs (Invert on an empty slice, unterminated JSDoc inline tag, lone bird track), all repaired.",
        "note": "Models: documented behaviour of std slice/iterator/Option methods (DESIGN.md 2.4); integer overflow of cursors is ignored; no unsafe in the workspace crates. Not decided: panics that depend on token contents or on pulldown-cmark / tree-sitter / typst-syntax, match_to_lint bodies, the run-time bound. 9 of 13 Span::new sites take fields of two different tokens and are UNDECIDED by construction.",
    },
    "C02": {
        "level": "other",
        "ref": "DESIGN.md section 3, C02",
        "technique": "prover-based tiling identity for the lexer loop (span start = cursor, cursor on every back edge = span end), offset-provenance rules for re-basing (cut base is the source parameter, shift = start of that cut; accumulator advances by line.len()+1 on every back edge), typestate analysis of the condensing passes along feasible paths (queued index must be covered by a span extension before remove_indices)",
        "text": "Decides exact tiling of the plain-English lexer stage, that every parser which delegates a sub-slice re-bases the resulting tokens by the start of that very cut (7 sites; found and repaired the Go directive defect), and that no condensing pass drops a character (found and repaired the dotted-initialism defect).",
        "note": "Not decided: ordering/disjointness of Markdown/tree-sitter derived tokens, lexical meaning of token text, quote twins, Markdown/Typst accumulators (units are C04's subject).",
    },
    "C03": {
        "level": "other",
        "ref": "DESIGN.md section 3, C03",
        "technique": "prover obligations (in-bounds index, split_off, subtraction overflow) on Suggestion::apply under the documented precondition start <= end <= len; symmetric re-basing rule shared with C05",
        "text": "All seven fallible operations of the edit primitive are proved in range for every (text, span, suggestion) with the span inside the text, i.e. applying a suggestion cannot fail; cached lint spans are re-based symmetrically.",
        "note": "Not decided: that the result equals the spliced text, and that each of the ~300 rules reports spans inside the text (values).",
    },
    "C04": {
        "level": "other",
        "ref": "DESIGN.md section 3, C04",
        "technique": "unit typestate (byte-span vector must pass byte_spans_to_char_spans against the parsed text before any char-indexed use), taint rule on Markdown::parse (no Span/shift/slice index derives from a pulldown-cmark byte range except through chars().count()), prover-tracked event/tag typestate for what reaches the English lexer, literal tests of the node conditions, re-basing rules shared with C02",
        "text": "Decides the byte/char unit discipline at the three places where foreign parsers hand out byte offsets, that the English lexer is reached only for Text events outside code blocks (with the not-CodeBlock test actually on the path) while code/math/HTML become Unlintable, that the tree-sitter node filters test the kind against the literal they should, that ignore markers are filtered before masking, and that per-line comment parsers re-base by the start of their cut.",
        "note": "Not decided: correctness of the tree-sitter grammars and of pulldown-cmark's ranges, comment-leader stripping character classes, the Literate Haskell state machine.",
    },
    "C12": {
        "level": "other",
        "ref": "DESIGN.md section 3, C12",
        "technique": "decision-table extraction (abstract interpretation of the TokenKind match) for the terminator predicates, same-named-predicate rule for the splitters, provenance rules for the chunk handed to run_on_chunk and its sub-slices, shared re-basing and condensing rules",
        "text": "Decides the mechanism that isolates the ~290 pattern-based rules from text beyond a paragraph break: ParagraphBreak is a sentence and chunk terminator and not whitespace; iter_chunks/sentences/paragraphs cut at the same-named predicate; both callers pass run_on_chunk an item of iter_chunks(); run_on_chunk gives the pattern and match_to_lint only range-indexed sub-slices of that chunk; match_to_lint bodies read the source only through the matched tokens' spans; cached lints are re-based symmetrically; condensing passes only extend and remove.",
        "note": "Not decided: the 24 hand-written rule structs (they read neighbouring tokens by index), other document-level passes, quote pairing (excluded by the property's premise).",
    },
}

_TODO = "static rules for this property are specified in DESIGN.md section 3 but not yet implemented and self-tested; unclaimed until they are"
NOT_APPLICABLE = {}


# ---- additions made while building (rules added after seeded changes / findings; see DESIGN.md 3.0) ----
def _add(pid, text=None, technique=None, note=None, replace_note=False):
    c = CLAIMED[pid]
    if text:
        c["text"] = c["text"].rstrip() + " " + text
    if technique:
        c["technique"] = c["technique"].rstrip() + "; " + technique
    if note:
        c["note"] = note if replace_note else c["note"].rstrip() + " " + note


_add("C01",
     text="Further decided: a function that states a length precondition only in a debug assertion and then narrows to u8 is guarded on the release path (found and repaired the edit-distance overflow), and no byte length of a str/String reaches a span or an index into the char source unconverted (a span past the end makes Span::get_content panic).",
     technique="stated-belief vs. callers rule for narrowing casts; byte-quantity taint rule over all front-end crates")
_add("C02",
     text="Further decided: no token-resizing pass runs after quote pairing (twins are token indices); an index list used after an earlier removal of the same pass is re-based by exactly the tokens that removal takes out (prover: pushed value = counter - (stretch-1) * len(earlier list)); byte quantities never reach spans unconverted; the Typst translator lexes verbatim source text only.",
     technique="must-not-follow rule on Document::parse, affine-form check of pushed indices against container-length symbols, byte-quantity taint, accessor whitelist for the Typst AST")
_add("C03",
     text="Further decided: every character stored by Suggestion::apply is a copy of a character of the text or of the suggestion (no computing call on the way), so text outside the flagged span is carried over unchanged; the characters keyed by the chunk cache are exactly those of the chunk whose start re-bases the cached lints.",
     technique="copy-only provenance rule on the stores of apply; exact (must) provenance of the keyed span")
_add("C04",
     text="Further decided: the Markdown byte and char cursors move in lock step (chars += text[bytes..X].chars().count(); bytes = X on every update); in every front-end crate no str/String byte length or position reaches a span or an index into the char source unconverted (ASCII literals excepted); the Typst translator hands the English lexer only verbatim source text.",
     technique="lock-step pairing rule for the two accumulators, general byte-quantity taint rule, Typst accessor whitelist")
_add("C05",
     text="The suggestion memo of SpellCheck is keyed by the word through injective conversions only and the memoised search runs on that same word; the chunk-cache key covers exactly the characters of the chunk that is linted.")
_add("C06",
     text="The list stored in the suggestion memo and every list returned are dialect-filtered (retained in place on every path from the fuzzy search, or derived from filter(pred), with the predicate recognised through helper functions).")
_add("C07",
     text="Further decided: an open document adopts the reloaded dictionary - dictionary equality (which gates the linter rebuild) hashes the stored spellings of every child without a case/apostrophe normaliser on the way; the word-list reader decodes strictly (no lossy conversion of a partial buffer).",
     technique="call-graph reachability from the dictionary hash to normalising functions; decoder whitelist in the reader")
_add("C09",
     text="Further decided: after the doc_state lock every successful return of update_document has stored a freshly built Document or removed the state (no shortcut keeps a Document parsed under older settings); a live DocumentState can only be created with the language id a didOpen supplied, so handlers that run after didClose cannot resurrect a closed document.",
     technique="must-pass-through on Ok returns; provenance of the created state's language id and of every caller's language-id argument")
_add("C10",
     text="The per-file dictionary name joined onto the configured directory is a single path component (assembled from Path::components() items and literal non-separator characters), so the join cannot leave the configured directory.")
_add("C11",
     text="merge_from: inside the loop, the only branches that can route an entry around the insert test the value being set (an additional condition that drops an explicit choice is refuted).")
_add("C12",
     text="Further decided: lexers decide token ends from the front - no lexer-table entry (nor a helper that receives the uncut remaining input) scans that input from its end (found and repaired lex_number and lex_email_address, whose tokens depended on digits / @ signs in later paragraphs); index lists that survive a removal are re-based exactly; the chunk-cache key covers exactly the characters of the chunk that is linted.",
     technique="back-scan taint over the lexer table with cut tracking; shared instances of the C02 / C05 rules")
_add("C13",
     text="The sweep arithmetic is decided by the prover: the vector is sorted by a key led by span.start, the running end starts at 0, an element is dropped only with start < running end entailed and kept only with start >= running end entailed, after which the running end is the kept span's end, and every path through the loop body does exactly one of the two. With well-formed spans this gives pairwise disjoint kept lints and that every dropped lint starts inside the kept lint that set the running end.",
     technique="path-sensitive abstract interpretation of remove_overlaps over canonical symbols for the current element's span (counter-assignments over {start, end, running end} only)",
     note="Not decided: spans with start > end. A sweep rewritten into another idiom (dedup_by, retain with captured state) is reported as anchor-missing (fail closed).", replace_note=True)
_add("C14",
     text="Further decided: the dictionary lookup is the last writer of token kinds in Document::parse - no pass that rewrites a kind from neighbouring tokens runs after it, so the kinds hashed by the ignore context are functions of each token's own characters.",
     technique="ordering rule on Document::parse with a transitive kind-writer / other-token-reader classification of the passes")
_add("C16",
     text="Further decided: every non-empty answer of Linter::lint is produced after remove_ignored (no memoised or early answer bypasses the current ignore list), and lint() writes no field of self except the configuration overlay it restores.",
     technique="dominance of every definition of the return value by remove_ignored; write-set of lint() on self")
_add("C17",
     text="Further decided: digits directly followed by suffix letters reach the number lexer - a fixed-shape lexer entry tried before lex_number that ends on a letter must look at the character after its match (sibling cross-check; found and repaired lex_long_decade, which split 1000st into the decade 1000s and t).",
     technique="sibling cross-check over the lexer-table entries that precede lex_number (constant index reads, constant token length)")
_add("C18",
     text="Further decided: the first-word clause - the loop compares the ordinal of the word-like token (enumerate over iter_word_likes) with 0 and the true edge of that test reaches the upper-casing store on every path; a comparison of a token position with 0 is refuted.",
     technique="provenance of the compared counter plus path check through the `||` lowering")


# ---- second wave (rules added after seed rounds 2-4) ----
_add("C01",
     text="Also decided: VecExt::remove_indices contains no panicking operation (its callers do not all establish the sorted-queue assumption); a span bounded by a forward and a backward scan uses the same predicate for both (identical closures, or agreement on every character class either predicate distinguishes).",
     technique="panic-free body rule; abstract evaluation of twin scan predicates over character classes")
_add("C02",
     text="Also decided: a str/String byte length becomes a token length only where that string is proved ASCII; the plain-English front end never removes a token after laying tokens end to end; where condense_spaces/condense_newlines test adjacency, the test compares the extended token's end with the swallowed token's start.",
     technique="ASCII-evidence sanitizer on the byte-quantity taint; operation whitelist on the token vector; token-identity check of the adjacency comparison")
_add("C03",
     text="Also decided: no lint span derives from the payload of a token kind (Space(n), Newline(n)); no character is inserted at a loop-invariant position inside a loop of Suggestion::apply (a multi-character insertion would come out reversed).",
     technique="payload-to-span taint; loop-invariance of insertion positions")
_add("C04",
     text="Also decided: the Literate Haskell line classifier, explored exhaustively over abstract line classes with the MIR of create_mask as transition function, agrees with the literate conventions (found and repaired the blank-line-in-code-environment defect).",
     technique="explicit-state exploration of the masker's boolean state against a ghost automaton")
_add("C05",
     text="Also decided: no match_to_lint indexes the source directly - it reads the text through the matched tokens' spans only, so a clause's lints depend on the clause (what the chunk-cache key covers).",
     technique="receiver whitelist for reads of `source` in match_to_lint bodies")
_add("C06",
     text="Also decided: the merged dictionary's two membership queries fold the same query over its children and nothing else.",
     technique="sibling rule shared with C15")
_add("C09",
     text="Also decided: every path through publish_diagnostics reaches the notification (no 'client already has these' shortcut).",
     technique="must-pass-through on publish_diagnostics")
_add("C12",
     text="Also decided: the same only-grows, adjacency and match_to_lint locality clauses as C02/C05.")
_add("C14",
     text="Also decided: the ignore hash uses a fixed-key hasher (never a RandomState or a container's own hasher); a binary search over the token vector on the way to the ignore context is reported as undecided (it needs every front end to emit ordered tokens, which is not established; the Markdown parser did not before fix e7b4a9f).",
     technique="hasher provenance; who-may-call over the context construction")
_add("C15",
     text="Also decided: every definition of the answer of a _str query / an FST exact query is the plumbed result of the delegated query (no second source of answers); every return of edit_distance_min_alloc is the saturation constant or a table cell, and the cell update has the recurrence's shape.",
     technique="exclusive answer provenance; shape rule on the distance kernel")
_add("C16",
     text="Also decided: ignore_lint/apply_suggestion build their Document with a constructor that takes self.dictionary; the serde form of every type in a Lint is symmetric - conditional attributes are decided exactly (skip_serializing_if against what a missing field reads as; container from/into through String evaluated for every variant over the MIR of the two conversions).",
     technique="variant-table round trip by abstract evaluation of the conversion functions")
_add("C17",
     text="Also decided: NumberSuffix::from_chars answers only for exactly two characters (prover; found and repaired); no Document pass before condense_number_suffixes names the bare suffix words among the string constants it reaches; inside CorrectNumberSuffix::lint only suffix-present/right tests can route a number around the push.",
     technique="prover entailment on slice length; call-graph reach with const/static edges; skip-edge classification of loop branches")
_add("C19",
     text="Also decided: Stats::read's record vector only ever receives push (file order is record order); a field skipped when writing must read back as the skipped value (default + is_empty, Option), otherwise refuted.",
     technique="operation whitelist on the record vector; conditional serde attributes decided exactly")


# ---- third wave (seed round 4) ----
_add("C06",
     text="Also decided: the exact-spelling comparison applies the same character normalisation to the stored spelling as to the queried word (found and repaired: a word stored with a typographic apostrophe never matched its own entry); add_dictionary keeps every child (a skip decided by comparing hashes is refuted). Known finding K4: the dialect the spell checker tests is the first part's entry, so a user-added word that the curated list has for another dialect stays reported.",
     technique="like-with-like rule on the comparison operands' conversion chains; sibling cross-check union vs. first-wins")
_add("C07",
     text="Also decided: load_user_dictionary / load_file_dictionary answer from load_dict of that call only (no in-memory copy that outlives it); the accept clauses of C06 (like-with-like, dialect first-wins = known finding K4) are instantiated here as R-C07-accept.",
     technique="value-source walk through plumbing calls")
_add("C08",
     text="Also decided: the server's copy of a document is the client's text character for character - every Document in update_document is built from the text parameter through copying conversions only and every caller passes the notification's text / the server's own copy / the file read unaltered.",
     technique="verbatim-provenance rule with a vocabulary of copying, plumbing and transforming calls; helpers are looked into")
_add("C09",
     text="Also decided: no update_document call inside a loop is fed a text read from the server's copy before the loop (R-C09-fresh).",
     technique="loop-relative position of the read that feeds the call")
_add("C10",
     text="Also decided: every path get_file_dict_path answers with is Config.file_dict_path.join(..) computed in that call (no remembered path survives a configuration change).",
     technique="exclusive answer provenance")
_add("C11",
     text="The gate rule is three-valued: an ungated rule invocation is refuted, a switch read from a cursor shared between rules and advanced by a consuming search is refuted with the mechanism, any other config-derived gate is undecided.")
_add("C12",
     text="Also decided: a hand-written rule that walks the document sentence by sentence, paragraph by paragraph or chunk by chunk carries nothing but its iterator and result vector into the next unit (R-C12-carry); token indices collected before a removal are not used to address the token vector after it.",
     technique="loop-carried liveness with taint to branch conditions")
_add("C14",
     text="Also decided: if the ignore list is a sorted vector searched with binary_search, every mutation keeps it sorted (insert at the reported position, or a sort on every path afterwards).",
     technique="container-invariant rule over every mutating call on the field")
_add("C15",
     text="Also decided: add_dictionary keeps every child it is given.")
_add("C17",
     text="Also decided: the suffix found for a number is stored on that number's token - condense_number_suffixes does not address the token vector after its removal with positions counted before it.")
_add("C18",
     text="Premise of idempotence checked: no decision of the title-case module reads the current letter case; a violation is reported as undecided (idempotence itself is a value property).")
_add("C19",
     text="Also decided: a batch-writing form of Stats::write (join) must terminate the last record.")

# ---- wave 4 (seed round 6, 2026-09-27)
_add("C01",
     text="Also decided: a rule body that switches on the number of matched tokens and panics in the default arm belongs to a pattern without variable-length steps (found and repaired the ModalOf panic on a blank followed by a line break); every integer division on the parsing and linting paths has a divisor that is a non-zero constant or is tested against zero first.",
     technique="pattern-shape vs. panic-arm rule over all PatternLinter bodies; divisor provenance (counter / element count) with dominating zero test")
_add("C02",
     text="Also decided: a merge run of the newline condenser advances its index once per examined token (found and repaired a skipped token that ended up inside the merged newline token), and where a front end falls back to a length when position() finds nothing, it is the length of the slice that was searched.",
     technique="increment count over the cycles of the merge loop; same-slice rule for position(..).unwrap_or(len)")
_add("C03",
     text="Also decided: in the rules no byte length or byte position of a string reaches a lint span unconverted.",
     technique="byte-quantity taint rule over harper_core::linting")
_add("C04",
     text="Also decided: the git-commit front end hands on a prefix of the file that ends where a forward search for git's comment character first succeeds - not the whole file and not a cut found from the end.",
     technique="provenance of the cut handed to the inner parser")
_add("C05",
     text="Also decided: the field harper-ls compares with the freshly generated dictionary to decide on a rebuild holds nothing but such a dictionary (found and repaired: identifiers of a source file were flagged from its second update on); the WebAssembly linter rebuilds after import_words guarded at most by 'the dictionary grew'.",
     technique="writers-agree rule for the compared field; rule instance shared with C16")
_add("C06",
     text="Also decided: the pattern that glues word-apostrophe-word into one token has no repetition step (the greedy matcher would run it into a closing quote).",
     technique="pattern-shape rule for the contraction pattern")
_add("C08",
     text="Also decided: every keyed access to the table of open documents uses the request's URI through copying conversions only (no case-folded or trimmed key under which two documents would share one state).",
     technique="key provenance over all accesses to the document table")
_add("C11",
     text="Also decided: every path through fill_with_curated reaches the merge, or its bypass is selected by looking at individual entries (undecided) - a bypass chosen by sizes and values alone is refuted.",
     technique="must-pass-through over fill_with_curated")
_add("C12",
     text="Also decided: a lexer's forward searches over the uncut input end at a line break at the latest, or the lexer gives up when the search fails (found and repaired: an '@' anywhere later in the text cut a URL down to its scheme).",
     technique="closure predicates of position/find/take_while evaluated on a line break")
_add("C14",
     text="Also decided: harper-ls never takes an open document's state out of its table and then builds it anew (the ignore list lives in that state).",
     technique="remove-then-rebuild rule over the document table")
_add("C15",
     text="Also decided: the two Levenshtein automata of the FST back-end are built from one and the same normalised query, as their positional merge requires.",
     technique="same-source rule for the two automaton queries")
_add("C16",
     text="Also decided: the non-overlap clause, through the C13 rules on remove_overlaps and its placement in Linter::lint.",
     technique="rule instances shared with C13")
_add("C17",
     text="Also decided: number values are written only by the number lexers, and behind the lexer only the suffix is assigned, by the suffix-condensing pass.",
     technique="who-may-write census for Number")
_add("C18",
     text="Also decided: every iteration of the word loop reaches the first-word test (or upper-cases anyway) before the next starts.",
     technique="must-pass-through over the word loop")

# ---- wave 5 (seed round 7, 2026-09-27)
_add("C04",
     text="Also decided: the inline-tag scanner of the JSDoc / Javadoc parsers resumes exactly at the end of the range it marked.",
     technique="symbolic linear forms of the marked range and the cursor assignment")
_add("C06",
     text="Also decided: no unregistered static with interior mutability exists in the workspace (a look-up cache keyed by the word alone would replay one dictionary's answer for another).",
     technique="rule instances shared with C05 (census of statics)")
_add("C08",
     text="Also decided: every path through generate_code_actions runs the linter and selects lints by overlap with the requested position.",
     technique="must-pass-through over generate_code_actions")
_add("C10",
     text="Also decided: main makes no network association of any socket API (std, unix-domain, tokio, mio, socket2) other than the TcpListener::bind its editor connects to.",
     technique="socket-call census in main, helpers spliced in")
_add("C11",
     text="Also decided: inside the rule loops no condition on the way to a rule's run reads another rule's switch.",
     technique="gate census per rule invocation")
_add("C12",
     text="Also decided: lint vectors are only sorted with stable sorts (tied lints of sibling sub-rules would otherwise be ordered by the size of the whole document).",
     technique="who-may-call rule for sort_unstable* on lint vectors")
_add("C14",
     text="Also decided: the JavaScript-facing linter hashes an ignored lint against a Document built with the same parser and dictionary as Linter::lint.",
     technique="rule instances shared with C16")
_add("C15",
     text="Also decided: the per-thread cache of automaton builders is looked up by equality with the requested distance only.",
     technique="comparison census in build_dfa")
_add("C16",
     text="Also decided: lint, ignore_lint and apply_suggestion build their Document from the text handed over by chars().collect() and copies only.",
     technique="verbatim-source provenance")
_add("C17",
     text="Also decided: every Document constructor that takes a text builds its character vector from it by chars().collect() and copies only (no normalising step behind which spans would be displaced).",
     technique="verbatim-source provenance; element-dropping operations on hand-filled vectors")
_add("C18",
     text="Also decided: the patterns of the Document condensing passes contain no case-sensitive word step (the tokens of title-cased output would differ from those of its input).",
     technique="pattern-shape rule over the uncached_*_pattern builders")
_add("C19",
     text="Also decided: a one-sided serde `from = String` on a field-less enum is evaluated against the derived writer, variant by variant.",
     technique="decision-table evaluation of From<String> over the variant names")
_add("C19",
     text="Also decided: the number lexer keeps only finite values (a non-finite number in a record's context is written as null and makes the log unreadable; found and repaired).",
     technique="finiteness test between parse::<f64>() and the token")


# ---- wave 6 (seed round 8, 2026-09-27 late)
_add("C01",
     text="Also decided: a cursor that only grows inside a loop and indexes a slice there is tested in that loop (no test at all, or only a closure answering get(i).is_some_and(..) whose false edge leads to the index, is refuted).",
     technique="per-loop census of monotone cursors under a bounds check, comparison census, closure shape")
_add("C03",
     text="Also decided (shared with C02/C04): the per-line comment parsers and Mask::parse re-base inner tokens by the start of the cut and advance a line offset by the full length of every line - lint spans are token spans.",
     technique="rule instances of R-C02-rebase")
_add("C04",
     text="Also decided: comment-leader stripping removes none of the delimiters ({ } @) by which the later JSDoc/Javadoc stage recognises tags.",
     technique="evaluation of the stripping predicates over their MIR on the delimiter characters; stage census per parser")
_add("C06",
     text="Also decided: the report direction of the accept condition - every path of SpellCheck::lint that reaches the lint has asked contains_exact_word about the word as written and about its whole lower-cased form (or left through the dialect test / missing metadata).",
     technique="must-pass-through over the call blocks of the tests towards the lint push")
_add("C07",
     text="Also decided (shared with C06/C15): membership in the merged dictionary folds over all parts, so a spelling held by the user's part is found when an earlier part knows the letters in another capitalisation.",
     technique="rule instances of R-C15-merged")
_add("C10",
     text="Also decided: each settings key that spells a Config field feeds that field and no other (found and repaired statsPath stored in file_dict_path); every store into the server's shared Config is the Ok payload of Config::from_lsp_config with no fallback source.",
     technique="key-to-field table agreement by provenance through get(key); exclusive source rule on stores through the Config write guard")
_add("C14",
     text="Also decided: the serde graph of Lint (it travels through the code action as JSON before HarperIgnoreLint hashes it) is symmetric; a from/into = String pair on a field-less enum is evaluated per variant, to_string through the Display impl.",
     technique="serde audit of a second root; decision-table evaluation of both conversions with a checked model of write!(f, \"{}\", s)")
_add("C18",
     text="Also decided (shared with C06): dictionary entries are filed under the lower-cased, apostrophe-normalised spelling and nothing coarser, the premise under which the canonical spelling copied over a proper noun has the word's own letters.",
     technique="rule instances of R-C06-id")
