CLAIMED = {
    "C10": {
        "level": "proof",
        "ref": "DESIGN.md section 3, C10",
        "technique": "whole-program effect analysis: class-hierarchy call graph over the MIR of all crates of the dependency closure, who-may-call reachability to socket/file/process sinks, constant provenance of the listener address, dependency-name audit",
        "text": "Exhaustive over the MIR of every compilation unit cargo builds for the workspace (x86_64-linux cfg): no path in the over-approximating call graph from any workspace function to an association-creating network sink except through harper_ls::main (whose listener address is a constant loopback literal), to a file-modifying sink except through save_dict/save_stats (destinations traced to the three configured paths), or to a process launch except under the HarperOpen command. A clean result is sound for the analysed MIR because dispatch is over-approximated.",
        "note": "Trusted: rustc's MIR and callee resolution; std/libc/tree-sitter C code are leaves without MIR; only the host cfg is analysed; sinks are association-creating operations (reads/writes on an already open descriptor are what the server is for).",
    },
    "C15": {
        "level": "other",
        "ref": "DESIGN.md section 3, C15",
        "technique": "sibling-agreement / delegation rules over resolved callees and receiver provenance in the MIR of every Dictionary impl",
        "text": "Decides the agreement-by-delegation clauses exactly: every *_str query of all four Dictionary impls reaches only the same-named char-slice query of its own receiver; every exact query of FstDictionary delegates to the same-named query of full_dict (built from the same word vector as the FST); every MergedDictionary query folds the same-named child query. This is what makes the three back-ends answer exact queries identically for every string; it is not a statement about fuzzy search.",
        "note": "Not decided (value-level): Levenshtein soundness/completeness, ordering and caps of fuzzy results, the positional zip in FstDictionary::fuzzy_match, u8 overflow for very long words.",
    },
}

_TODO = "static rules for this property are specified in DESIGN.md section 3 but not yet implemented and self-tested; unclaimed until they are"
NOT_APPLICABLE = {k: _TODO for k in ["C01", "C02", "C03", "C04", "C05", "C06", "C07", "C08", "C09", "C11", "C12", "C13", "C14", "C16", "C17", "C18", "C19"]}
