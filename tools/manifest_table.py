CLAIMED = {
    "C10": {
        "level": "proof",
        "ref": "DESIGN.md section 3, C10",
        "technique": "whole-program effect analysis: class-hierarchy call graph over the MIR of all crates of the dependency closure, who-may-call reachability to socket/file/process sinks, constant provenance of the listener address, dependency-name audit",
        "text": "Exhaustive over the MIR of every compilation unit cargo builds for the workspace (x86_64-linux cfg): no path in the over-approximating call graph from any workspace function to an association-creating network sink except through harper_ls::main (whose listener address is a constant loopback literal), to a file-modifying sink except through save_dict/save_stats (destinations traced to the three configured paths), or to a process launch except under the HarperOpen command. A clean result is sound for the analysed MIR because dispatch is over-approximated.",
        "note": "Trusted: rustc's MIR and callee resolution; std/libc/tree-sitter C code are leaves without MIR; only the host cfg is analysed; sinks are association-creating operations (reads/writes on an already open descriptor are what the server is for).",
    },
    "C15": {
        "level": "other",
        "ref": "DESIGN.md section 3, C15",
        "technique": "sibling-agreement / delegation rules over resolved callees and receiver provenance in the MIR of every Dictionary impl",
        "text": "Decides the agreement-by-delegation clauses exactly: every *_str query of all four Dictionary impls reaches only the same-named char-slice query of its own receiver; every exact query of FstDictionary delegates to the same-named query of full_dict (built from the same word vector as the FST); every MergedDictionary query folds the same-named child query. This is what makes the three back-ends answer exact queries identically for every string; it is not a statement about fuzzy search.",
        "note": "Not decided (value-level): Levenshtein soundness/completeness, ordering and caps of fuzzy results, the positional zip in FstDictionary::fuzzy_match, u8 overflow for very long words.",
    },
    "C11": {
        "level": "proof",
        "ref": "DESIGN.md section 3, C11",
        "technique": "structural lemma chain over MIR: dominance of every rule invocation by its is_rule_enabled gate with same-entry provenance, deep-Freeze type graph of Document, effect census of the result vectors, cache-key provenance, must-pass-through restore of configuration overlays, serde attribute audit",
        "text": "All lemmas of the structural argument are decided exactly: every Linter::lint / run_on_chunk call in LintGroup::lint is dominated by the true edge of config.is_rule_enabled(key) with key and linter from the same map entry; rules get &Document whose type graph has no interior mutability; the group only extends/appends/clones its result vectors and re-bases spans; the chunk-cache key contains the configuration hash and Hash for LintGroupConfig feeds key and value of every entry; the three overlay sites restore the saved configuration on every path; merge_from / fill_with_curated / set_rule_enabled_if_unset have the stated guards and argument order; LintGroupConfig is a transparent serde map. Together these give lints(config) = union over enabled rules for all 3^290 configurations without executing any.",
        "note": "Rule-internal hidden state (a rule influencing a later run of another rule through statics or interior mutability) is the subject of C05's rules and is inherited from there; no configuration value is executed.",
    },
    "C14": {
        "level": "proof",
        "ref": "DESIGN.md section 3, C14",
        "technique": "type-graph walk over Hash impls (derived impls feed every field, hand-written impls are read from MIR) with a position-carrying-field predicate; sibling agreement of ignore/lookup hashing; serde attribute audit",
        "text": "Exact structural rules: no field that feeds the Hash of LintContext is of type Span or an integer that any workspace function assigns from a token-index source (this found Quote.twin_loc, now repaired); ignore_lint and is_ignored hash through one function with identical argument roles and insert/contains that hash; remove_ignored retains exactly !is_ignored; from_lint copies kind, suggestions, message, priority from the lint; IgnoredLints and the wasm export/import use a symmetric serde codec and import is a union.",
        "note": "Not decided: hash collisions; the arithmetic that selects the 2-character neighbourhood.",
    },
    "C13": {
        "level": "other",
        "ref": "DESIGN.md section 3, C13",
        "technique": "effect census on the lint vector (only length/sort/read/remove_indices; retain closure ignores its element), provenance of the removal queue (ascending enumerate counter), dominance of every consumption of the lints by remove_overlaps in the wasm and CLI paths",
        "text": "Decides the sub-list clause for every input (nothing invented, nothing altered: the only mutation is Vec::retain with an element-blind predicate after a sort), the sortedness precondition of remove_indices, and that the JS API and the CLI cannot hand out lints that skipped overlap removal.",
        "note": "Not decided (value-level, left to dynamic/symbolic techniques): that the kept lints are pairwise disjoint and that each dropped lint starts inside a kept one — that depends on the sort key (start, !0-end) and the sweep arithmetic.",
    },
    "C16": {
        "level": "other",
        "ref": "DESIGN.md section 3, C16",
        "technique": "must-pass-through / dominance ordering of the wasm Linter::lint pipeline with same-value provenance (document, lint vector, source vector), provenance rules for ignore_lint/apply_suggestion/import_words/synchronize_lint_dict, serde attribute audit of the exported types",
        "text": "Decides the pipeline and same-source clauses: lint() runs new_from_vec -> overlay -> lint -> restore -> remove_overlaps -> remove_ignored on one Document and one lint vector and takes problem_text from the very source vector the Document was built from; ignore_lint/apply_suggestion rebuild the Document with the lint's language and the linter's dictionary and apply the suggestion at the lint's span to the supplied text; import_words/synchronize_lint_dict rebuild dictionary and rule group and keep the user's config; Lint/Suggestion/Span JSON codecs are symmetric.",
        "note": "Not decided: value-level consistency across call sequences (returned spans inside the text, equality after export/import).",
    },
    "C19": {
        "level": "other",
        "ref": "DESIGN.md section 3, C19",
        "technique": "type-resolved formatter check and must-pass-through newline rule in Stats::write, sibling agreement with Stats::read, OpenOptions builder-chain operand check, serde attribute audit of the Record type graph, loop-nesting rule for the counters",
        "text": "Decides the format discipline that makes the log line-delimited and append-only: each record is written by serde_json's compact serializer (formatter type resolved by rustc) followed on every path by exactly one newline with errors propagated; read() parses lines().next() with from_str::<Record> and pushes in order; save_stats opens with append(true) and never truncates; import_stats_file appends; every type under Record derives both serde traits without asymmetric attributes; an applied lint is counted once.",
        "note": "Trusted: serde_json's compact formatter escapes control characters. Not decided: value round trip of each field (e.g. non-finite floats serialise to null).",
    },
    "C07": {
        "level": "other",
        "ref": "DESIGN.md section 3, C07",
        "technique": "dominance / must-pass-through ordering of the add-to-dictionary command arms on pre-transform coroutine MIR with same-value provenance (dictionary, word, url); crash-consistency rule on save_dict (no truncating open of the destination; temp file, flush, rename); writer/reader delimiter agreement",
        "text": "Decides the pipeline clause (load -> append the first argument -> save that same dictionary -> refresh -> publish for the same url, each awaited, nothing skippable once the word is appended; file-dictionary load and save resolve the path through the same function of the same url) and the crash clause as a structural fact: save_dict never opens the destination for truncation, it writes a sibling temp file, flushes/syncs and renames it over the destination, so every crash point leaves either the old or the new complete file. The in-place truncation this rule found was repaired (fix F7).",
        "note": "Trusted: rename(2) is atomic on one file system. Not decided: words containing line breaks or differing only in case (values), concurrent writers, the JS import path (decided under C16).",
    },
    "C09": {
        "level": "other",
        "ref": "DESIGN.md section 3, C09",
        "technique": "must-pass-through / dominance rules on the pre-transform coroutine MIR of every LSP handler (publish after update for the same url; empty publish after removal), who-may-call on the disk-reading refresh with a state-absence guard, await-point census before the doc_state lock",
        "text": "Decides three structural clauses over all handler paths: (1) every handler that replaces or removes document state publishes for the same URL afterwards on every path, removal handlers publish an empty list, and publish_diagnostics always recomputes from doc_state under the lock; (2) only did_save (and the not-open fallback) may refresh from disk, every other refresh uses the buffer the client sent (three violations found and repaired); (3) ordering discipline: a store is ordered like its request only if no await point precedes the doc_state lock or the store is version-guarded — violated today by update_document and recorded as a known finding with the concrete two-didChange history.",
        "note": "Assumes tower-lsp 0.20's buffer_unordered(4) arrival-order polling and tokio Mutex FIFO fairness. Not decided: equality of the published diagnostics with those of the newest text (needs execution).",
    },
    "C05": {
        "level": "other",
        "ref": "DESIGN.md section 3, C05",
        "technique": "hidden-state census: write-sets on self of all 28 Linter::lint impls (effects), interior-mutability walk over the type graphs of all Pattern/PatternLinter implementors and of every static, cache-key provenance (characters, tokenisation, config hash, symmetric re-basing), classification of every iteration over randomly seeded hash containers with a sort-key totality rule for the word-map consumers",
        "text": "Decides the absence of hidden state structurally: no rule writes a field of self outside the two registered memos and the delegation containers; Pattern/PatternLinter structs and Document have no interior mutability; every static is write-once-immutable or a registered scratch/memo whose justification is checked; the chunk cache key covers characters, tokenisation and configuration and hits are re-based symmetrically; LintGroup's tables are BTreeMaps and the only consumer of hash-seed order on the lint path sorts by a total key before truncating. Two genuine defects were found this way and repaired (cache key without tokenisation; tie order of suggestions).",
        "note": "One iteration site (dictionary affix expansion) is UNDECIDED and listed in the evidence. Not decided: equality of concrete lint lists across histories/threads (needs execution).",
    },
}

_TODO = "static rules for this property are specified in DESIGN.md section 3 but not yet implemented and self-tested; unclaimed until they are"
NOT_APPLICABLE = {k: _TODO for k in ["C01", "C02", "C03", "C04", "C06", "C08", "C12", "C17", "C18"]}
