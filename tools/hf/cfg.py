"""CFG utilities over the MIR facts (A1): reachability, dominators, post-dominators, natural
loops, "every path from A passes B".  Cleanup (unwind) blocks are never part of the graph:
the driver does not record unwind edges, so all statements are about normal control flow."""
from .facts import term_succs


class Cfg:
    def __init__(self, fn):
        self.fn = fn
        self.n = len(fn.blocks)
        self.succ = [[s for s in term_succs(b["t"]) if not fn.blocks[s]["cleanup"]] if not b["cleanup"] else [] for b in fn.blocks]
        self.pred = [[] for _ in range(self.n)]
        for i, ss in enumerate(self.succ):
            for s in ss:
                self.pred[s].append(i)
        self.reach0 = self.reachable_from([0])
        self._dom = None
        self._pdom = None

    # ---- reachability -------------------------------------------------------------------
    def reachable_from(self, starts, avoid=()):
        avoid = set(avoid)
        seen = set()
        work = [s for s in starts if s not in avoid]
        while work:
            b = work.pop()
            if b in seen:
                continue
            seen.add(b)
            for s in self.succ[b]:
                if s not in seen and s not in avoid:
                    work.append(s)
        return seen

    def reaches(self, a, targets, avoid=()):
        """is some block of `targets` reachable from a's successors without entering `avoid`?"""
        r = self.reachable_from(self.succ[a], avoid)
        return any(t in r for t in targets)

    def exits(self):
        """blocks ending in return (reachable)"""
        return [i for i in self.reach0 if self.fn.blocks[i]["t"]["k"] == "return"]

    def path(self, a, targets, avoid=()):
        """a shortest path of blocks from a (exclusive start allowed) to any target, or None"""
        from collections import deque
        avoid = set(avoid)
        targets = set(targets)
        q = deque([a])
        par = {a: None}
        while q:
            b = q.popleft()
            for s in self.succ[b]:
                if s in par or s in avoid:
                    continue
                par[s] = b
                if s in targets:
                    p = [s]
                    while par[p[-1]] is not None:
                        p.append(par[p[-1]])
                    return list(reversed(p))
                q.append(s)
        return None

    # ---- dominators (iterative, small graphs) -------------------------------------------------
    def _compute_dom(self, succ, pred, roots):
        n = self.n
        order = []
        seen = set()

        def dfs(r):
            stack = [(r, iter(succ[r]))]
            seen.add(r)
            while stack:
                b, it = stack[-1]
                adv = False
                for s in it:
                    if s not in seen:
                        seen.add(s)
                        stack.append((s, iter(succ[s])))
                        adv = True
                        break
                if not adv:
                    order.append(b)
                    stack.pop()
        for r in roots:
            if r not in seen:
                dfs(r)
        rpo = list(reversed(order))
        full = set(rpo)
        dom = {b: None for b in rpo}
        for r in roots:
            dom[r] = {r}
        changed = True
        while changed:
            changed = False
            for b in rpo:
                if b in roots:
                    continue
                ps = [p for p in pred[b] if p in dom and dom[p] is not None]
                if not ps:
                    continue
                new = set.intersection(*[dom[p] for p in ps]) | {b}
                if dom[b] != new:
                    dom[b] = new
                    changed = True
        return dom

    def dom(self):
        if self._dom is None:
            self._dom = self._compute_dom(self.succ, self.pred, [0])
        return self._dom

    def dominates(self, a, b):
        d = self.dom().get(b)
        return d is not None and a in d

    def pdom(self):
        """post-dominators w.r.t. the set of return blocks (virtual exit)."""
        if self._pdom is None:
            exits = self.exits()
            self._pdom = self._compute_dom(self.pred, self.succ, exits)
        return self._pdom

    # ---- loops --------------------------------------------------------------------------
    def back_edges(self):
        out = []
        for b in self.reach0:
            for s in self.succ[b]:
                if self.dominates(s, b):
                    out.append((b, s))
        return out

    def natural_loops(self):
        """header -> set of blocks"""
        loops = {}
        for (b, h) in self.back_edges():
            body = loops.setdefault(h, {h})
            work = [b]
            while work:
                x = work.pop()
                if x in body:
                    continue
                body.add(x)
                work.extend(self.pred[x])
        return loops

    # ---- must-pass-through --------------------------------------------------------------
    def every_path_passes(self, a, through, to=None):
        """every path from block a (after it) to a block in `to` (default: return blocks) enters
        a block of `through` first.  Returns (ok, witness path or None)."""
        to = set(to) if to is not None else set(self.exits())
        through = set(through)
        p = self.path(a, to - through, avoid=through)
        return (p is None), p


def block_of_stmt(fn, pred):
    out = []
    for i, b in enumerate(fn.blocks):
        if b["cleanup"]:
            continue
        for j, s in enumerate(b["s"]):
            if pred(s):
                out.append((i, j))
    return out


def bool_edges(fn, call_bb):
    """for a call whose result is a bool that the next block branches on: (true block, false block)
    or None.  Follows plain moves of the result and a `Not`."""
    t = fn.blocks[call_bb]["t"]
    if t["k"] != "call" or t["target"] is None or len(t["dest"]) != 1:
        return None
    cur = t["dest"][0]
    neg = False
    b = t["target"]
    for _ in range(16):
        blk = fn.blocks[b]
        for s in blk["s"]:
            if s["k"] == "assign" and len(s["lhs"]) == 1:
                rv = s["rv"]
                if rv["k"] == "use":
                    pl = rv["op"].get("m") or rv["op"].get("c")
                    if pl == [cur]:
                        cur = s["lhs"][0]
                elif rv["k"] == "un" and rv["op"] == "Not":
                    pl = rv["a"].get("m") or rv["a"].get("c")
                    if pl == [cur]:
                        cur = s["lhs"][0]
                        neg = not neg
        sw = blk["t"]
        if sw["k"] == "switch":
            pl = sw["discr"].get("m") or sw["discr"].get("c")
            if pl != [cur]:
                return None
            tb = fb = None
            for v, x in sw["targets"]:
                if v == "0":
                    fb = x
                elif v == "1":
                    tb = x
            if tb is None:
                tb = sw["otherwise"]
            if fb is None:
                fb = sw["otherwise"]
            if tb == fb:
                return None
            return (fb, tb) if neg else (tb, fb)
        if sw["k"] in ("goto", "drop"):
            b = sw["target"]
            continue
        return None
    return None
