"""Shared query helpers over the MIR facts."""
import re

_IMPL = re.compile(r"\{impl#\d+\}")


def norm(defpath):
    return _IMPL.sub("{impl}", defpath) if defpath else defpath


def last(path):
    return path.rsplit("::", 1)[-1] if path else path


def keyname(prog, fn):
    """stable, line-free, ordinal-free name of a function for violation keys:
    `Type::method`, `<Type as Trait>::method`, `module::function`, closures get `{closure}`."""
    name = fn.name
    suffix = ""
    f = fn
    while f.get("kind") == "Closure" and f.get("parent") in prog.fns:
        suffix = "::{closure}" + suffix
        f = prog.fns[f.get("parent")]
    if f.get("kind") == "Closure":
        # parent without MIR record (should not happen)
        return norm(name)
    if f.get("impl_self_head"):
        head = last(f.get("impl_self_head"))
        if f.get("impl_self_head").startswith("<"):
            head = f.ty(f.get("impl_self"))["s"]
        m = last(f.name)
        if f.get("impl_trait"):
            return "<%s as %s>::%s%s" % (head, last(f.get("impl_trait")), m, suffix)
        return "%s::%s%s" % (head, m, suffix)
    return norm(f.name) + suffix


def with_closures(prog, fn):
    """fn and, transitively, every closure/coroutine body defined inside it"""
    out = [fn]
    i = 0
    while i < len(out):
        out.extend(prog.closures_of(out[i].name))
        i += 1
    return out


def calls(prog, fn, closures=True):
    """yield (body, bb, term) for every call in fn (and the closures defined in it)"""
    bodies = with_closures(prog, fn) if closures else [fn]
    for b in bodies:
        for bi, t in b.calls():
            yield b, bi, t


def call_def(t):
    return t["f"].get("def")


def call_inst(t):
    return t["f"].get("inst")


def call_target(t):
    """resolved instance when known, else the (trait) definition"""
    return t["f"].get("inst") or t["f"].get("def")


def is_call_to(t, *names):
    """does the call resolve to (or name, for dyn/generic calls) one of the given paths?
    names may use `{impl}` for any impl ordinal."""
    d = norm(t["f"].get("def") or "")
    i = norm(t["f"].get("inst") or "")
    return d in names or i in names


def place_of(op):
    return op.get("c") or op.get("m")


def place_fields(place):
    return [e[2] for e in place[1:] if isinstance(e, list) and e[0] == "f"]


def find_fn(prog, pretty_suffix=None, name=None):
    if name:
        return prog.fns.get(name)
    c = [f for f in prog.fns.values() if f.pretty == pretty_suffix or f.pretty.endswith("::" + pretty_suffix)]
    return c[0] if len(c) == 1 else None


def fn_by_key(prog, key):
    c = [f for f in prog.fns.values() if keyname(prog, f) == key]
    return c[0] if len(c) == 1 else None


def fns_by_key(prog):
    out = {}
    for f in prog.fns.values():
        out.setdefault(keyname(prog, f), []).append(f)
    return out


def const_str(op):
    k = op.get("k")
    if k and "const" in k:
        m = re.match(r'^"(.*)"$', k["const"], re.S)
        if m:
            return m.group(1)
    return None


def const_int(op):
    k = op.get("k")
    if k and "int" in k:
        return int(k["int"])
    return None


def assigned_consts(fn, local):
    """string/int constants directly assigned to a local"""
    out = []
    for b in fn.blocks:
        for s in b["s"]:
            if s["k"] == "assign" and s["lhs"] == [local] and s["rv"]["k"] == "use":
                out.append(s["rv"]["op"])
    return out
