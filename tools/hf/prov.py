import re
"""A2: intra-procedural value provenance on MIR facts.

Origins are tuples:
  ("arg", local)                  parameter of the function (local index, 1-based)
  ("upvar", field idx, name)      captured variable of a closure / coroutine (field of *_1)
  ("const", text)                 literal / evaluated constant (ints as decimal text)
  ("fnitem", def path)            a function item used as a value
  ("static", name)                address of / value loaded from a static
  ("call", bb, def, inst)         result of the call terminator of block bb
  ("agg", kind, name, (ops...))   aggregate built from operand origin sets (tuple/adt/closure/array)
  ("field", origin, idx, name)    projection of an origin the tracer could not open
  ("index", origin)               element of an origin (slice/array/vec indexing by MIR Index)
  ("bin", op, a, b) / ("un", op, a)
  ("discr", origin)
  ("unknown", why)

trace() is flow-insensitive over *all* definitions of a local (an over-approximation of where a
value can come from), so "derives only from X" is sound.  single_def() reports whether a local has
exactly one definition, which the same-value rules require in addition.
"""

TRANSPARENT_CALLS = {
    # callee def path -> index of the argument whose value passes through
    "core::ops::deref::Deref::deref": 0,
    "core::ops::deref::DerefMut::deref_mut": 0,
    "core::convert::AsRef::as_ref": 0,
    "core::convert::AsMut::as_mut": 0,
    "core::borrow::Borrow::borrow": 0,
    "core::borrow::BorrowMut::borrow_mut": 0,
    "core::clone::Clone::clone": 0,
    "core::convert::Into::into": 0,
    "core::convert::From::from": 0,
    "alloc::borrow::ToOwned::to_owned": 0,
    "core::future::into_future::IntoFuture::into_future": 0,
    "core::iter::traits::collect::IntoIterator::into_iter": 0,
    "core::pin::{impl}::new_unchecked": 0,
    "core::pin::{impl}::new": 0,
    "alloc::vec::{impl}::as_slice": 0,
    "alloc::vec::{impl}::as_mut_slice": 0,
    "alloc::string::{impl}::as_str": 0,
    "core::option::{impl}::unwrap": 0,
    "core::option::{impl}::expect": 0,
    "core::option::{impl}::as_ref": 0,
    "core::option::{impl}::as_mut": 0,
    "core::result::{impl}::unwrap": 0,
    "core::result::{impl}::expect": 0,
    "core::ops::try_trait::Try::branch": 0,
}


_IMPL = re.compile(r"\{impl#\d+\}")
PROGRAM = None        # set by facts.load(): lets constant operands be resolved through promoted bodies


def norm(defpath):
    """def path with impl-block ordinals erased (`core::option::{impl}::unwrap`)"""
    return _IMPL.sub("{impl}", defpath) if defpath else defpath


class Prov:
    def __init__(self, fn, transparent=None, opaque=()):
        self.fn = fn
        self.transparent = dict(TRANSPARENT_CALLS)
        if transparent:
            self.transparent.update(transparent)
        for o in opaque:
            self.transparent.pop(o, None)
        self.defs = {}       # local -> list of (bb, idx or 'term', kind, payload)
        self.is_closure = fn.get("kind") == "Closure"
        for bi, b in enumerate(fn.blocks):
            if b["cleanup"]:
                continue
            for si, s in enumerate(b["s"]):
                if s["k"] == "assign":
                    l = s["lhs"][0]
                    self.defs.setdefault(l, []).append((bi, si, "assign", s))
                elif s["k"] == "setdiscr":
                    l = s["lhs"][0]
                    self.defs.setdefault(l, []).append((bi, si, "setdiscr", s))
            t = b["t"]
            if t["k"] == "call":
                l = t["dest"][0]
                self.defs.setdefault(l, []).append((bi, "term", "call", t))
            elif t["k"] == "yield":
                pass
        # effects through `&mut`: a call that receives `&mut L` (possibly re-borrowed) may change L,
        # so it counts as one more definition of L (origin = that call; look through its arguments)
        self.mut_base = {}
        changed = True
        while changed:
            changed = False
            for bi, b in enumerate(fn.blocks):
                if b["cleanup"]:
                    continue
                for s in b["s"]:
                    if s["k"] == "assign" and len(s["lhs"]) == 1:
                        rv = s["rv"]
                        tgt = None
                        if rv["k"] == "ref" and rv["mut"]:
                            pl = rv["place"]
                            if len(pl) == 1 or all(e != "*" for e in pl[1:]):
                                tgt = pl[0]
                            elif pl[0] in self.mut_base:
                                tgt = self.mut_base[pl[0]]
                        elif rv["k"] == "use":
                            pl = rv["op"].get("m") or rv["op"].get("c")
                            if pl and len(pl) == 1 and pl[0] in self.mut_base:
                                tgt = self.mut_base[pl[0]]
                        if tgt is not None and self.mut_base.get(s["lhs"][0]) != tgt:
                            self.mut_base[s["lhs"][0]] = tgt
                            changed = True
        for bi, b in enumerate(fn.blocks):
            if b["cleanup"]:
                continue
            t = b["t"]
            if t["k"] == "call":
                for a in t["args"]:
                    pl = a.get("m") or a.get("c")
                    if pl and len(pl) == 1 and pl[0] in self.mut_base:
                        self.defs.setdefault(self.mut_base[pl[0]], []).append((bi, "term", "mutcall", t))
        self._memo = {}

    def single_def(self, local):
        d = self.defs.get(local, [])
        if local <= self.fn["argc"] and local >= 1:
            return len(d) == 0
        return len([x for x in d if x[2] != "mutcall"]) == 1 and not any(x[2] == "mutcall" for x in d)

    # ---------------------------------------------------------------------------------------
    def trace_operand(self, op, depth=0):
        if "k" in op:
            return self._const(op["k"])
        place = op.get("c") or op.get("m")
        if place is None:
            return {("unknown", "operand")}
        return self.trace_place(place, depth)

    def _const(self, k):
        if "fn" in k:
            return {("fnitem", k["fn"]["def"], k["fn"].get("inst"))}
        if "int" in k:
            return {("const", k["int"])}
        if "static" in k:
            return {("static", k["static"])}
        txt = k.get("const", "")
        m = re.search(r"promoted\[(\d+)\]$", txt)
        if m and PROGRAM is not None:
            # a promoted temporary (`&"literal"`): its value is the constant its own small body computes
            owner = self.fn.get("promoted_of") or self.fn.name
            pf = PROGRAM.fns.get("%s::promoted[%s]" % (owner, m.group(1)))
            if pf is not None and pf is not self.fn:
                return set(flatten(Prov(pf).trace_local(0))) or {("const", txt)}
        return {("const", txt)}

    def trace_place(self, place, depth=0):
        local = place[0]
        proj = place[1:]
        base = self.trace_local(local, depth)
        return self._apply_proj(base, proj)

    def _apply_proj(self, origins, proj):
        cur = set(origins)
        for e in proj:
            nxt = set()
            if e == "*":
                nxt = cur
            elif e[0] == "f":
                idx, name = e[1], e[2]
                for o in cur:
                    if o[0] == "agg" and idx < len(o[3]):
                        nxt |= set(o[3][idx])
                    elif o[0] == "partial":
                        # ("partial", path tuple, origins): keep if path starts with this field
                        if o[1] and o[1][0] == idx:
                            if len(o[1]) == 1:
                                nxt |= set(o[2])
                            else:
                                nxt.add(("partial", o[1][1:], o[2]))
                    else:
                        nxt.add(("field", o, idx, name))
            elif e[0] == "dc":
                nxt = cur
            elif e[0] in ("i", "ci", "sub"):
                for o in cur:
                    if o[0] == "agg" and o[1] == "array":
                        for x in o[3]:
                            nxt |= set(x)
                    else:
                        nxt.add(("index", o))
            else:
                nxt = {("unknown", "proj")}
            cur = nxt
        return cur

    def trace_local(self, local, depth=0):
        if local in self._memo:
            r = self._memo[local]
            if r is None:
                return {("cycle", local)}
            return r
        self._memo[local] = None
        out = set()
        fn = self.fn
        if 1 <= local <= fn["argc"]:
            out.add(("arg", local))
        for (bi, si, kind, x) in self.defs.get(local, []):
            if kind == "assign":
                lhs = x["lhs"]
                o = self._trace_rvalue(x["rv"], depth)
                if len(lhs) == 1:
                    out |= o
                else:
                    path = tuple(e[1] for e in lhs[1:] if e != "*" and e[0] == "f")
                    if any(e != "*" and e[0] not in ("f", "dc") for e in lhs[1:]):
                        out.add(("partial-index", frozenset(o)))
                    elif path:
                        out.add(("partial", path, frozenset(o)))
                    else:
                        out |= o    # store through a deref of this local: *l = v
            elif kind == "call":
                lhs = x["dest"]
                o = self._trace_call(bi, x, depth)
                if len(lhs) == 1:
                    out |= o
                else:
                    path = tuple(e[1] for e in lhs[1:] if e != "*" and e[0] == "f")
                    out.add(("partial", path, frozenset(o)) if path else ("unknown", "call-into-proj"))
            elif kind == "mutcall":
                out.add(("call", bi, norm(x["f"].get("def")), x["f"].get("inst")))
            elif kind == "setdiscr":
                pass
        if not out:
            out.add(("unknown", "nodef:%d" % local))
        # closure upvars: fields of *_1
        self._memo[local] = out
        return out

    def _trace_rvalue(self, rv, depth):
        k = rv["k"]
        if k == "use":
            return self.trace_operand(rv["op"], depth)
        if k in ("ref", "rawptr"):
            return self.trace_place(rv["place"], depth)
        if k == "cast":
            return self.trace_operand(rv["op"], depth)
        if k == "agg":
            ops = tuple(frozenset(self.trace_operand(o, depth)) for o in rv["ops"])
            return {("agg", rv["agg"], rv.get("name", rv.get("vname", "")) + (":" + rv["vname"] if rv.get("agg") == "adt" else ""), ops)}
        if k == "bin":
            return {("bin", rv["op"], frozenset(self.trace_operand(rv["a"], depth)), frozenset(self.trace_operand(rv["b"], depth)))}
        if k == "un":
            return {("un", rv["op"], frozenset(self.trace_operand(rv["a"], depth)))}
        if k == "discr":
            return {("discr", frozenset(self.trace_place(rv["place"], depth)))}
        if k == "tls":
            return {("static", rv["name"])}
        if k == "repeat":
            return {("agg", "array", "", (frozenset(self.trace_operand(rv["op"], depth)),))}
        return {("unknown", "rv:" + k)}

    def _trace_call(self, bi, t, depth):
        f = t["f"]
        d = f.get("def")
        d = norm(d) if d else d
        if d in self.transparent:
            i = self.transparent[d]
            if i < len(t["args"]):
                return self.trace_operand(t["args"][i], depth)
        return {("call", bi, d, f.get("inst"))}

    # ---------------------------------------------------------------------------------------
    def call_args(self, bi):
        t = self.fn.blocks[bi]["t"]
        return [self.trace_operand(a) for a in t["args"]]


def flatten(origins, seen=None):
    """all leaf origins reachable inside a set of origins (opens agg/bin/field/index wrappers)"""
    out = set()
    stack = list(origins)
    seen = set()
    while stack:
        o = stack.pop()
        if o in seen:
            continue
        seen.add(o)
        k = o[0]
        if k == "agg":
            for x in o[3]:
                stack.extend(x)
        elif k in ("bin",):
            stack.extend(o[2]); stack.extend(o[3])
        elif k in ("un", "discr"):
            stack.extend(o[-1])
        elif k == "field":
            stack.append(o[1])
        elif k == "index":
            stack.append(o[1])
        elif k == "partial":
            stack.extend(o[2])
        elif k == "partial-index":
            stack.extend(o[1])
        else:
            out.add(o)
    return out


def calls_in(origins):
    return {o for o in flatten(origins) if o[0] == "call"}


def describe(o):
    k = o[0]
    if k == "call":
        return "result of %s (bb%d)" % (o[2], o[1])
    if k == "arg":
        return "parameter _%d" % o[1]
    if k == "const":
        return "const %s" % o[1]
    return str(o)[:120]


def field_names(origins):
    """names of all struct fields read anywhere inside the origin terms (not flattened)"""
    out = set()
    stack = list(origins)
    seen = set()
    while stack:
        o = stack.pop()
        if isinstance(o, frozenset):
            stack.extend(o)
            continue
        if not isinstance(o, tuple) or o in seen:
            continue
        seen.add(o)
        if o and o[0] == "field" and o[3] is not None:
            out.add(o[3])
        for x in o:
            if isinstance(x, (tuple, frozenset)):
                stack.append(x)
    return out


def await_of(fn, origin):
    """if `origin` is the Ready payload of polling a future, return (poll bb, coroutine/inst name)"""
    if origin[0] == "field" and origin[2] == 0 and origin[1][0] == "call":
        c = origin[1]
        if (c[2] or "").endswith("future::Future::poll"):
            return c[1], c[3]
    return None
