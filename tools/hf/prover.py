"""A5 — obligation prover: forward abstract interpretation of MIR over a conjunction of linear
constraints (Fourier–Motzkin entailment), path-sensitive at SwitchInt, joined at merge points
with template facts, iterated to a fixpoint.  Three-valued: PROVED / REFUTED (with a
counter-assignment) / UNDECIDED.  See DESIGN.md section 2.4.

Constraint c is a Lin meaning c >= 0.  Lin = (const, ((sym, coef), ...)) normalised.
"""
from fractions import Fraction

from .util import norm, last, place_of

# --------------------------------------------------------------------------------------------------
# linear expressions
# --------------------------------------------------------------------------------------------------


class Lin:
    __slots__ = ("c", "t")

    def __init__(self, c=0, t=None):
        self.c = c
        self.t = {k: v for k, v in (t or {}).items() if v != 0}

    @staticmethod
    def konst(c):
        return Lin(c)

    @staticmethod
    def sym(s):
        return Lin(0, {s: 1})

    def add(self, o):
        t = dict(self.t)
        for k, v in o.t.items():
            t[k] = t.get(k, 0) + v
        return Lin(self.c + o.c, t)

    def scale(self, k):
        return Lin(self.c * k, {s: v * k for s, v in self.t.items()})

    def sub(self, o):
        return self.add(o.scale(-1))

    def plus(self, k):
        return Lin(self.c + k, self.t)

    def is_const(self):
        return self.c if not self.t else None

    def key(self):
        return (self.c, tuple(sorted(self.t.items())))

    def __eq__(self, o):
        return isinstance(o, Lin) and self.key() == o.key()

    def __hash__(self):
        return hash(self.key())

    def syms(self):
        return set(self.t)


def satisfiable(cons, want_model=False):
    """is {c >= 0} satisfiable over the rationals?  (Fourier–Motzkin; systems are tiny)"""
    cur = []
    seen = set()
    for c in cons:
        k = c.key()
        if k not in seen:
            seen.add(k)
            cur.append(c)
    order = []
    history = []
    while True:
        for c in cur:
            if not c.t and c.c < 0:
                return (False, None) if want_model else False
        cur = [c for c in cur if c.t]
        if not cur:
            break
        s = sorted(cur[0].t)[0]
        pos, neg, rest = [], [], []
        for c in cur:
            k = c.t.get(s, 0)
            if k > 0:
                pos.append((k, c))
            elif k < 0:
                neg.append((-k, c))
            else:
                rest.append(c)
        history.append((s, pos, neg))
        seen = {c.key() for c in rest}
        for kp, p in pos:
            for kn, n in neg:
                comb = p.scale(kn).add(n.scale(kp))
                kk = comb.key()
                if kk not in seen:
                    seen.add(kk)
                    rest.append(comb)
        if len(rest) > 3000:
            return (True, None) if want_model else True      # give up: treat as satisfiable (no proof)
        cur = rest
    if not want_model:
        return True
    # back-substitute a model (rationals, then we report floor/ceil-friendly values)
    model = {}
    for s, pos, neg in reversed(history):
        lo, hi = None, None
        for k, c in pos:       # k*s + rest >= 0  => s >= -rest/k
            rest = Fraction(c.c)
            for y, v in c.t.items():
                if y != s:
                    rest += Fraction(v) * model.get(y, 0)
            b = -rest / k
            lo = b if lo is None or b > lo else lo
        for k, c in neg:       # -k*s + rest >= 0 => s <= rest/k
            rest = Fraction(c.c)
            for y, v in c.t.items():
                if y != s:
                    rest += Fraction(v) * model.get(y, 0)
            b = rest / k
            hi = b if hi is None or b < hi else hi
        if lo is None and hi is None:
            val = Fraction(0)
        elif lo is None:
            val = Fraction(int(hi // 1))
        else:
            import math
            val = Fraction(math.ceil(lo))
            if hi is not None and val > hi:
                val = lo
        model[s] = val
    return True, model


def entails(facts, goal):
    """facts |= goal >= 0   (integers: not(goal >= 0) is -goal-1 >= 0)"""
    return not satisfiable(list(facts) + [goal.scale(-1).plus(-1)])


def counter_model(facts, goal):
    ok, m = satisfiable(list(facts) + [goal.scale(-1).plus(-1)], want_model=True)
    return m if ok else None


# --------------------------------------------------------------------------------------------------
# abstract values
# --------------------------------------------------------------------------------------------------
UNKNOWN = ("unknown",)


def V_int(l):
    return ("int", l)


def V_slice(l):
    return ("slice", l)


def V_iter(l, pos=None):
    return ("iter", l)


def V_opt(payload, some, none):
    return ("opt", payload, tuple(some), tuple(none))


def V_cf(payload, cont, brk):
    return ("cf", payload, tuple(cont), tuple(brk))


def V_bool(t, f):
    return ("bool", tuple(t), tuple(f))


def V_tuple(vs):
    return ("tuple", tuple(vs))


def V_struct(name, fields):
    return ("struct", name, tuple(sorted(fields.items())))


def struct_get(v, name):
    if v[0] == "struct":
        for k, x in v[2]:
            if k == name:
                return x
    return UNKNOWN


FALSE = Lin.konst(-1)      # the constraint -1 >= 0


class State:
    __slots__ = ("vals", "facts")

    def __init__(self, vals=None, facts=None):
        self.vals = dict(vals or {})
        self.facts = list(facts or [])

    def copy(self):
        return State(self.vals, self.facts)

    def key(self):
        return (tuple(sorted(((str(k), _vkey(v)) for k, v in self.vals.items()), key=lambda kv: kv[0])), tuple(sorted((f.key() for f in self.facts), key=str)))

    def add(self, con):
        if con not in self.facts:
            self.facts.append(con)


def _vkey(v):
    if isinstance(v, Lin):
        return ("L",) + v.key()
    if isinstance(v, tuple):
        return tuple(_vkey(x) for x in v)
    return v


class Ctx:
    def __init__(self, prog, hooks=None):
        self.p = prog
        self.n = 0
        self.names = {}
        self.phi = {}
        self.callsym = {}
        self.lens = []           # known slice length expressions (templates)
        self.depth = 0
        self.hooks = hooks or {}
        self.notes = []
        self.obligations = []    # (kind, fn name, bb, ln, verdict, detail)
        self.summaries = {}

    def fresh(self, name):
        self.n += 1
        self.names[self.n] = name
        return self.n

    def show(self, l):
        parts = []
        for k, v in sorted(l.t.items()):
            nm = self.names.get(k, "s%d" % k)
            parts.append(("%+d*%s" % (v, nm)) if v not in (1, -1) else ("+%s" % nm if v == 1 else "-%s" % nm))
        if l.c or not parts:
            parts.append("%+d" % l.c)
        return " ".join(parts)

    def show_model(self, m):
        if not m:
            return "?"
        return ", ".join("%s=%s" % (self.names.get(k, k), v) for k, v in sorted(m.items(), key=lambda kv: self.names.get(kv[0], "")) if not self.names.get(k, "").startswith("phi") or True)

    OPAQUE_PREFIXES = ("ret@", "ret.", "phi_", "unwrap@", "max@", "min@", "iterlen@", "u_", "clen_")

    def is_opaque(self, sym):
        """symbols whose whole range is not known to be realisable: a counter-assignment that uses them
        proves nothing (=> UNDECIDED, never REFUTED)"""
        return self.names.get(sym, "").startswith(self.OPAQUE_PREFIXES)

    def any_opaque(self, lin):
        return any(self.is_opaque(s) for s in lin.syms())

    def relevant_opaque(self, facts, goal):
        """is an opaque symbol connected to the goal through the facts?  A counter-assignment that
        has to choose a value for such a symbol proves nothing."""
        comp = set(goal.syms())
        changed = True
        while changed:
            changed = False
            for f in facts:
                fs = f.syms()
                if fs & comp and not fs <= comp:
                    comp |= fs
                    changed = True
        return any(self.is_opaque(s) for s in comp)

    def templates(self, v):
        t = [v, Lin.konst(1).sub(v), v.plus(-1)]
        for l in self.lens:
            t.append(l.sub(v))
        return t


# --------------------------------------------------------------------------------------------------
def place_val(cx, st, pl):
    v = st.vals.get(pl[0], UNKNOWN)
    for e in pl[1:]:
        if e == "*":
            continue
        if e[0] == "dc":
            continue
        if e[0] == "f":
            i, name = e[1], e[2]
            if v[0] == "tuple" and i < len(v[1]):
                v = v[1][i]
            elif v[0] == "closure" and i < len(v[2]):
                v = v[2][i]
            elif v[0] in ("opt", "cf") and i == 0:
                v = v[1]
            elif v[0] == "struct":
                v = struct_get(v, name)
            else:
                return UNKNOWN
        else:
            return UNKNOWN
    return v


def const_val(k):
    if "int" in k:
        n = int(k["int"])
        txt = k.get("txt", "")
        if txt in ("true", "false"):
            return V_bool([], [FALSE]) if n else V_bool([FALSE], [])
        return V_int(Lin.konst(n))
    return UNKNOWN


def op_val(cx, st, op):
    if "k" in op:
        return const_val(op["k"])
    pl = place_of(op)
    return place_val(cx, st, pl) if pl else UNKNOWN


def cmp_bool(st, op, a, b):
    def d(x, y, k):      # x - y + k >= 0
        return x.sub(y).plus(k)
    if op == "Lt":
        return V_bool([d(b, a, -1)], [d(a, b, 0)])
    if op == "Le":
        return V_bool([d(b, a, 0)], [d(a, b, -1)])
    if op == "Gt":
        return V_bool([d(a, b, -1)], [d(b, a, 0)])
    if op == "Ge":
        return V_bool([d(a, b, 0)], [d(b, a, -1)])
    if op in ("Eq", "Ne"):
        eq = [d(a, b, 0), d(b, a, 0)]
        if entails(st.facts, d(a, b, 0)):
            ne = [d(a, b, -1)]
        elif entails(st.facts, d(b, a, 0)):
            ne = [d(b, a, -1)]
        else:
            ne = []
        return V_bool(eq, ne) if op == "Eq" else V_bool(ne, eq)
    return UNKNOWN


def join_vals(cx, key, a, va, b, vb, out_facts):
    if va == vb:
        return va
    if va[0] == "int" and vb[0] == "int":
        s = cx.phi.get(key)
        if s is None:
            s = cx.fresh("phi_bb%s_%s" % (key[1], key[2]))
            cx.phi[key] = s
        phi = Lin.sym(s)
        tx, ty, tp = cx.templates(va[1]), cx.templates(vb[1]), cx.templates(phi)
        for i in range(len(tp)):
            if entails(a.facts, tx[i]) and entails(b.facts, ty[i]):
                out_facts.append(tp[i])
        # equalities to other locals are lost; keep exact value when both sides are the same affine form
        return V_int(phi)
    if va[0] == "opt" and vb[0] == "opt":
        fa = list(a.facts) + list(va[2])
        fb = list(b.facts) + list(vb[2])
        a_can, b_can = satisfiable(fa), satisfiable(fb)
        none = [c for c in va[3] if c in vb[3]]
        if a_can and not b_can:
            return V_opt(va[1], fa, none)
        if b_can and not a_can:
            return V_opt(vb[1], fb, none)
        extra = []
        pv = join_vals(cx, (key[0], key[1], str(key[2]) + "p"), State(None, fa), va[1], State(None, fb), vb[1], extra)
        some = list(extra)
        for c in fa:
            if entails(fb, c) and c not in some:
                some.append(c)
        for c in fb:
            if entails(fa, c) and c not in some:
                some.append(c)
        return V_opt(pv, some, none)
    if va[0] == "slice" and vb[0] == "slice":
        extra = []
        r = join_vals(cx, (key[0], key[1], str(key[2]) + "l"), a, V_int(va[1]), b, V_int(vb[1]), extra)
        out_facts.extend(extra)
        return V_slice(r[1]) if r[0] == "int" else UNKNOWN
    if va[0] == "tuple" and vb[0] == "tuple" and len(va[1]) == len(vb[1]):
        return V_tuple([join_vals(cx, (key[0], key[1], "%s.%d" % (key[2], i)), a, x, b, y, out_facts) for i, (x, y) in enumerate(zip(va[1], vb[1]))])
    if va[0] == "struct" and vb[0] == "struct" and va[1] == vb[1]:
        fa, fb = dict(va[2]), dict(vb[2])
        return V_struct(va[1], {k: join_vals(cx, (key[0], key[1], "%s.%s" % (key[2], k)), a, fa[k], b, fb.get(k, UNKNOWN), out_facts) for k in fa})
    if va[0] == "bool" and vb[0] == "bool":
        return V_bool([c for c in va[1] if c in vb[1]], [c for c in va[2] if c in vb[2]])
    if va[0] == "flag" and vb[0] == "flag":
        if isinstance(va[1], bool) and isinstance(vb[1], bool):
            return ("flag", va[1] or vb[1])
        if key[2] == "#peel" and isinstance(va[1], int) and isinstance(vb[1], int):
            return ("flag", max(va[1], vb[1]))
        return ("flag", "mixed")
    return UNKNOWN


def join(cx, fname, bb, a, b):
    facts = []
    for f in a.facts:
        if f not in facts and entails(b.facts, f):
            facts.append(f)
    for f in b.facts:
        if f not in facts and entails(a.facts, f):
            facts.append(f)
    vals = {}
    for k, va in a.vals.items():
        vb = b.vals.get(k)
        if vb is None:
            continue
        v = join_vals(cx, (fname, bb, k), a, va, b, vb, facts)
        if v != UNKNOWN:
            vals[k] = v
    return State(vals, facts)


UNSIGNED = {"usize", "u8", "u16", "u32", "u64", "u128"}


def havoc(st, sym):
    """forget everything known about a symbol that is about to be redefined (a call site or an
    unsigned temporary inside a loop gets the same symbol on every iteration)"""
    st.facts = [f for f in st.facts if sym not in f.t]
    for k in [k for k, v in st.vals.items() if _mentions(v, sym)]:
        del st.vals[k]


def _mentions(v, sym):
    if isinstance(v, Lin):
        return sym in v.t
    if isinstance(v, tuple):
        return any(_mentions(x, sym) for x in v)
    return False


def unsigned_sym(cx, fn, st, local, bb):
    ver = getattr(cx, "cur_ver", "w")
    key = (fn.name, "u", local, bb, ver)
    s_ = cx.callsym.get(key)
    if s_ is None:
        s_ = cx.fresh("u_%s@bb%d%s" % (fn.debug_names().get(local, "_%d" % local), bb, "" if ver == "w" else "#%s" % ver))
        cx.callsym[key] = s_
    if ver == "w":
        havoc(st, s_)
    l = Lin.sym(s_)
    st.add(l)
    return V_int(l)


def _widened(st):
    return st.vals.get("#wide", ("flag", False))[1]


def loop_variant(fn, header, succ, index):
    """locals assigned inside the natural loop(s) of `header`"""
    key = ("variant", header)
    cache = getattr(fn, "_hf_variant", None)
    if cache is None:
        cache = {}
        try:
            object.__setattr__(fn, "_hf_variant", cache)
        except Exception:
            pass
    if key in cache:
        return cache[key]
    from .cfg import Cfg
    cfg = Cfg(fn)
    body = cfg.natural_loops().get(header, {header})
    out = set()
    for b in body:
        for s in fn.blocks[b]["s"]:
            if s["k"] == "assign":
                out.add(s["lhs"][0])
        t = fn.blocks[b]["t"]
        if t["k"] == "call":
            out.add(t["dest"][0])
    cache[key] = out
    return out


def widen(cx, fn, key, states, variant):
    """join at a loop header with widening: every loop-variant integer local becomes a phi symbol of
    this header (and partition), constrained by the templates that hold in every incoming state"""
    facts = [f for f in states[0].facts if all(entails(s.facts, f) for s in states[1:])]
    for s in states[1:]:
        for f in s.facts:
            if f not in facts and all(entails(x.facts, f) for x in states):
                facts.append(f)
    # the phi symbols of this header are about to be redefined: common facts that still mention them
    # speak about the previous iteration's values
    own = {sy for (fnm, kk, loc), sy in cx.phi.items() if fnm == fn.name and kk == key}
    facts = [f for f in facts if not (f.syms() & own)]
    vals = {}
    for k, v0 in states[0].vals.items():
        vs = [s.vals.get(k) for s in states]
        if any(v is None for v in vs):
            continue
        if v0[0] == "int" and k in variant and all(v[0] == "int" for v in vs):
            pk = (fn.name, key, k)
            sy = cx.phi.get(pk)
            if sy is None:
                sy = cx.fresh("phi_bb%s_%s" % (key, k))
                cx.phi[pk] = sy
            phi = Lin.sym(sy)
            tp = cx.templates(phi)
            for i in range(len(tp)):
                if all(entails(s.facts, cx.templates(v[1])[i]) for s, v in zip(states, vs)):
                    facts.append(tp[i])
            vals[k] = V_int(phi)
        else:
            acc = v0
            dummy = []
            for s, v in zip(states[1:], vs[1:]):
                acc = join_vals(cx, (fn.name, key, k), states[0], acc, s, v, dummy)
            for d in dummy:
                if d not in facts:
                    facts.append(d)
            if acc != UNKNOWN:
                vals[k] = acc
    # facts that mention a phi of this header from the previous round are stale: drop them unless re-derived
    return State(vals, facts)


class Summary:
    def __init__(self):
        self.rets = []          # (state, value of _0)
        self.reports = []       # obligation reports (dicts)
        self.visited_returns = 0
        self.n_returns = 0
        self.loop_facts = {}


# --------------------------------------------------------------------------------------------------
class Budget(Exception):
    """the fixpoint of one function did not settle within the time allowed: the obligation is left undecided"""


BUDGET_S = 90.0


def analyze(cx, fn, args, facts, want_edges=False, init_vals=None):
    """args: list of abstract values for parameters _1.. ; facts: initial constraints"""
    import time as _time
    init = State({i + 1: v for i, v in enumerate(args) if v != UNKNOWN}, facts)
    top_level = cx.depth == 0
    if top_level:
        cx.deadline = _time.time() + BUDGET_S
    if init_vals:
        init.vals.update(init_vals)
    blocks = fn.blocks
    n = len(blocks)
    # reverse post-order over normal edges
    succ = [fn.succs(i) if not blocks[i]["cleanup"] else [] for i in range(n)]
    order, seen = [], set()
    stack = [(0, iter(succ[0]))]
    seen.add(0)
    while stack:
        b, it = stack[-1]
        adv = False
        for s in it:
            if s not in seen and not blocks[s]["cleanup"]:
                seen.add(s)
                stack.append((s, iter(succ[s])))
                adv = True
                break
        if not adv:
            order.append(b)
            stack.pop()
    rpo = list(reversed(order))
    # trace partitioning: up to K abstract states are kept per block (one per incoming path shape)
    # instead of joining at every merge point, so that `let x = if c { a } else { b }` keeps the
    # path facts of each arm.  Loop headers always join (termination of the fixpoint).
    K = cx.hooks.get("partitions", 6) if cx.depth == 0 else 2
    index = {b: i for i, b in enumerate(rpo)}
    headers = set()
    for b in rpo:
        for x in succ[b]:
            if x in index and index[x] <= index[b] and not blocks[x]["cleanup"]:
                headers.add(x)
    tail = set(b for b in rpo if b not in headers)
    edges = {}
    summ = Summary()
    summ.n_returns = sum(1 for b in rpo if blocks[b]["t"]["k"] == "return")
    for rnd in range(60):
        changed = False
        rets, reports = [], []
        for bb in rpo:
            if getattr(cx, "deadline", None) and _time.time() > cx.deadline:
                raise Budget("abstract interpretation of %s did not settle within %ds" % (fn.name, int(BUDGET_S)))
            inc = [s_ for (p_, t_), lst in sorted(edges.items(), key=lambda kv: kv[0]) if t_ == bb for s_ in lst]
            if bb == 0:
                inc = [init] + inc
            if not inc:
                continue
            uniq = []
            seen_k = set()
            for s_ in inc:
                kk = s_.key()
                if kk not in seen_k:
                    seen_k.add(kk)
                    uniq.append(s_)
            inc = uniq
            pkey = cx.hooks.get("partition_key")
            PEEL = cx.hooks.get("peel", 0) if top_level else 0
            peeled = []
            if PEEL and bb in headers:
                rest = []
                for s_ in inc:
                    n_ = s_.vals.get("#peel", ("flag", 0))[1]
                    if n_ < PEEL:
                        c_ = s_.copy()
                        c_.vals["#peel"] = ("flag", n_ + 1)
                        peeled.append(c_)
                    else:
                        rest.append(s_)
                inc = rest
            if not inc:
                todo = []
            elif bb in tail and len(inc) <= K:
                todo = [s_.copy() for s_ in inc]
            elif pkey is not None:
                # loop headers / overfull blocks: join only states that agree on the finite partition key
                groups = {}
                for s_ in inc:
                    groups.setdefault(pkey(s_), []).append(s_)
                todo = []
                for gk, lst in sorted(groups.items(), key=lambda kv: str(kv[0])):
                    if bb in headers:
                        todo.append(widen(cx, fn, "%s#%s" % (bb, gk), lst, loop_variant(fn, bb, succ, index)))
                    else:
                        acc = lst[0].copy()
                        for s_ in lst[1:]:
                            acc = join(cx, fn.name, "%s#%s" % (bb, gk), acc, s_)
                        todo.append(acc)
            else:
                acc = inc[0].copy()
                for s_ in inc[1:]:
                    acc = join(cx, fn.name, bb, acc, s_)
                todo = [acc]
            if PEEL and bb in headers:
                for s_ in todo:
                    s_.vals["#wide"] = ("flag", True)
                    s_.vals["#peel"] = ("flag", PEEL)
            todo = peeled + todo
            edge_out = []
            blk = blocks[bb]
            if "block" in cx.hooks:
                for st in todo:
                    cx.hooks["block"](cx, fn, bb, st, bb in headers)
            for st in todo:
                n_ = st.vals.get("#peel", ("flag", 0))[1]
                if top_level:
                    cx.cur_ver = "w" if (not cx.hooks.get("peel", 0) or _widened(st)) else n_
                for s in blk["s"]:
                    if s["k"] != "assign":
                        continue
                    if "stmt" in cx.hooks:
                        cx.hooks["stmt"](cx, fn, bb, s, st)
                    v = rvalue_val(cx, fn, st, s["rv"], bb)
                    if "stmt_post" in cx.hooks:
                        v2 = cx.hooks["stmt_post"](cx, fn, bb, s, st, v)
                        if v2 is not None:
                            v = v2
                    lhs = s["lhs"]
                    if len(lhs) == 1:
                        if v == UNKNOWN and fn.local_tystr(lhs[0]) in UNSIGNED:
                            v = unsigned_sym(cx, fn, st, lhs[0], bb)
                        if v == UNKNOWN:
                            st.vals.pop(lhs[0], None)
                        else:
                            st.vals[lhs[0]] = v
                    else:
                        # field store into a tracked struct / tuple: (x.f) = v
                        base = st.vals.get(lhs[0])
                        fl = [e for e in lhs[1:] if e != "*" and e[0] != "dc"]
                        if base is not None and len(fl) == 1 and fl[0][0] == "f":
                            if base[0] == "struct":
                                d = dict(base[2])
                                d[fl[0][2]] = v
                                st.vals[lhs[0]] = V_struct(base[1], d)
                            elif base[0] == "tuple" and fl[0][1] < len(base[1]):
                                l2 = list(base[1])
                                l2[fl[0][1]] = v
                                st.vals[lhs[0]] = V_tuple(l2)
                            else:
                                st.vals.pop(lhs[0], None)
                        elif any(e != "*" for e in lhs[1:]):
                            st.vals.pop(lhs[0], None)
                t = blk["t"]
                k = t["k"]
                if k == "return":
                    rets.append((st.copy(), st.vals.get(0, UNKNOWN)))
                elif k == "goto":
                    edge_out.append((t["target"], st))
                elif k == "drop":
                    edge_out.append((t["target"], st))
                elif k == "assert":
                    # the asserted condition holds afterwards; the assertion itself is an obligation (O4)
                    cv = op_val(cx, st, t["cond"])
                    if cv[0] == "bool":
                        want = cv[1] if t["expected"] else cv[2]
                        other = cv[2] if t["expected"] else cv[1]
                        if cx.hooks.get("assert"):
                            cx.hooks["assert"](cx, fn, bb, t, st, want, other, reports)
                        s2 = st.copy()
                        for c in want:
                            s2.add(c)
                        edge_out.append((t["target"], s2))
                    else:
                        if cx.hooks.get("assert"):
                            cx.hooks["assert"](cx, fn, bb, t, st, None, None, reports)
                        edge_out.append((t["target"], st))
                elif k == "switch":
                    dv0 = op_val(cx, st, t["discr"])
                    dv = dv0
                    if dv[0] == "disc":
                        dv = st.vals.get(dv[1], UNKNOWN)
                    seen_vals = []
                    edge_hook = cx.hooks.get("edge")
                    for val, tgt in t["targets"]:
                        val = int(val)
                        seen_vals.append(val)
                        s2 = st.copy()
                        if edge_hook:
                            edge_hook(cx, fn, bb, dv0, val, s2)
                        if dv[0] == "opt":
                            for c in (dv[2] if val == 1 else dv[3]):
                                s2.add(c)
                        elif dv[0] == "cf":
                            for c in (dv[2] if val == 0 else dv[3]):
                                s2.add(c)
                        elif dv[0] == "bool":
                            for c in (dv[2] if val == 0 else dv[1]):
                                s2.add(c)
                        elif dv[0] == "int":
                            kx = Lin.konst(val)
                            s2.add(dv[1].sub(kx))
                            s2.add(kx.sub(dv[1]))
                        if satisfiable(s2.facts):
                            edge_out.append((tgt, s2))
                    s2 = st.copy()
                    if edge_hook:
                        edge_hook(cx, fn, bb, dv0, ("not", tuple(seen_vals)), s2)
                    if dv[0] == "bool":
                        for c in (dv[1] if seen_vals == [0] else dv[2] if seen_vals == [1] else []):
                            s2.add(c)
                    elif dv[0] == "opt":
                        for c in (dv[2] if seen_vals == [0] else dv[3] if seen_vals == [1] else []):
                            s2.add(c)
                    elif dv[0] == "cf":
                        for c in (dv[3] if seen_vals == [0] else dv[2] if seen_vals == [1] else []):
                            s2.add(c)
                    elif dv[0] == "int":
                        for val in seen_vals:
                            # v != val is not convex; only usable at the range boundaries
                            kx = Lin.konst(val)
                            if entails(s2.facts, dv[1].sub(kx)):
                                s2.add(dv[1].sub(kx).plus(-1))
                            elif entails(s2.facts, kx.sub(dv[1])):
                                s2.add(kx.sub(dv[1]).plus(-1))
                    if satisfiable(s2.facts):
                        edge_out.append((t["otherwise"], s2))
                elif k == "call":
                    res = call_val(cx, fn, bb, t, st, reports)
                    dest = t["dest"]
                    if len(dest) == 1:
                        if res == UNKNOWN and fn.local_tystr(dest[0]) in UNSIGNED:
                            res = unsigned_sym(cx, fn, st, dest[0], bb)
                        if res == UNKNOWN:
                            st.vals.pop(dest[0], None)
                        else:
                            st.vals[dest[0]] = res
                    # `&mut x` arguments: the callee may change x (unless modelled)
                    if t["target"] is not None:
                        edge_out.append((t["target"], st))
                elif k == "yield":
                    edge_out.append((t["resume"], st))
            per = {}
            for tgt, s in edge_out:
                if tgt in tail or cx.hooks.get("partition_key") is not None or (cx.hooks.get("peel", 0) and top_level):
                    per.setdefault(tgt, []).append(s)
                else:
                    per[tgt] = [s] if tgt not in per else [join(cx, fn.name, tgt, per[tgt][0], s)]
            for key in [key for key in edges if key[0] == bb and key[1] not in per]:
                del edges[key]
                changed = True
            for tgt, lst in per.items():
                kk = (bb, tgt)
                if kk not in edges or [x.key() for x in edges[kk]] != [x.key() for x in lst]:
                    edges[kk] = lst
                    changed = True
        summ.rets, summ.reports = rets, reports
        if not changed:
            break
    summ.visited_returns = len(summ.rets)
    if want_edges:
        summ.edges = edges
    return summ


def rvalue_val(cx, fn, st, rv, bb):
    k = rv["k"]
    if k == "use":
        return op_val(cx, st, rv["op"])
    if k in ("ref", "rawptr"):
        return place_val(cx, st, rv["place"])
    if k == "cast":
        v = op_val(cx, st, rv["op"])
        if rv["kind"] == "int" and v[0] == "int":
            # widening keeps the value; a narrowing cast keeps it only when the value provably fits
            order = {"u8": 8, "u16": 16, "u32": 32, "u64": 64, "usize": 64, "u128": 128, "i8": 7, "i16": 15, "i32": 31, "i64": 63, "isize": 63, "i128": 127}
            fs_, ts_ = fn.ty(rv["from"])["s"], fn.ty(rv["to"])["s"]
            if order.get(ts_, 64) < order.get(fs_, 64):
                lim = Lin.konst((1 << order[ts_]) - 1)
                if entails(st.facts, lim.sub(v[1])) and entails(st.facts, v[1]):
                    return v
                return UNKNOWN
        return v
    if k == "discr":
        if len(rv["place"]) == 1 or all(e == "*" for e in rv["place"][1:]):
            return ("disc", rv["place"][0])
        return ("discp", tuple(str(e) for e in rv["place"]))
    if k == "un":
        v = op_val(cx, st, rv["a"])
        if rv["op"] == "PtrMetadata" and v[0] == "slice":
            return V_int(v[1])
        if rv["op"] == "Not" and v[0] == "bool":
            return V_bool(v[2], v[1])
        return UNKNOWN
    if k == "bin":
        a, b = op_val(cx, st, rv["a"]), op_val(cx, st, rv["b"])
        op = rv["op"]
        if a[0] == "int" and b[0] == "int":
            if op in ("Add", "AddUnchecked"):
                return V_int(a[1].add(b[1]))
            if op in ("Sub", "SubUnchecked"):
                return V_int(a[1].sub(b[1]))
            if op == "AddWithOverflow":
                return V_tuple([V_int(a[1].add(b[1])), UNKNOWN])
            if op == "SubWithOverflow":
                # the overflow flag is true iff a < b
                return V_tuple([V_int(a[1].sub(b[1])), V_bool([b[1].sub(a[1]).plus(-1)], [a[1].sub(b[1])])])
            if op in ("Mul", "MulWithOverflow"):
                ka, kb = a[1].is_const(), b[1].is_const()
                r = a[1].scale(kb) if kb is not None else b[1].scale(ka) if ka is not None else None
                if r is None:
                    return UNKNOWN
                return V_int(r) if op == "Mul" else V_tuple([V_int(r), UNKNOWN])
            if op in ("Lt", "Le", "Gt", "Ge", "Eq", "Ne"):
                return cmp_bool(st, op, a[1], b[1])
        return UNKNOWN
    if k == "agg":
        ops = [op_val(cx, st, o) for o in rv["ops"]]
        ag = rv["agg"]
        if ag == "closure":
            return ("closure", rv["name"], tuple(ops))
        if ag == "tuple":
            return V_tuple(ops)
        if ag == "adt":
            n = norm(rv["name"])
            if n == "core::ops::range::RangeFrom":
                return ("range", ops[0][1] if ops[0][0] == "int" else None, None) if ops[0][0] == "int" else UNKNOWN
            if n == "core::ops::range::Range":
                return ("range", ops[0][1], ops[1][1]) if ops[0][0] == "int" and ops[1][0] == "int" else UNKNOWN
            if n == "core::ops::range::RangeTo":
                return ("range", None, ops[0][1]) if ops[0][0] == "int" else UNKNOWN
            if n == "core::ops::range::RangeInclusive":
                return UNKNOWN
            if n == "core::option::Option":
                if rv["vname"] == "Some":
                    return V_opt(ops[0], [], [FALSE])
                return V_opt(UNKNOWN, [FALSE], [])
            if n in ("harper_core::span::Span", "harper_core::lexing::FoundToken"):
                return V_struct(last(n), dict(zip(rv["fields"], ops)))
        return UNKNOWN
    return UNKNOWN


# --------------------------------------------------------------------------------------------------
def _sl(v):
    return v[1] if v is not None and v[0] in ("slice",) else None


def call_sym(cx, fn, bb, nm):
    ver = getattr(cx, "cur_ver", "w")
    key = (fn.name, bb, nm, ver)
    s = cx.callsym.get(key)
    if s is None:
        s = cx.fresh("%s@bb%d%s" % (nm, bb, "" if ver == "w" else "#%s" % ver))
        cx.callsym[key] = s
    return Lin.sym(s)


def call_val(cx, fn, bb, t, st, reports):
    ver = getattr(cx, "cur_ver", "w")
    if ver == "w":
        for key, s_ in list(cx.callsym.items()):
            if len(key) == 4 and key[0] == fn.name and key[1] == bb and key[3] == "w":
                havoc(st, s_)
    r = _call_val(cx, fn, bb, t, st, reports)
    invalidate_containers(cx, fn, st, t, last(norm(t["f"].get("inst") or t["f"].get("def") or "")))
    return r


def _call_val(cx, fn, bb, t, st, reports):
    f = t["f"]
    d = norm(f.get("def") or "")
    inst = norm(f.get("inst") or "")
    name = last(inst or d)
    a = [op_val(cx, st, x) for x in t["args"]]
    hook = cx.hooks.get("call")
    if hook:
        r = hook(cx, fn, bb, t, a, st, reports)
        if r is not None:
            return r
    mod = inst or d

    def sym(nm):
        return call_sym(cx, fn, bb, nm)
    is_slice_fn = mod.startswith("core::slice::") or mod.startswith("alloc::vec::") or mod.startswith("core::str::") or mod.startswith("alloc::string::") or mod.startswith("smallvec::")
    if name in ("len", "is_empty") and is_slice_fn:
        l = _sl(a[0]) if a else None
        if l is None and t["args"]:
            l = container_len(cx, fn, st, t["args"][0])
        if l is None:
            return UNKNOWN
        return V_int(l) if name == "len" else V_bool([l.scale(-1)], [l.plus(-1)])
    if name == "new" and inst.startswith("core::ops::range::") and len(a) == 2 and a[0][0] == "int" and a[1][0] == "int":
        return ("rangei", a[0][1], a[1][1])          # RangeInclusive::new(lo, hi)
    if name == "next" and a and a[0][0] == "rangei":
        i_ = sym("range_i")
        return V_opt(V_int(i_), [i_.sub(a[0][1]), a[0][2].sub(i_)], [])
    if name == "next" and a and a[0][0] == "range" and a[0][1] is not None and a[0][2] is not None:
        i_ = sym("range_i")
        return V_opt(V_int(i_), [i_.sub(a[0][1]), a[0][2].sub(i_).plus(-1)], [])
    if name in ("first", "last", "split_first", "split_last", "first_mut", "last_mut") and is_slice_fn:
        l = _sl(a[0]) if a else None
        return V_opt(UNKNOWN, [l.plus(-1)], [l.scale(-1)]) if l is not None else UNKNOWN
    if name in ("get", "get_mut") and is_slice_fn and len(a) > 1:
        l = _sl(a[0])
        if l is not None and a[1][0] == "int":
            i = a[1][1]
            return V_opt(UNKNOWN, [l.sub(i).plus(-1)], [i.sub(l)])
        return UNKNOWN
    if name in ("split", "split_inclusive", "lines", "split_terminator", "chunks", "rsplit", "splitn", "split_whitespace") and is_slice_fn and a and a[0][0] == "slice":
        return ("subslices", a[0][1])
    if name == "next" and a and a[0][0] == "subslices":
        l_ = sym("len(item)")
        return V_opt(V_slice(l_), [l_, a[0][1].sub(l_)], [])
    if name == "is_some_and" and a and a[0][0] == "opt":
        return V_bool(a[0][2], [])
    if name in ("iter", "iter_mut", "chars") and is_slice_fn:
        l = _sl(a[0]) if a else None
        if l is None and t["args"] and name != "chars":
            l = container_len(cx, fn, st, t["args"][0])
        return ("iter", l) if l is not None else UNKNOWN
    if name in ("deref", "deref_mut", "as_ref", "as_mut", "borrow", "borrow_mut", "as_slice", "as_mut_slice", "as_str", "clone", "into_iter", "by_ref", "peekable", "to_vec", "to_owned", "into", "from"):
        if a and a[0] == UNKNOWN and name in ("deref", "deref_mut", "as_slice", "as_mut_slice", "as_ref", "as_str") and t["args"]:
            l = container_len(cx, fn, st, t["args"][0])
            if l is not None:
                return V_slice(l)
        return a[0] if a else UNKNOWN
    if name == "enumerate" and a and a[0][0] == "iter":
        return ("eiter", a[0][1])
    if name == "next" and a and a[0][0] == "eiter":
        i_ = sym("enum_i")
        return V_opt(V_tuple([V_int(i_), UNKNOWN]), [i_, a[0][1].sub(i_).plus(-1)], [])
    if name == "next" and a and a[0][0] == "iter":
        return V_opt(UNKNOWN, [a[0][1].plus(-1)], [])
    if name in ("enumerate", "rev", "copied", "cloned", "skip_while") and mod.startswith("core::iter::"):
        return a[0] if a else UNKNOWN
    if name == "split_off" and len(a) > 1 and a[0][0] == "slice" and a[1][0] == "int":
        l, at = a[0][1], a[1][1]
        _oblige(cx, fn, bb, t, st, reports, "O4-split_off", [at, l.sub(at)], "split_off(%s) of a vector of length %s" % (cx.show(at), cx.show(l)))
        st.add(l.sub(at))
        _set_len(cx, fn, st, t["args"][0], at)
        return V_slice(l.sub(at))
    if name == "drain" and len(a) > 1 and a[0][0] == "slice" and a[1][0] == "range":
        # Vec::drain(lo..hi) panics unless lo <= hi <= len; afterwards the vector is shorter by hi - lo
        l = a[0][1]
        lo = a[1][1] if a[1][1] is not None else Lin.konst(0)
        hi = a[1][2] if a[1][2] is not None else l
        _oblige(cx, fn, bb, t, st, reports, "O4-drain", [hi.sub(lo), l.sub(hi)], "drain(%s .. %s) of a vector of length %s" % (cx.show(lo), cx.show(hi), cx.show(l)))
        st.add(hi.sub(lo)); st.add(l.sub(hi))
        _set_len(cx, fn, st, t["args"][0], l.sub(hi.sub(lo)))
        return UNKNOWN
    if name == "truncate" and len(a) > 1 and a[0][0] == "slice" and a[1][0] == "int":
        _set_len(cx, fn, st, t["args"][0], a[1][1])
        return UNKNOWN
    if name == "position" and a and a[0][0] == "iter":
        l = a[0][1]
        p_ = sym("pos")
        return V_opt(V_int(p_), [p_, l.sub(p_).plus(-1)], [])
    if name == "count" and a and a[0][0] == "iter":
        l = a[0][1]
        c_ = sym("count")
        st.add(c_)
        st.add(l.sub(c_))
        return V_int(c_)
    if name in ("take_while", "filter", "map", "skip", "take", "skip_while", "inspect", "step_by") and a and a[0][0] == "iter":
        # an iterator yielding at most as many items as the underlying one: every model of ("iter", l)
        # only uses l as an upper bound on the number of items
        return a[0]
    if name in ("find_map", "with_borrow_mut", "with_borrow", "map_or", "is_some_and", "is_none_or", "and_then", "unwrap_or_else") and len(a) > 1 and a[1][0] == "closure":
        c = cx.p.fns.get(a[1][1])
        if c is not None and cx.depth < 4:
            cx.depth += 1
            sub = analyze(cx, c, [a[1], UNKNOWN] + [UNKNOWN] * 3, list(st.facts))
            cx.depth -= 1
            reports.extend(sub.reports)
            return summarize(cx, fn, bb, sub, st)
        return UNKNOWN
    if name in ("unwrap_or", "unwrap_or_default") and a and a[0][0] == "opt":
        dv = a[1] if name == "unwrap_or" and len(a) > 1 else V_int(Lin.konst(0))
        pl = a[0][1]
        if pl[0] == "int" and dv[0] == "int":
            r = sym("unwrap")
            fs = list(st.facts) + list(a[0][2])
            tp, td, tr = cx.templates(pl[1]), cx.templates(dv[1]), cx.templates(r)
            for i in range(len(tr)):
                if entails(fs, tp[i]) and entails(st.facts, td[i]):
                    st.add(tr[i])
            return V_int(r)
        return UNKNOWN
    if name in ("unwrap", "expect") and a and a[0][0] == "opt":
        for c in a[0][2]:
            st.add(c)
        return a[0][1]
    if name in ("max", "min") and len(a) > 1 and a[0][0] == "int" and a[1][0] == "int":
        r = sym(name)
        x, y = a[0][1], a[1][1]
        tx, ty, tr = cx.templates(x), cx.templates(y), cx.templates(r)
        for i in range(len(tr)):
            if entails(st.facts, tx[i]) and entails(st.facts, ty[i]):
                st.add(tr[i])
        if name == "max":
            st.add(r.sub(x)); st.add(r.sub(y))
        else:
            st.add(x.sub(r)); st.add(y.sub(r))
        return V_int(r)
    if name == "is_some" and a and a[0][0] == "opt":
        return V_bool(a[0][2], a[0][3])
    if name == "is_none" and a and a[0][0] == "opt":
        return V_bool(a[0][3], a[0][2])
    if name == "branch" and d.endswith("Try::branch") and a and a[0][0] == "opt":
        return V_cf(a[0][1], a[0][2], a[0][3])
    if name == "from_residual":
        return V_opt(UNKNOWN, [FALSE], [])
    if name in ("index", "index_mut") and len(a) > 1:
        l = _sl(a[0])
        if l is not None and a[1][0] == "range":
            lo = a[1][1] if a[1][1] is not None else Lin.konst(0)
            hi = a[1][2] if a[1][2] is not None else l
            ob1, ob2 = hi.sub(lo), l.sub(hi)
            _oblige(cx, fn, bb, t, st, reports, "O4-slice", [ob1, ob2], "slice cut [%s .. %s] of a slice of length %s" % (cx.show(lo), cx.show(hi), cx.show(l)))
            st.add(ob1); st.add(ob2)
            return V_slice(hi.sub(lo))
        if l is not None and a[1][0] == "int":
            i = a[1][1]
            _oblige(cx, fn, bb, t, st, reports, "O4-index", [i, l.sub(i).plus(-1)], "index %s into a slice of length %s" % (cx.show(i), cx.show(l)))
            st.add(l.sub(i).plus(-1))
            return UNKNOWN
        return UNKNOWN
    if name == "get_content" and "span" in mod and len(a) > 1:
        # Span::get_content(&self, source): panics unless start <= end <= len
        sp = a[0]
        l = _sl(a[1])
        s_, e_ = struct_get(sp, "start"), struct_get(sp, "end")
        if l is not None and s_[0] == "int" and e_[0] == "int":
            _oblige(cx, fn, bb, t, st, reports, "O4-slice", [e_[1].sub(s_[1]), l.sub(e_[1])], "Span::get_content [%s .. %s] of a source of length %s" % (cx.show(s_[1]), cx.show(e_[1]), cx.show(l)))
            return V_slice(e_[1].sub(s_[1]))
        return UNKNOWN
    # workspace helper that receives a tracked slice/int: analyse on demand
    callee = cx.p.fns.get(f.get("inst") or "")
    if callee is not None and cx.depth < 3 and any(v[0] in ("slice", "int", "struct") for v in a):
        key = (callee.name, tuple(_vkey(v) if v[0] in ("slice", "int") else v[0] for v in a))
        cx.depth += 1
        marker = cx.n
        sub = analyze(cx, callee, a, list(st.facts))
        sub.marker = marker
        sub.ret_ty = callee.local_tystr(0)
        cx.depth -= 1
        reports.extend(sub.reports)
        return summarize(cx, fn, bb, sub, st)
    return UNKNOWN


def ref_bases(cx, fn):
    """temp -> base local for `tmp = &base`, `&mut base`, `&*tmp2`, plain moves of such temps"""
    m = cx.summaries.get(("refbase", fn.name))
    if m is not None:
        return m
    m = {}
    changed = True
    rounds = 0
    while changed and rounds < 64:      # (re-borrow cycles through a loop-carried slice would otherwise never settle)
        changed = False
        rounds += 1
        for b in fn.blocks:
            if b["cleanup"]:
                continue
            for s in b["s"]:
                if s["k"] != "assign" or len(s["lhs"]) != 1:
                    continue
                rv = s["rv"]
                tgt = None
                if rv["k"] == "ref":
                    pl = rv["place"]
                    if len(pl) == 1:
                        tgt = m.get(pl[0], pl[0]) if pl[0] in m else pl[0]
                    elif all(e == "*" for e in pl[1:]):
                        tgt = m.get(pl[0], pl[0])
                elif rv["k"] == "use":
                    pl = place_of(rv["op"])
                    if pl and len(pl) == 1 and pl[0] in m:
                        tgt = m[pl[0]]
                if tgt is not None and tgt != s["lhs"][0] and m.get(s["lhs"][0]) != tgt and (s["lhs"][0] not in m or rounds < 8):
                    m[s["lhs"][0]] = tgt
                    changed = True
    cx.summaries[("refbase", fn.name)] = m
    return m


NON_RESIZING = {"deref", "deref_mut", "as_mut_slice", "as_slice", "index", "index_mut", "iter", "iter_mut", "sort", "sort_by", "sort_by_key", "sort_unstable", "swap", "reverse",
                "len", "is_empty", "as_str", "as_mut_str", "as_ref", "as_mut", "chars", "first", "last", "get", "get_mut", "parse", "fmt", "eq", "ne", "hash", "clone", "to_string",
                "make_ascii_lowercase", "make_ascii_uppercase", "borrow", "borrow_mut", "contains", "starts_with", "ends_with", "find", "rev"}


def _set_len(cx, fn, st, operand, new_len):
    """a modelled resizing call: every alias of the container now has the new length"""
    pl = place_of(operand)
    if not pl:
        return
    rb = ref_bases(cx, fn)
    base = rb.get(pl[0], pl[0])
    for l in [base] + [k for k, v in rb.items() if v == base]:
        if st.vals.get(l, UNKNOWN)[0] == "slice" or l == base:
            st.vals[l] = V_slice(new_len)


def container_len(cx, fn, st, operand):
    """length symbol of an owned container local (String / Vec / SmallVec) that is only known through
    references; the symbol is forgotten when the container is handed out mutably to a resizing call"""
    pl = place_of(operand)
    if not pl or len(pl) != 1:
        return None
    base = ref_bases(cx, fn).get(pl[0])
    if base is None:
        # a shared borrow of a field path (`&self.field`, `&(*self as Variant).0`): immutable for the
        # duration of the call, so one symbol per path
        for b in fn.blocks:
            for s in b["s"]:
                if s["k"] == "assign" and s["lhs"] == [pl[0]] and s["rv"]["k"] == "ref" and not s["rv"]["mut"] and len(s["rv"]["place"]) > 1:
                    root = s["rv"]["place"][0]
                    rt = fn.local_ty(root)
                    if rt["k"] == "ref" and not rt["mut"]:
                        key = (fn.name, "clen", str(s["rv"]["place"]))
                        s_ = cx.callsym.get(key)
                        if s_ is None:
                            path = ".".join(str(e[2] if isinstance(e, list) and e[0] in ("f", "dc") else "") for e in s["rv"]["place"][1:] if e != "*")
                            s_ = cx.fresh("len(%s%s)" % (fn.debug_names().get(root, "_%d" % root), path))
                            cx.callsym[key] = s_
                        l = Lin.sym(s_)
                        st.add(l)
                        return l
        return None
    ts = fn.local_tystr(base)
    if not any(x in ts for x in ("String", "Vec<", "SmallVec<")) or ts.startswith("&mut"):
        return None
    key = (fn.name, "clen", base)
    s_ = cx.callsym.get(key)
    if s_ is None:
        s_ = cx.fresh("clen_%s" % fn.debug_names().get(base, "_%d" % base))
        cx.callsym[key] = s_
    l = Lin.sym(s_)
    st.add(l)
    return l


def invalidate_containers(cx, fn, st, t, name):
    if name in NON_RESIZING:
        return
    rb = ref_bases(cx, fn)
    for a in t["args"]:
        pl = place_of(a)
        if pl and len(pl) == 1 and pl[0] in rb:
            key = (fn.name, "clen", rb[pl[0]])
            if key in cx.callsym and fn.local_ty(pl[0])["k"] == "ref" and fn.local_ty(pl[0])["mut"]:
                havoc(st, cx.callsym[key])


def _oblige(cx, fn, bb, t, st, reports, kind, goals, what):
    ok = all(entails(st.facts, g) for g in goals)
    model = None
    if not ok:
        for g in goals:
            if not entails(st.facts, g):
                model = counter_model(st.facts, g)
                break
    reports.append({"kind": kind, "fn": fn.name, "bb": bb, "ln": t.get("ln"), "ok": ok, "what": what,
                    "facts": [cx.show(f) for f in st.facts][:12], "model": cx.show_model(model) if model else None,
                    "opaque": any(cx.relevant_opaque(st.facts, g) for g in goals)})


def _has_opaque(cx, goals):
    """does a goal mention a symbol whose range is not fully known (phi / unwrap / call results)?"""
    return any(cx.any_opaque(g) for g in goals)


def summarize(cx, fn, bb, sub, st):
    """fold a callee's return sites into one value for the caller, using templates"""
    if not sub.rets:
        return UNKNOWN
    unsigned_ret = any(u in (getattr(sub, "ret_ty", "") or "") for u in ("usize", "u8", "u16", "u32", "u64"))
    kinds = {v[0] for _, v in sub.rets}
    marker = getattr(sub, "marker", None)
    if kinds == {"int"} and marker is not None:
        lins = {v[1].key() for _, v in sub.rets}
        v0 = sub.rets[0][1][1]
        if len(lins) == 1 and all(sy <= marker for sy in v0.syms()):
            return V_int(v0)         # the callee returns one affine form over the caller's symbols: exact
    r = call_sym(cx, fn, bb, "ret")
    if kinds == {"int"}:
        tr = cx.templates(r)
        for i in range(len(tr)):
            if all(entails(s.facts, cx.templates(v[1])[i]) for s, v in sub.rets):
                st.add(tr[i])
        if unsigned_ret:
            st.add(r)
        return V_int(r)
    if kinds == {"opt"} or kinds == {"opt", "unknown"} and False:
        def some_sites():
            for s, v in sub.rets:
                f = list(s.facts) + list(v[2])
                if satisfiable(f):
                    yield s, v, f
        sites = list(some_sites())
        some = []
        for l in cx.lens:
            c = l.plus(-1)
            if sites and all(entails(f, c) for _, _, f in sites):
                some.append(c)
        payload = UNKNOWN
        if sites and all(v[1][0] == "int" for _, v, _ in sites):
            tr = cx.templates(r)
            for i in range(len(tr)):
                if all(entails(f, cx.templates(v[1][1])[i]) for _, v, f in sites):
                    some.append(tr[i])
            if unsigned_ret and r not in some:
                some.append(r)
            payload = V_int(r)
        elif sites and all(v[1][0] == "struct" for _, v, _ in sites):
            # e.g. Option<FoundToken{next_index}>
            names = [k for k, _ in sites[0][1][1][2]]
            fields = {}
            for nme in names:
                vs = [struct_get(v[1], nme) for _, v, _ in sites]
                if all(x[0] == "int" for x in vs):
                    rs = call_sym(cx, fn, bb, "ret." + nme)
                    tr = cx.templates(rs)
                    for i in range(len(tr)):
                        if all(entails(f, cx.templates(x[1])[i]) for (_, _, f), x in zip(sites, vs)):
                            some.append(tr[i])
                    # lower bound >= 1
                    if all(entails(f, x[1].plus(-1)) for (_, _, f), x in zip(sites, vs)):
                        some.append(rs.plus(-1))
                    fields[nme] = V_int(rs)
            payload = V_struct(sites[0][1][1][1], fields) if fields else UNKNOWN
        none_always = not sites
        return V_opt(payload, some if not none_always else [FALSE], [])
    if kinds == {"bool"}:
        t_ = [c for c in sub.rets[0][1][1] if all(c in v[1] for _, v in sub.rets)]
        f_ = [c for c in sub.rets[0][1][2] if all(c in v[2] for _, v in sub.rets)]
        return V_bool(t_, f_)
    return UNKNOWN
