"""Virtual inlining of helpers that did not exist on the reference tree.

The rules name functions of the workspace (Document::condense_indices, Backend::update_document,
run_on_chunk ...).  `known_fns.txt` freezes the names that exist on the tree the rules were confirmed
against.  A same-crate, non-async function whose name is NOT in that list is a helper somebody
extracted later: its body is spliced into its callers before any rule looks at them, so that
"extract a private helper" leaves every rule's view of the caller unchanged.  On the reference tree
nothing is new, so this is the identity there."""
import copy
import os
import re

HERE = os.path.dirname(os.path.abspath(__file__))
KNOWN = os.path.join(HERE, "known_fns.txt")
PLACE_KEYS = ("c", "m", "place", "lhs", "dest")
MAX_BLOCKS = 120
MAX_DEPTH = 3


def _norm(n):
    return re.sub(r"#\d+", "", n)


def load_known():
    try:
        with open(KNOWN) as fh:
            return {l.strip() for l in fh if l.strip()}
    except OSError:
        return None


def _shift_place(pl, off):
    out = [pl[0] + off]
    for e in pl[1:]:
        if isinstance(e, list) and e and e[0] == "i" and isinstance(e[1], int):
            out.append(["i", e[1] + off] + list(e[2:]))
        else:
            out.append(e)
    return out


def _shift(o, off, boff):
    """renumber locals (off) and block targets (boff) in a statement / terminator"""
    if isinstance(o, dict):
        r = {}
        for k, v in o.items():
            if k in PLACE_KEYS and isinstance(v, list) and v and isinstance(v[0], int):
                r[k] = _shift_place(v, off)
            elif k == "l" and isinstance(v, int) and o.get("k") in ("dead", "live"):
                r[k] = v + off
            elif k in ("target", "otherwise", "resume", "cleanup_bb") and isinstance(v, int):
                r[k] = v + boff
            elif k == "targets" and isinstance(v, list):
                r[k] = [[x[0], x[1] + boff] for x in v]
            else:
                r[k] = _shift(v, off, boff)
        return r
    if isinstance(o, list):
        return [_shift(x, off, boff) for x in o]
    return o


def _inline_once(prog, fd, is_helper):
    """inline every call in fd (a function dict) to a helper; returns True if something changed"""
    changed = False
    nblocks0 = len(fd["blocks"])
    for bi in range(nblocks0):
        b = fd["blocks"][bi]
        t = b["t"]
        if t["k"] != "call" or t.get("target") is None or b.get("cleanup"):
            continue
        inst = t["f"].get("inst")
        g = prog.fns.get(inst) if inst else None
        if g is None or not is_helper(g) or g.name == fd["name"]:
            continue
        gd = g.d
        if len(gd["blocks"]) > MAX_BLOCKS or gd.get("coroutine") or len(t["args"]) != gd["argc"] or not t.get("dest"):
            continue
        off = len(fd["locals"])
        boff = len(fd["blocks"])
        fd["locals"] = fd["locals"] + copy.deepcopy(gd["locals"])
        for name, pl in gd.get("debug", []):
            if isinstance(pl, list) and pl and isinstance(pl[0], int):
                fd["debug"] = fd["debug"] + [[name, _shift_place(pl, off)]]
        cont = t["target"]
        dest = t["dest"]
        for gb in gd["blocks"]:
            nb = {"s": [_shift(s, off, boff) for s in gb["s"]], "cleanup": gb.get("cleanup", False)}
            gt = gb["t"]
            if gt["k"] == "return":
                nb["s"].append({"k": "assign", "lhs": list(dest), "rv": {"k": "use", "op": {"m": [off]}}, "ln": t.get("ln", 0), "cl": t.get("cl", t.get("ln", 0)), "exp": False})
                nb["t"] = {"k": "goto", "target": cont}
            else:
                nb["t"] = _shift(gt, off, boff)
            fd["blocks"].append(nb)
        # jump threading: a helper that returns a constant boolean on a path, into a caller that branches on the result
        # right away - keep the path and the branch together, or path rules see infeasible combinations
        cb = fd["blocks"][cont]
        ct = cb["t"]
        dpl = list(dest)
        if not cb["s"] and ct["k"] == "switch" and isinstance(ct.get("discr"), dict) and (ct["discr"].get("m") == dpl or ct["discr"].get("c") == dpl):
            def target_for(val):
                for v, x in ct["targets"]:
                    if int(v) == val:
                        return x
                return ct.get("otherwise")
            ret_blocks = {boff + i for i, gb in enumerate(gd["blocks"]) if gb["t"]["k"] == "return" and all(x.get("k") == "dead" for x in gb["s"])}
            # blocks that only end storage and fall through to the return count as the return
            grew = True
            while grew:
                grew = False
                for i, gb in enumerate(gd["blocks"]):
                    if boff + i not in ret_blocks and gb["t"]["k"] == "goto" and gb["t"]["target"] + boff in ret_blocks and all(x.get("k") == "dead" for x in gb["s"]):
                        ret_blocks.add(boff + i)
                        grew = True
            for i in range(len(gd["blocks"])):
                nb = fd["blocks"][boff + i]
                if boff + i in ret_blocks:
                    continue
                if nb["t"]["k"] == "goto" and nb["t"]["target"] in ret_blocks and nb["s"]:
                    real = [x for x in nb["s"] if x.get("k") != "dead"]
                    lastst = real[-1] if real else {}
                    k = (lastst.get("rv") or {}).get("op", {}).get("k") if lastst.get("k") == "assign" and lastst.get("lhs") == [off] and lastst["rv"]["k"] == "use" else None
                    if k and str(k.get("txt")) in ("true", "false"):
                        val = 1 if k["txt"] == "true" else 0
                        tgt = target_for(val)
                        if tgt is not None:
                            nb["s"].append({"k": "assign", "lhs": dpl, "rv": {"k": "use", "op": {"k": k}}, "ln": t.get("ln", 0), "cl": t.get("cl", t.get("ln", 0)), "exp": False})
                            nb["t"] = {"k": "goto", "target": tgt}
        # bind the parameters, jump into the helper
        for i, a in enumerate(t["args"]):
            b["s"].append({"k": "assign", "lhs": [off + 1 + i], "rv": {"k": "use", "op": a}, "ln": t.get("ln", 0), "cl": t.get("cl", t.get("ln", 0)), "exp": False})
        b["t"] = {"k": "goto", "target": boff}
        fd.setdefault("inlined", []).append(g.name)
        changed = True
    return changed


def apply(prog):
    """splice new helpers into their callers, in place, for the whole program"""
    known = load_known()
    if known is None:
        return []
    from .facts import Fn, MEMBER_CRATES
    members = {c.replace("-", "_") for c in MEMBER_CRATES}

    def crate_of(name):
        return name.split("::", 1)[0]

    # a new name in a scope from which a reference name has disappeared is more likely that function renamed than a
    # helper extracted: leave it alone (rules that name the old function resolve it by its role)
    present = {_norm(n) for n in prog.fns}
    gone_scopes = {k.rsplit("::", 1)[0] for k in known if k not in present and "::{closure" not in k and "::promoted[" not in k and crate_of(k) in members}

    def is_async_wrapper(g):
        c = prog.fns.get(g.name + "::{closure#0}")
        return c is not None and bool(c.d.get("coroutine"))

    def is_helper(g):
        # (the outer function of an `async fn` only builds the future: rules look through those themselves)
        return (crate_of(g.name) in members and _norm(g.name) not in known and g.d.get("kind") in ("Fn", "AssocFn")
                and not g.d.get("coroutine") and "::{closure" not in g.name and "::promoted[" not in g.name and not is_async_wrapper(g)
                and _norm(g.name).rsplit("::", 1)[0] not in gone_scopes)
    helpers = [g for g in prog.fns.values() if is_helper(g)]
    prog.new_helpers = {}
    if not helpers:
        return []
    names = {g.name for g in helpers}
    done = []
    for name, f in list(prog.fns.items()):
        if crate_of(name) not in members or "::promoted[" in name:
            continue
        if not any(b["t"]["k"] == "call" and b["t"]["f"].get("inst") in names for b in f.d["blocks"]):
            continue
        fd = copy.deepcopy(f.d)
        n = 0
        while n < MAX_DEPTH and _inline_once(prog, fd, is_helper):
            n += 1
        if fd.get("inlined"):
            prog.fns[name] = Fn(fd, f.crate, f.tys)
            done.append((name, fd["inlined"]))
    # a helper that is no longer called directly anywhere lives on only inside its callers
    still = {b["t"]["f"].get("inst") for f in prog.fns.values() for b in f.d["blocks"] if b["t"]["k"] == "call"}
    prog.new_helpers = {}
    for g in helpers:
        if g.name not in still and any(g.name in inl for _, inl in done):
            prog.new_helpers[g.name] = prog.fns.pop(g.name)
    return done
