"""A6: whole-program call graph over every unit of the dependency closure (class-hierarchy
resolution of trait-dispatched calls), reachability with witness paths."""
import collections
import glob
import os


class CallGraph:
    def __init__(self, snap):
        self.funcs = {}                 # qpath -> pretty (functions with MIR in some unit)
        self.unit_of = {}               # qpath -> crate
        self.ext_names = {}             # qpath -> pretty for external callees (std, libc, ...)
        self.extern_fns = {}            # foreign items declared (no MIR): qpath -> pretty
        self.calls = collections.defaultdict(set)      # caller -> resolved callees
        self.reify = collections.defaultdict(set)      # caller -> fn items taken as values
        self.constructs = collections.defaultdict(set)  # caller -> closures/coroutines built
        self.tcalls = collections.defaultdict(set)     # caller -> (trait method, receiver head)
        self.impls = collections.defaultdict(list)     # trait method -> [(self head, impl fn)]
        self.ptr_calls = collections.Counter()         # caller -> number of fn-pointer calls
        self.asm = set()
        self.open_opts = {}                            # fn calling OpenOptions::open -> builder methods called there
        self.units = []
        self.statics = set()
        self.n_edges = 0
        for f in sorted(glob.glob(os.path.join(snap, "*.edges.tsv"))):
            crate = None
            with open(f) as fh:
                for line in fh:
                    p = line.rstrip("\n").split("\t")
                    k = p[0]
                    if k == "C":
                        self.calls[p[1]].add(p[2]); self.n_edges += 1
                    elif k == "T":
                        self.tcalls[p[1]].add((p[2], p[3]))
                    elif k == "F":
                        self.funcs[p[1]] = p[2] if len(p) > 2 else p[1]
                        self.unit_of[p[1]] = crate
                    elif k == "K":
                        self.constructs[p[1]].add(p[2])
                    elif k == "R":
                        self.reify[p[1]].add(p[2])
                    elif k == "I":
                        self.impls[p[1]].append((p[2], p[3]))
                    elif k == "N":
                        self.ext_names[p[1]] = p[2]
                    elif k == "E":
                        self.extern_fns[p[1]] = p[2] if len(p) > 2 else p[1]
                    elif k == "P":
                        self.ptr_calls[p[1]] += 1
                    elif k == "X":
                        self.asm.add(p[1])
                    elif k == "O":
                        self.open_opts[p[1]] = [m for m in p[2].split(",") if m]
                    elif k == "S":
                        self.statics.add(p[1])
                    elif k == "M":
                        crate = p[1]
                        self.units.append({"crate": p[1], "meta": p[2], "role": p[3], "type": p[4]})

    def pretty(self, q):
        return self.funcs.get(q) or self.ext_names.get(q) or self.extern_fns.get(q) or q

    def resolve(self, m, recv):
        """class-hierarchy resolution of a trait-dispatched call: every impl of the method in the
        closure when the receiver is generic/dyn; the exact impl(s) when the head type is known."""
        cands = self.impls.get(m, [])
        if recv and not recv.startswith("<"):
            exact = [fn for (h, fn) in cands if h == recv]
            if exact:
                return exact
            return [fn for (h, fn) in cands if h.startswith("<")] + [m]
        return [fn for (h, fn) in cands] + [m]

    def succs(self, n):
        out = set(self.calls.get(n, ()))
        out |= self.constructs.get(n, set())
        out |= self.reify.get(n, set())
        for (m, recv) in self.tcalls.get(n, ()):
            out.update(self.resolve(m, recv))
        return out

    def reach(self, roots, blocked=()):
        """returns parent map (node -> predecessor) of everything reachable from roots without
        entering `blocked` nodes."""
        blocked = set(blocked)
        parent = {}
        work = collections.deque()
        for r in roots:
            if r not in parent and r not in blocked:
                parent[r] = None
                work.append(r)
        while work:
            n = work.popleft()
            for s in self.succs(n):
                if s in parent or s in blocked:
                    continue
                parent[s] = n
                work.append(s)
        return parent

    @staticmethod
    def path(parent, n):
        p = []
        while n is not None:
            p.append(n)
            n = parent[n]
        return list(reversed(p))
