"""Rule building blocks shared by several properties."""
import re

from .cfg import Cfg, bool_edges
from .prov import Prov, flatten, field_names
from .util import norm, calls, keyname, last, place_of


def inst_of(t):
    return norm(t["f"].get("inst") or "")


def def_of(t):
    return norm(t["f"].get("def") or "")


def target_of(t):
    return inst_of(t) or def_of(t)


def method(t):
    return last(target_of(t))


def calls_matching(fn, pred):
    return [(bi, t) for bi, t in fn.calls() if pred(t)]


def calls_to(fn, *suffixes):
    """calls whose resolved instance or definition path ends with one of the suffixes"""
    out = []
    for bi, t in fn.calls():
        n1, n2 = inst_of(t), def_of(t)
        if any(n1.endswith(s) or n2.endswith(s) for s in suffixes):
            out.append((bi, t))
    return out


def place_field_names(op):
    pl = place_of(op) or []
    return [e[2] for e in pl[1:] if isinstance(e, list) and e[0] == "f"]


def arg_fields(pv, op):
    """field names mentioned in the operand's place and in its provenance"""
    return set(place_field_names(op)) | field_names(pv.trace_operand(op))


def arg_roots(fn, pv, op, depth=0, seen=None, through_calls=True):
    """leaf origins of the operand, looking through the arguments of the calls it results from"""
    seen = set() if seen is None else seen
    out = set()
    for o in flatten(pv.trace_operand(op)):
        if o in seen:
            continue
        seen.add(o)
        if o[0] == "call" and through_calls and depth < 10:
            out.add(o)
            t = fn.blocks[o[1]]["t"]
            for a in t["args"]:
                out |= arg_roots(fn, pv, a, depth + 1, seen)
        else:
            out.add(o)
    return out


def call_origins(fn, pv, op, through_calls=False):
    return {o for o in (arg_roots(fn, pv, op) if through_calls else flatten(pv.trace_operand(op))) if o[0] == "call"}


def gate_for(fn, cfg, site_bb, gate_pred, want=True):
    """gates (call bb, term) matching gate_pred whose `want` edge block dominates site_bb and is
    entered only from the branch."""
    out = []
    for bi, t in fn.calls():
        if not gate_pred(t):
            continue
        e = bool_edges(fn, bi)
        if not e:
            continue
        blk = e[0] if want else e[1]
        if not cfg.dominates(blk, site_bb):
            continue
        if len(cfg.pred[blk]) != 1:
            continue
        out.append((bi, t))
    return out


def stmt_assigns_field(s, fieldname):
    """is the statement an assignment whose target place ends in the named field?"""
    if s["k"] != "assign":
        return False
    lhs = s["lhs"]
    return len(lhs) > 1 and isinstance(lhs[-1], list) and lhs[-1][0] == "f" and lhs[-1][2] == fieldname


def blocks_assigning_field(fn, fieldname):
    out = []
    for bi, b in enumerate(fn.blocks):
        if b["cleanup"]:
            continue
        for si, s in enumerate(b["s"]):
            if stmt_assigns_field(s, fieldname):
                out.append((bi, si, s))
    return out


def order_on_all_paths(fn, cfg, seq_blocks, what):
    """seq_blocks: list of lists of blocks [[A...],[B...],...]; checks that every path from entry to
    return passes A then B then ... (each stage: some block of the list), i.e. from a stage-i block
    every path to a return enters a stage-(i+1) block.  Returns (ok, detail)."""
    for i in range(len(seq_blocks) - 1):
        for a in seq_blocks[i]:
            ok, wit = cfg.every_path_passes(a, seq_blocks[i + 1])
            if not ok:
                return False, "from bb%d (%s) a return is reachable without passing %s: path %s" % (a, what[i], what[i + 1], wit)
    return True, "ok"


def str_guards(fn):
    """[(literal, call bb, true block, false block)] for every `x == "literal"` string test"""
    from .util import const_str
    out = []
    for bi, t in fn.calls():
        if not def_of(t).endswith("cmp::PartialEq::eq"):
            continue
        lit = None
        for a in t["args"]:
            s = const_str(a)
            if s is not None:
                lit = s
        if lit is None:
            continue
        e = bool_edges(fn, bi)
        if e:
            out.append((lit, bi, e[0], e[1]))
    return out


def arm_blocks(cfg, true_block):
    """blocks dominated by the true edge of a guard"""
    return {b for b in cfg.reach0 if cfg.dominates(true_block, b)}


def awaited(fn, create_bb):
    """the Future::poll call sites that poll the future created by the call in block create_bb"""
    t = fn.blocks[create_bb]["t"]
    inst = inst_of(t)
    out = []
    for bi, pt in fn.calls():
        if def_of(pt).endswith("future::Future::poll") and inst_of(pt) == inst + "::{closure#0}":
            out.append(bi)
    return out


def skip_switches(f, cfg, body, head, site_bb):
    """switch terminators inside the loop `body` (head excluded) from which the site is still reachable in this
    iteration and which have a successor, inside the loop, from which it is not: the branches that can route an
    iteration around the site.  Returns [(block, terminator)]."""
    out = []
    for b2 in sorted(body):
        t2 = f.blocks[b2]["t"]
        if t2["k"] != "switch" or b2 == head or not cfg.reaches(b2, [site_bb], avoid=[head]):
            continue
        succs = [x for _, x in t2["targets"]] + ([t2["otherwise"]] if t2.get("otherwise") is not None else [])
        if any(x in body and x != site_bb and not cfg.reaches(x, [site_bb], avoid=[head]) for x in succs):
            out.append((b2, t2))
    return out


def new_async_helper(prog, t, crate_prefix="harper_ls::"):
    """the coroutine body of the async helper a call creates, if that helper did not exist on the reference tree"""
    from . import inline
    from .util import norm
    known = inline.load_known() or set()
    inst = t["f"].get("inst") or ""
    body = prog.fns.get(inst + "::{closure#0}")
    if body is None or not body.get("coroutine") or norm(inst) in known or not inst.startswith(crate_prefix):
        return None
    return body


def helper_stage_calls(prog, body, suffixes):
    """awaited calls inside an async helper body to Backend methods with one of the given name suffixes, in dominance order:
    [(suffix, block, term)]"""
    from .cfg import Cfg
    out = []
    for bi, t in body.calls():
        i = inst_of(t)
        for sfx in suffixes:
            if i.endswith("::" + sfx) and awaited(body, bi):
                out.append((sfx, bi, t))
    cfg = Cfg(body)
    out.sort(key=lambda x: sum(1 for y in out if cfg.dominates(y[1], x[1])))
    return out


def captured_operand(prog, closure, cpv, op):
    """if `op` inside `closure` is (a projection of) a captured variable: (parent function, the operand the parent put
    into the closure for that capture), else None"""
    from .util import place_of
    pl = place_of(op)
    idxs = set()
    if pl and pl[0] == 1:
        for e in pl[1:]:
            if isinstance(e, list) and e[0] == "f":
                idxs.add(e[1])
                break
    for o in cpv.trace_operand(op):
        x = o
        while isinstance(x, tuple) and x[0] == "field":
            if x[1] == ("arg", 1):
                idxs.add(x[2])
            x = x[1]
        if isinstance(o, tuple) and o[0] == "upvar":
            idxs.add(o[1])
    if len(idxs) != 1:
        return None
    idx = next(iter(idxs))
    parent = prog.fns.get(closure.get("parent") or "")
    if parent is None:
        # a closure of a helper that was spliced into its caller
        for g in prog.fns.values():
            if (closure.get("parent") or "") in g.d.get("inlined", []):
                parent = g
                break
    if parent is None:
        return None
    for b in parent.blocks:
        for sx in b["s"]:
            if sx["k"] == "assign" and sx["rv"]["k"] == "agg" and sx["rv"].get("agg") == "closure" and sx["rv"].get("name") == closure.name and idx < len(sx["rv"]["ops"]):
                return parent, sx["rv"]["ops"][idx]
    return None
