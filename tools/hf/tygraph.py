"""A4: the ADT field graph (types reachable from a type through fields and type arguments),
trait-impl lookup (derived vs hand-written), interior-mutability census."""

INTERIOR_MUT = ("core::cell::", "std::sync::mutex::", "std::sync::rwlock::", "core::sync::atomic::", "std::sync::poison::mutex::",
                "std::sync::poison::rwlock::", "std::sync::once", "std::sync::lazy_lock", "core::cell::once", "once_cell::",
                "tokio::sync::", "parking_lot::", "lock_api::", "std::sync::mpsc", "std::sync::mpmc", "core::cell::lazy", "std::sync::poison::once")


class TyGraph:
    def __init__(self, prog):
        self.p = prog
        self.impl_index = {}
        for im in prog.impls:
            self.impl_index.setdefault((im["trait"], im["self_head"]), []).append(im)

    def ty(self, crate, tid):
        return self.p.tys[crate][tid]

    def impls(self, trait, adt_name):
        return self.impl_index.get((trait, adt_name), [])

    def children(self, crate, tid):
        """[(label, crate, tid)] of component types: fields of workspace ADTs (with variant.field labels),
        type arguments, element / pointee types."""
        t = self.ty(crate, tid)
        k = t["k"]
        out = []
        if k == "adt":
            for a in t["args"]:
                out.append(("<arg>", crate, a))
            d = self.p.adts.get(t["name"])
            if d is not None:
                dc = d["crate"]
                for v in d["variants"]:
                    for f in v["fields"]:
                        ft = self.ty(dc, f["ty"])
                        if ft["k"] == "param":
                            continue        # covered by the use-site type arguments
                        lab = "%s.%s" % (v["name"], f["name"]) if d["kind"] == "enum" else f["name"]
                        out.append((lab, dc, f["ty"]))
        elif k in ("ref", "ptr", "slice", "array"):
            out.append(("<elem>", crate, t["in"]))
        elif k == "tuple":
            for i, e in enumerate(t["elems"]):
                out.append((str(i), crate, e))
        elif k == "closure":
            for i, e in enumerate(t.get("upvars", [])):
                out.append(("upvar%d" % i, crate, e))
        return out

    def walk(self, crate, tid, stop=None):
        """yield (path labels, crate, tid, ty) for every type reachable from the root (pre-order,
        each (crate, display string) once).  stop(ty) -> True prunes below a node."""
        seen = set()
        stack = [((), crate, tid)]
        while stack:
            path, c, i = stack.pop()
            t = self.ty(c, i)
            key = (t["s"],)
            if key in seen:
                continue
            seen.add(key)
            yield path, c, i, t
            if stop and stop(t):
                continue
            for lab, c2, i2 in self.children(c, i):
                stack.append((path + (("%s:%s" % (short(t), lab)),), c2, i2))

    def find_type(self, name):
        """(crate, tid) of some use of the ADT `name` without type arguments applied differently"""
        d = self.p.adts.get(name)
        if d is None:
            return None
        c = d["crate"]
        for i, t in enumerate(self.p.tys[c]):
            if t["k"] == "adt" and t["name"] == name:
                return (c, i)
        return None

    def interior_mutable_nodes(self, crate, tid):
        out = []
        for path, c, i, t in self.walk(crate, tid):
            if t["k"] == "adt" and t["name"].startswith(INTERIOR_MUT):
                out.append((path, t["s"]))
        return out


def short(t):
    if t["k"] == "adt":
        return t["name"].rsplit("::", 1)[-1]
    return t["k"]


def fields_read_of_self(fn, self_local=1):
    """names of the fields of *self (parameter 1) that the body reads, following copies of self"""
    aliases = {self_local}
    changed = True
    while changed:
        changed = False
        for b in fn.blocks:
            if b["cleanup"]:
                continue
            for s in b["s"]:
                if s["k"] == "assign" and len(s["lhs"]) == 1 and s["rv"]["k"] in ("use", "ref"):
                    pl = s["rv"].get("place") or (s["rv"]["op"].get("c") or s["rv"]["op"].get("m") if s["rv"]["k"] == "use" else None)
                    if pl and pl[0] in aliases and all(e == "*" for e in pl[1:]) and s["lhs"][0] not in aliases:
                        aliases.add(s["lhs"][0])
                        changed = True
    out = set()

    def scan(pl):
        if pl and pl[0] in aliases:
            for e in pl[1:]:
                if isinstance(e, list) and e[0] == "f":
                    out.add(e[2] if e[2] is not None else str(e[1]))
                    break
    for b in fn.blocks:
        if b["cleanup"]:
            continue
        for s in b["s"]:
            if s["k"] != "assign":
                continue
            rv = s["rv"]
            if "place" in rv:
                scan(rv["place"])
            for k in ("op", "a", "b"):
                o = rv.get(k)
                if isinstance(o, dict):
                    scan(o.get("c") or o.get("m"))
            for o in rv.get("ops", []):
                scan(o.get("c") or o.get("m"))
        t = b["t"]
        if t["k"] == "call":
            for a in t["args"]:
                scan(a.get("c") or a.get("m"))
        elif t["k"] == "switch":
            scan(t["discr"].get("c") or t["discr"].get("m"))
    return out
