"""Fact extraction and loading.

build(tier) runs the rustc_private driver (RUSTC_WRAPPER) over /repo's *current working tree*
with `cargo +nightly check --workspace` and snapshots the per-unit fact files under
/verif/.cache/facts/snap-<content key>.  The content key is recomputed from the working tree on
every invocation, so an edited /repo is always re-analysed; the snapshot only avoids repeating
the identical build for the 19 checks of one tree.
"""
import fcntl
import glob
import hashlib
import json
import os
import re
import shutil
import subprocess
import sys
import time

VERIF = os.path.dirname(os.path.dirname(os.path.dirname(os.path.abspath(__file__))))
REPO = os.environ.get("HF_REPO", "/repo")
CACHE = os.path.join(VERIF, ".cache")
DRIVER_DIR = os.path.join(VERIF, "driver")
DRIVER_BIN = os.path.join(DRIVER_DIR, "target", "debug", "harper-facts")
MEMBERS = ["harper-cli", "harper-core", "harper-ls", "harper-comments", "harper-wasm",
           "harper-tree-sitter", "harper-html", "harper-literate-haskell", "harper-typst",
           "harper-stats"]
MEMBER_CRATES = [m.replace("-", "_") for m in MEMBERS]


class FactsError(Exception):
    pass


def _sh(cmd, **kw):
    return subprocess.run(cmd, shell=True, stdout=subprocess.PIPE, stderr=subprocess.PIPE, text=True, **kw)


def driver_hash():
    h = hashlib.sha256()
    for p in sorted(glob.glob(os.path.join(DRIVER_DIR, "src", "*.rs"))) + [os.path.join(DRIVER_DIR, "Cargo.toml")]:
        h.update(open(p, "rb").read())
    return h.hexdigest()[:12]


def repo_key():
    """content hash of every source-relevant file of the working tree (tracked or not)."""
    r = _sh("git -C %s ls-files -co --exclude-standard -z" % REPO)
    if r.returncode != 0:
        raise FactsError("git ls-files failed: " + r.stderr)
    h = hashlib.sha256()
    n = 0
    for rel in sorted(r.stdout.split("\0")):
        if not rel or rel.startswith("packages/") or rel.startswith("target/"):
            continue
        p = os.path.join(REPO, rel)
        if not os.path.isfile(p):
            h.update(b"DEL " + rel.encode() + b"\0")
            continue
        h.update(rel.encode() + b"\0")
        with open(p, "rb") as f:
            h.update(hashlib.sha256(f.read()).digest())
        n += 1
    h.update(driver_hash().encode())
    return h.hexdigest()[:16], n


def sysroot_lib():
    r = _sh("rustc +nightly --print sysroot", cwd=VERIF)
    return os.path.join(r.stdout.strip(), "lib")


def build_driver():
    if os.path.exists(DRIVER_BIN):
        stamp = os.path.join(DRIVER_DIR, "target", "built-" + driver_hash())
        if os.path.exists(stamp):
            return
    env = dict(os.environ, CARGO_NET_OFFLINE="true")
    r = subprocess.run("cargo build --offline", shell=True, cwd=DRIVER_DIR, env=env, stdout=subprocess.PIPE, stderr=subprocess.STDOUT, text=True)
    if r.returncode != 0:
        raise FactsError("driver build failed:\n" + r.stdout[-4000:])
    for old in glob.glob(os.path.join(DRIVER_DIR, "target", "built-*")):
        os.remove(old)
    open(os.path.join(DRIVER_DIR, "target", "built-" + driver_hash()), "w").close()


SERDE_DIR = os.path.join(VERIF, "serde-attrs")
SERDE_BIN = os.path.join(SERDE_DIR, "target", "release", "serde-attrs")


def build_serde_attrs():
    src = os.path.join(SERDE_DIR, "src", "main.rs")
    if os.path.exists(SERDE_BIN) and os.path.getmtime(SERDE_BIN) >= os.path.getmtime(src):
        return
    env = dict(os.environ, CARGO_NET_OFFLINE="true")
    r = subprocess.run("cargo build --offline --release", shell=True, cwd=SERDE_DIR, env=env, stdout=subprocess.PIPE, stderr=subprocess.STDOUT, text=True)
    if r.returncode != 0:
        raise FactsError("serde-attrs build failed:\n" + r.stdout[-3000:])


def _cargo_env(units_dir, tgt):
    env = dict(os.environ)
    env.update({
        "HF_OUT": units_dir,
        "LD_LIBRARY_PATH": sysroot_lib() + ":" + env.get("LD_LIBRARY_PATH", ""),
        "RUSTFLAGS": "-Zmir-opt-level=0 -Awarnings",
        "RUSTC_WRAPPER": DRIVER_BIN,
        "CARGO_TARGET_DIR": tgt,
        "CARGO_NET_OFFLINE": "true",
        # incremental compilation would load borrowck/optimized MIR of unchanged bodies from its
        # cache, so the driver's mir_promoted hook (pre-transform coroutine MIR) would not run
        "CARGO_INCREMENTAL": "0",
    })
    env.pop("RUSTC_WORKSPACE_WRAPPER", None)
    env.pop("RUSTUP_TOOLCHAIN", None)
    return env


def _run_cargo_check(extra, units_dir, tgt, log):
    cmd = "cargo +nightly check --offline --locked --message-format=json " + extra
    r = subprocess.run(cmd, shell=True, cwd=REPO, env=_cargo_env(units_dir, tgt), stdout=subprocess.PIPE, stderr=subprocess.PIPE, text=True)
    with open(log, "w") as f:
        f.write(r.stderr)
    if r.returncode != 0:
        raise FactsError("cargo check failed (see %s):\n%s" % (log, r.stderr[-3000:]))
    units = []
    for line in r.stdout.splitlines():
        if not line.startswith("{"):
            continue
        try:
            m = json.loads(line)
        except Exception:
            continue
        if m.get("reason") != "compiler-artifact":
            continue
        kinds = m["target"]["kind"]
        if "custom-build" in kinds or "proc-macro" in kinds:
            continue
        cname = m["target"]["name"].replace("-", "_")
        hashes = set()
        for fn in m.get("filenames", []):
            b = os.path.basename(fn)
            if b.endswith(".rmeta"):
                stem = b[:-6]
                if "-" in stem:
                    hashes.add(stem.rsplit("-", 1)[1])
        for hsh in hashes:
            units.append((cname, hsh, m["package_id"], m.get("fresh", False)))
    return units


def build(want_nc=False, verbose=True):
    """returns path of the snapshot dir for the current working tree."""
    os.makedirs(CACHE, exist_ok=True)
    key, nfiles = repo_key()
    snap = os.path.join(CACHE, "facts", "snap-" + key)
    if os.path.exists(os.path.join(snap, "DONE")) and (not want_nc or os.path.exists(os.path.join(snap, "DONE-nc"))):
        try:
            os.utime(snap)
        except OSError:
            pass
        return snap
    lock = open(os.path.join(CACHE, "build.lock"), "w")
    fcntl.flock(lock, fcntl.LOCK_EX)
    try:
        if os.path.exists(os.path.join(snap, "DONE")) and (not want_nc or os.path.exists(os.path.join(snap, "DONE-nc"))):
            return snap
        t0 = time.time()
        build_driver()
        dh = driver_hash()
        tgt = os.path.join(CACHE, "tgt-" + dh)
        units_dir = os.path.join(CACHE, "units-" + dh)
        for old in glob.glob(os.path.join(CACHE, "tgt-*")) + glob.glob(os.path.join(CACHE, "units-*")):
            if old not in (tgt, units_dir):
                shutil.rmtree(old, ignore_errors=True)
        os.makedirs(units_dir, exist_ok=True)
        if not os.path.exists(os.path.join(snap, "DONE")):
            # force the workspace members through the driver again
            for fp in glob.glob(os.path.join(tgt, "debug", ".fingerprint", "harper-*")):
                shutil.rmtree(fp, ignore_errors=True)
            for c in MEMBER_CRATES:
                for f in glob.glob(os.path.join(units_dir, c + "-*")):
                    os.remove(f)
            units = _run_cargo_check("--workspace", units_dir, tgt, os.path.join(CACHE, "cargo-check.log"))
            _snapshot(units, units_dir, snap, "", key)
            r = subprocess.run("cargo +nightly metadata --offline --locked --format-version 1", shell=True, cwd=REPO,
                               env=dict(os.environ, CARGO_NET_OFFLINE="true"), stdout=subprocess.PIPE, stderr=subprocess.PIPE, text=True)
            if r.returncode != 0:
                raise FactsError("cargo metadata failed: " + r.stderr[-2000:])
            with open(os.path.join(snap, "metadata.json"), "w") as f:
                f.write(r.stdout)
            with open(os.path.join(snap, "DONE"), "w") as f:
                f.write("%s files=%d wall=%.1f\n" % (key, nfiles, time.time() - t0))
        if want_nc and not os.path.exists(os.path.join(snap, "DONE-nc")):
            # harper-core alone: the build without the `concurrent` feature (what harper-cli gets)
            for fp in glob.glob(os.path.join(tgt, "debug", ".fingerprint", "harper-core-*")):
                shutil.rmtree(fp, ignore_errors=True)
            units = _run_cargo_check("-p harper-core", units_dir, tgt, os.path.join(CACHE, "cargo-check-nc.log"))
            _snapshot([u for u in units if u[0] == "harper_core"], units_dir, os.path.join(snap, "nc"), "", key)
            open(os.path.join(snap, "DONE-nc"), "w").close()
        # keep the three most recent snapshots
        snaps = sorted(glob.glob(os.path.join(CACHE, "facts", "snap-*")), key=os.path.getmtime)
        for old in snaps[:-3]:
            # a snapshot used within the last hour may belong to a check that is still running
            # (checks of different trees can run side by side)
            if old != snap and time.time() - os.path.getmtime(old) > 3600:
                shutil.rmtree(old, ignore_errors=True)
        if verbose:
            print("[facts] built snapshot %s in %.1fs" % (key, time.time() - t0), file=sys.stderr)
        return snap
    finally:
        fcntl.flock(lock, fcntl.LOCK_UN)
        lock.close()


def _snapshot(units, units_dir, snap, sub, key):
    os.makedirs(snap, exist_ok=True)
    listed = []
    missing = []
    for (cname, hsh, pkg, fresh) in units:
        base = "%s-%s" % (cname, hsh)
        e = os.path.join(units_dir, base + ".edges.tsv")
        if not os.path.exists(e):
            missing.append(base)
            continue
        _link(e, os.path.join(snap, base + ".edges.tsv"))
        m = os.path.join(units_dir, base + ".mir.jsonl")
        if os.path.exists(m):
            _link(m, os.path.join(snap, base + ".mir.jsonl"))
        listed.append({"crate": cname, "hash": hsh, "pkg": pkg, "fresh": fresh})
    if missing:
        raise FactsError("fact files missing for units (driver did not run): %s" % ", ".join(missing[:10]))
    have = {u["crate"] for u in listed if os.path.exists(os.path.join(snap, "%s-%s.mir.jsonl" % (u["crate"], u["hash"])))}
    with open(os.path.join(snap, "units.json"), "w") as f:
        json.dump({"key": key, "units": listed, "mir_crates": sorted(have)}, f)


def _link(a, b):
    if os.path.exists(b):
        os.remove(b)
    shutil.copyfile(a, b)


# ------------------------------------------------------------------------------------------
# loading
# ------------------------------------------------------------------------------------------

class Fn:
    __slots__ = ("d", "crate", "tys", "name", "blocks", "_preds", "_names")

    def __init__(self, d, crate, tys):
        self.d = d
        self.crate = crate
        self.tys = tys
        self.name = d["name"]
        self.blocks = d["blocks"]
        self._preds = None
        self._names = None

    def __getitem__(self, k):
        return self.d[k]

    def get(self, k, default=None):
        return self.d.get(k, default)

    @property
    def pretty(self):
        return self.d["pretty"]

    @property
    def span(self):
        return self.d["span"]

    def local_ty(self, l):
        return self.tys[self.d["locals"][l][0]]

    def local_tystr(self, l):
        return self.local_ty(l)["s"]

    def ty(self, tid):
        return self.tys[tid]

    def debug_names(self):
        """local -> source name (only for plain locals)"""
        if self._names is None:
            self._names = {}
            for name, place in self.d["debug"]:
                if len(place) == 1:
                    self._names.setdefault(place[0], name)
        return self._names

    def local_by_name(self, name):
        return [p for n, p in self.d["debug"] if n == name]

    def succs(self, b):
        return term_succs(self.blocks[b]["t"])

    def preds(self):
        if self._preds is None:
            p = [[] for _ in self.blocks]
            for i, _ in enumerate(self.blocks):
                for s in self.succs(i):
                    p[s].append(i)
            self._preds = p
        return self._preds

    def calls(self):
        """yield (bb, term) for every call terminator (non-cleanup blocks)"""
        for i, b in enumerate(self.blocks):
            if b["cleanup"]:
                continue
            t = b["t"]
            if t["k"] == "call":
                yield i, t

    def file(self):
        return self.d["span"].rsplit(":", 1)[0]

    def loc(self, ln):
        return "%s:%s" % (self.file(), ln)


def term_succs(t):
    k = t["k"]
    if k == "goto":
        return [t["target"]]
    if k == "switch":
        return [x[1] for x in t["targets"]] + [t["otherwise"]]
    if k in ("drop", "assert"):
        return [t["target"]]
    if k == "call":
        return [t["target"]] if t["target"] is not None else []
    if k == "yield":
        return [t["resume"]]
    return []


def callee(t):
    """(def path, resolved instance path or None, pretty) of a call terminator"""
    f = t["f"]
    if "def" in f:
        return f["def"], f["inst"], f["pretty"]
    return None, None, None


def callee_name(t):
    f = t["f"]
    return f.get("def")


_IMPLN = re.compile(r"\{impl#\d+\}")


class FnTable(dict):
    """name -> Fn.  A name written with an impl ordinal (`m::{impl#0}::f`) is also found when another impl block was added
    in front of it in the file and the ordinal moved, as long as `m::{impl}::f` is unique."""
    def _index(self):
        idx = self.__dict__.get("_norm")
        if idx is None or self.__dict__.get("_n") != len(self):
            idx = {}
            for k in self.keys():
                idx.setdefault(_IMPLN.sub("{impl}", k), []).append(k)
            self.__dict__["_norm"] = idx
            self.__dict__["_n"] = len(self)
        return idx

    def get(self, name, default=None):
        if name in self:
            return dict.get(self, name)
        if isinstance(name, str) and "{impl" in name:
            c = self._index().get(_IMPLN.sub("{impl}", name), [])
            if len(c) == 1:
                return dict.get(self, c[0])
        return default


class Program:
    def __init__(self, snap, sub=""):
        self.snap = snap
        d = os.path.join(snap, sub) if sub else snap
        self.fns = FnTable()
        self.adts = {}
        self.ext_adts = {}
        self.impls = []
        self.statics = []
        self.traits = {}
        self.tys = {}
        self.crates = {}
        for f in sorted(glob.glob(os.path.join(d, "*.mir.jsonl"))):
            crate = None
            tys = []
            with open(f) as fh:
                for line in fh:
                    o = json.loads(line)
                    t = o["t"]
                    if t == "crate":
                        crate = o["name"]
                        # a package may have a lib and a bin unit with the same crate name
                        if crate in self.crates:
                            crate = crate + "#" + ("bin" if o["bin"] else "lib")
                        self.crates[crate] = o
                        self.tys[crate] = tys
                    elif t == "ty":
                        assert o["id"] == len(tys)
                        tys.append(o)
                    elif t == "fn":
                        self.fns[o["name"]] = Fn(o, crate, tys)
                    elif t == "adt":
                        o["crate"] = crate
                        self.adts[o["name"]] = o
                    elif t == "adt_ext":
                        self.ext_adts[o["name"]] = o
                    elif t == "impl":
                        o["crate"] = crate
                        self.impls.append(o)
                    elif t == "static":
                        o["crate"] = crate
                        self.statics.append(o)
                    elif t == "trait":
                        self.traits[o["name"]] = o
        self._by_pretty = None

    def fn(self, name):
        f = self.fns.get(name)
        if f is None:
            raise KeyError(name)
        return f

    def find(self, pred):
        return [f for f in self.fns.values() if pred(f)]

    def by_pretty(self, pretty):
        if self._by_pretty is None:
            self._by_pretty = {}
            for f in self.fns.values():
                self._by_pretty.setdefault(f.pretty, []).append(f)
        return self._by_pretty.get(pretty, [])

    def impls_of_method(self, trait_method):
        """all fns implementing the given trait method (qualified path)"""
        return sorted([f for f in self.fns.values() if f.get("trait_item") == trait_method], key=lambda f: f.name)

    def closures_of(self, fname):
        # closures defined in a helper that was spliced into fname count as fname's own
        host = self.fns.get(fname)
        parents = {fname} | set(host.d.get("inlined", []) if host is not None else [])
        return sorted([f for f in self.fns.values() if f.get("parent") in parents], key=lambda f: f.name)

    def tystr(self, crate, tid):
        return self.tys[crate][tid]["s"]

    def metadata(self):
        with open(os.path.join(self.snap, "metadata.json")) as f:
            return json.load(f)

    def serde_attrs(self):
        """{(relative file, type name, line): record} read from the sources with syn (derive-helper
        attributes are absent from HIR).  Cached per snapshot."""
        if getattr(self, "_serde", None) is not None:
            return self._serde
        cache = os.path.join(self.snap, "serde-attrs.jsonl")
        if not os.path.exists(cache):
            build_serde_attrs()
            files = sorted({a["span"].rsplit(":", 1)[0] for a in self.adts.values()})
            paths = [os.path.join(REPO, f) for f in files if os.path.exists(os.path.join(REPO, f))]
            r = subprocess.run([SERDE_BIN] + paths, stdout=subprocess.PIPE, stderr=subprocess.PIPE, text=True)
            if r.returncode != 0:
                raise FactsError("serde-attrs failed: " + r.stderr[-2000:])
            with open(cache + ".tmp", "w") as f:
                for line in r.stdout.splitlines():
                    o = json.loads(line)
                    o["file"] = os.path.relpath(o["file"], REPO)     # snapshots are shared between copies of the tree
                    f.write(json.dumps(o) + "\n")
            os.replace(cache + ".tmp", cache)
        out = {}
        with open(cache) as f:
            for line in f:
                o = json.loads(line)
                out[(o["file"], o["name"], o["line"])] = o
        self._serde = out
        return out

    def serde_of(self, adt):
        """syn record of a compiler ADT record (or None when the type is macro-generated)"""
        f, ln = adt["span"].rsplit(":", 1)
        name = adt["name"].rsplit("::", 1)[-1]
        sa = self.serde_attrs()
        r = sa.get((f, name, int(ln)))
        if r is None:
            c = [v for (ff, nn, _), v in sa.items() if ff == f and nn == name]
            if len(c) == 1:
                r = c[0]
        return r

    def units(self):
        with open(os.path.join(self.snap, "units.json")) as f:
            return json.load(f)


_prog_cache = {}


def load(want_nc=False):
    snap = build(want_nc=want_nc)
    if snap not in _prog_cache:
        p = Program(snap)
        missing = [c for c in MEMBER_CRATES if c not in p.crates]
        if missing:
            raise FactsError("no MIR facts for workspace crates: %s" % missing)
        late = [f.name for f in p.fns.values() if f.get("coroutine") and f["phase"] != "promoted"]
        if late:
            raise FactsError("coroutine bodies without pre-transform MIR (driver hook did not run): %s" % late[:5])
        from . import inline
        p.inlined_helpers = inline.apply(p)
        _prog_cache[snap] = p
    from . import prov
    prov.PROGRAM = _prog_cache[snap]
    return _prog_cache[snap]


def load_nc():
    snap = build(want_nc=True)
    return Program(snap, "nc")


def build_control():
    """compile the positive-control crate with the same driver; returns the directory with its facts"""
    build_driver()
    # one directory per process: several checks (of different trees, or the two tiers of C10) may run side by side
    import atexit
    out = os.path.join(CACHE, "control-units-%d" % os.getpid())
    shutil.rmtree(out, ignore_errors=True)
    os.makedirs(out)
    tgt = os.path.join(CACHE, "control-tgt-%d" % os.getpid())
    shutil.rmtree(tgt, ignore_errors=True)
    atexit.register(lambda: (shutil.rmtree(out, ignore_errors=True), shutil.rmtree(tgt, ignore_errors=True)))
    env = _cargo_env(out, tgt)
    r = subprocess.run("cargo +nightly check --offline", shell=True, cwd=os.path.join(VERIF, "selftest", "control"), env=env, stdout=subprocess.PIPE, stderr=subprocess.PIPE, text=True)
    if r.returncode != 0:
        raise FactsError("control crate failed to build: " + r.stderr[-1500:])
    return out


def run_witness():
    """compile-fail witnesses: doc tests of /verif/witness against the current tree's harper-core
    (nightly, because the error codes of `compile_fail,E....` are only checked there).
    returns list of (test name, kind, ok)"""
    src = os.path.join(VERIF, "witness")
    work = os.path.join(CACHE, "witness-src")
    shutil.rmtree(work, ignore_errors=True)
    shutil.copytree(src, work, ignore=shutil.ignore_patterns("target", "Cargo.lock"))
    toml = open(os.path.join(work, "Cargo.toml")).read().replace('"/repo/harper-core"', '"%s/harper-core"' % REPO)
    open(os.path.join(work, "Cargo.toml"), "w").write(toml)
    shutil.copyfile(os.path.join(REPO, "Cargo.lock"), os.path.join(work, "Cargo.lock"))
    env = dict(os.environ, CARGO_NET_OFFLINE="true", CARGO_TARGET_DIR=os.path.join(CACHE, "witness-tgt"))
    env.pop("RUSTC_WRAPPER", None)
    r = subprocess.run("cargo +nightly test --doc --offline", shell=True, cwd=work, env=env, stdout=subprocess.PIPE, stderr=subprocess.PIPE, text=True)
    out = []
    import re as _re
    for m in _re.finditer(r"^test src/lib\.rs - (\S+) \(line \d+\) - (compile fail|compile) \.\.\. (\w+)", r.stdout, _re.M):
        out.append((m.group(1), m.group(2), m.group(3) == "ok"))
    if not out:
        raise FactsError("witness doc tests did not run: " + (r.stderr[-1500:] or r.stdout[-500:]))
    return out
