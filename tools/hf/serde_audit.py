"""Serde symmetry audit over a type graph (shared by C11, C14, C16, C19).

For every workspace ADT reachable from a root type: both Serialize and Deserialize are
implemented by `derive` (hand-written impls are listed as UNDECIDED), and no `#[serde(..)]`
attribute on the container, a variant or a field is asymmetric.  Attributes are read from source
with syn (they are not kept in HIR); everything else comes from the compiler facts."""
import re

from .tygraph import TyGraph, short

SYMMETRIC = re.compile(r"^(tag\s*=\s*\"[^\"]*\"|content\s*=\s*\"[^\"]*\"|transparent|rename\s*=\s*\"[^\"]*\"|rename_all\s*=\s*\"[^\"]*\"|rename_all_fields\s*=\s*\"[^\"]*\"|untagged|default|default\s*=\s*\"[^\"]*\"|flatten|alias\s*=\s*\"[^\"]*\"|bound\s*=\s*\"[^\"]*\"|deny_unknown_fields|crate\s*=\s*\"[^\"]*\"|borrow)$")
ASYMMETRIC = re.compile(r"^(skip|skip_serializing|skip_deserializing|serialize_with|deserialize_with|with|rename\s*\(|rename_all\s*\(|other|getter|remote)\b")
# decided by looking further (see _skip_if and convert_pair): not asymmetric by themselves
CONDITIONAL = re.compile(r"^(skip_serializing_if|from|into|try_from)\s*=\s*\"([^\"]*)\"$")
EMPTY_IS_DEFAULT = {"Vec::is_empty", "String::is_empty", "str::is_empty", "HashMap::is_empty", "HashSet::is_empty", "BTreeMap::is_empty", "BTreeSet::is_empty", "VecDeque::is_empty"}


def split_attr(tokens):
    """split `a = "x", b` at top-level commas"""
    out, depth, cur, instr = [], 0, "", False
    for ch in tokens:
        if ch == '"':
            instr = not instr
        if not instr:
            if ch in "([{":
                depth += 1
            elif ch in ")]}":
                depth -= 1
            elif ch == "," and depth == 0:
                out.append(cur.strip())
                cur = ""
                continue
        cur += ch
    if cur.strip():
        out.append(cur.strip())
    return out


def audit(ck, prog, rule, root_adt, what):
    tg = TyGraph(prog)
    root = tg.find_type(root_adt)
    if root is None:
        ck.refuted(rule, "anchor-missing:%s" % root_adt, "", "type %s not found" % root_adt)
        return 0
    n_adts = 0
    for path, c, i, t in tg.walk(*root):
        if t["k"] != "adt":
            continue
        d = prog.adts.get(t["name"])
        if d is None:
            continue            # external type: serde's own or the library's impls (trusted)
        n_adts += 1
        nm = t["name"].rsplit("::", 1)[-1]
        ser = [im for (tr, h), ims in tg.impl_index.items() if h == t["name"] and tr.endswith("::Serialize") for im in ims]
        de = [im for (tr, h), ims in tg.impl_index.items() if h == t["name"] and tr.endswith("::Deserialize") for im in ims]
        key = "%s:%s" % (what, nm)
        if not ser or not de:
            ck.refuted(rule, key + ":impls", d["span"], "%s (reachable via %s) lacks %s" % (nm, "/".join(path[-3:]), "Serialize" if not ser else "Deserialize"))
            continue
        manual = [im for im in ser + de if not im["derived"]]
        if manual:
            ck.undecided(rule, key + ":manual", d["span"], "%s has a hand-written serde impl (%s); symmetry not decided structurally" % (nm, manual[0]["trait"]))
            continue
        rec = prog.serde_of(d)
        if rec is None:
            ck.undecided(rule, key + ":attrs", d["span"], "source record of %s not found (macro-generated?)" % nm)
            continue
        bad, unknown, seen, pending = [], [], [], []
        container_default = any(re.match(r"^default$", it) for a in rec["serde"] for it in split_attr(a))
        places = [("container", rec["serde"])]
        for v in rec["variants"]:
            places.append(("variant %s" % v["name"], v["serde"]))
            for f in v["fields"]:
                places.append(("field %s.%s" % (v["name"], f["name"]), f["serde"]))
        for where, attrs in places:
            items = [item for a in attrs for item in split_attr(a)]
            has_default = any(re.match(r"^default$", it) for it in items)
            for item in items:
                seen.append(item)
                m = CONDITIONAL.match(item)
                if ASYMMETRIC.match(item):
                    bad.append("%s: %s" % (where, item))
                elif m and m.group(1) == "skip_serializing_if":
                    v = _skip_if(tg, t, d, where, m.group(2), has_default or container_default)
                    if v == "bad":
                        bad.append("%s: %s (a skipped field is required when reading: the value written is rejected, not read back)" % (where, item))
                    elif v == "unknown":
                        unknown.append("%s: %s" % (where, item))
                elif m:
                    pending.append((where, m.group(1), m.group(2)))
                elif not SYMMETRIC.match(item):
                    unknown.append("%s: %s" % (where, item))
        if pending and not bad:
            conv = dict((k, ty) for _, k, ty in pending)
            if all(w == "container" for w, _, _ in pending) and set(conv) == {"from", "into"} and conv["from"] == conv["into"]:
                v, why = convert_pair(prog, d, conv["from"])
                if v == "bad":
                    bad.append("container: from/into = %s: %s" % (conv["from"], why))
                elif v == "unknown":
                    unknown.append("container: from/into = %s (%s)" % (conv["from"], why))
                else:
                    seen.append("from/into = %s: %s" % (conv["from"], why))
            elif all(w == "container" for w, _, _ in pending) and set(conv) == {"from"} and not any("rename" in str(x) for x in seen):
                # written by the derive (a unit variant as its name), read through From<via>
                v, why = convert_pair(prog, d, conv["from"], from_only=True)
                if v == "bad":
                    bad.append("container: from = %s while Serialize is derived: %s" % (conv["from"], why))
                elif v == "unknown":
                    unknown.append("container: from = %s (%s)" % (conv["from"], why))
                else:
                    seen.append("from = %s: %s" % (conv["from"], why))
            else:
                unknown += ["%s: %s = %s (a one-sided or fallible conversion: whether it undoes the other direction is not decided)" % x for x in pending]
        if bad:
            ck.refuted(rule, key, d["span"], "asymmetric serde attribute(s) on %s: %s — what is written is not what is read back" % (nm, bad))
        elif unknown:
            ck.undecided(rule, key, d["span"], "serde attribute(s) outside the classified vocabulary on %s: %s" % (nm, unknown))
        else:
            ck.proved(rule, key, d["span"], "derive(Serialize, Deserialize), attributes %s" % (sorted(set(seen)) or "none"))
    return n_adts


def _field_ty(tg, t, d, where):
    """pretty type of the field named by `where` ("field Variant.name")"""
    m = re.match(r"^field (\w+)\.(\w+)$", where)
    if not m:
        return None
    for v in d["variants"]:
        if v["name"] == m.group(1) or d["kind"] == "struct":
            for f in v["fields"]:
                if f["name"] == m.group(2):
                    ty = tg.ty(d["crate"], f["ty"])
                    return ty
    return None


def _skip_if(tg, t, d, where, pred, has_default):
    ty = _field_ty(tg, t, d, where)
    name = (ty or {}).get("name", "") if ty else ""
    if pred == "Option::is_none":
        # serde's derive reads a missing Option field as None (self-describing formats)
        return "ok" if name.endswith("option::Option") else "unknown"
    if pred in EMPTY_IS_DEFAULT:
        # empty == Default::default() for the std collections and String
        return "ok" if has_default else "bad"
    return "unknown" if has_default else "bad"


def convert_pair(prog, d, via, from_only=False):
    """container from = via, into = via on a field-less enum: evaluate  From<via> for E (From<E> for via (v))  for every
    variant v over the MIR of the two conversions.  ("ok"|"bad"|"unknown", reason)"""
    from .interp import Interp, Stuck
    from .util import norm, last
    from .common import inst_of
    if d["kind"] != "enum" or any(v["fields"] for v in d["variants"]):
        return "unknown", "only field-less enums are evaluated"
    if via not in ("String", "&str", "std::string::String"):
        return "unknown", "only conversions through String are evaluated"
    ename = d["name"]
    short_e = d["pretty"]

    def find(arg_pat, ret_pat):
        out = []
        for f in prog.fns.values():
            if last(f.name) != "from" or f.get("kind") in ("Closure", "Promoted") or f.get("argc") != 1:
                continue
            a, r = f.local_tystr(1), f.local_tystr(0)
            if re.search(arg_pat, a) and re.search(ret_pat, r):
                out.append(f)
        return out
    e_pat = re.escape(short_e.rsplit("::", 1)[-1]) + r"$"
    s_pat = r"(^|::)String$"
    into = find(e_pat, s_pat)
    frm = find(s_pat, e_pat)
    if from_only:
        # derive(Serialize) writes a unit variant as its name; reading goes through From<String>
        into = [None]
    if len(into) != 1 or len(frm) != 1:
        return "unknown", "conversion functions not found uniquely (into: %d, from: %d)" % (len(into), len(frm))

    bynorm = {}
    for h in prog.fns.values():
        bynorm.setdefault(norm(h.name), h)

    class _Shown(Exception):
        def __init__(self, v):
            self.v = v

    def display_of(val, depth):
        """`v.to_string()` for a variant of E whose Display::fmt is `write!(f, "{}", <str picked by a match on self>)`:
        the shape is checked (one placeholder and nothing else in the template), then fmt is run up to the point
        where the string is wrapped as the format argument."""
        fm = [h for h in prog.fns.values() if last(h.name) == "fmt" and h.get("argc") == 2
              and (h.pretty or "").endswith(" as std::fmt::Display>::fmt") and re.search(e_pat[:-1] + " as ", h.pretty or "")]
        if len(fm) != 1:
            raise Stuck("Display impl of %s not found" % short_e)
        g = fm[0]
        names = sorted(last(norm(inst_of(t))) for _, t in g.calls())
        tmpl = [str(x["rv"].get("op", {}).get("k", {}).get("const", "")) for b in g.blocks for x in b["s"]
                if x["k"] == "assign" and x["rv"]["k"] == "use" and isinstance(x["rv"].get("op"), dict) and "k" in x["rv"]["op"]
                and str(x["rv"]["op"]["k"].get("const", "")).startswith('b"')]
        if names != ["new", "new_display", "write_fmt"] or tmpl != ['b"\\xc0\\x00"']:
            raise Stuck("Display::fmt of %s is not `write!(f, \"{}\", s)` (calls %s, template %s)" % (short_e, names, tmpl))

        def call2(t, a):
            if last(norm(inst_of(t))) == "new_display" and a and a[0][0] == "str":
                raise _Shown(a[0])
            raise Stuck("call to %s in Display::fmt" % norm(inst_of(t)))
        try:
            Interp(g, max_steps=2000).run({1: val, 2: ("opaque", "formatter")}, hooks={"call": call2})
        except _Shown as e:
            return e.v
        raise Stuck("Display::fmt of %s did not reach its format argument" % short_e)

    def ev(f, args, depth=0):
        if depth > 8:
            raise Stuck("conversion helpers nest too deeply")

        def call(t, a):
            inst = norm(inst_of(t))
            m = last(inst)
            g = prog.fns.get(inst_of(t)) or bynorm.get(inst)
            if g is not None and not inst.startswith(("core::", "alloc::", "std::")):
                return ev(g, a, depth + 1)
            if a and a[0][0] == "str":
                if m in ("to_owned", "to_string", "from", "into", "as_str", "deref", "as_ref", "borrow", "clone", "as_mut_str"):
                    return a[0]
                if m in ("eq", "ne") and len(a) == 2 and a[1][0] == "str":
                    return ("bool", (a[0][1] == a[1][1]) == (m == "eq"))
            if a and a[0][0] == "variant" and a[0][1].endswith("option::Option"):
                some = a[0][3] == "Some"
                if m == "unwrap_or_default":
                    if some:
                        return a[0][4][0]
                    dflt = [h for h in prog.fns.values() if last(h.name) == "default" and h.get("argc") == 0 and re.search(e_pat, h.local_tystr(0))]
                    if len(dflt) != 1:
                        raise Stuck("Default impl of %s not found" % short_e)
                    return ev(dflt[0], [], depth + 1)
                if m == "unwrap_or" and len(a) == 2:
                    return a[0][4][0] if some else a[1]
                if m in ("unwrap", "expect") and some:
                    return a[0][4][0]
            if a and a[0][0] == "variant" and m == "clone":
                return a[0]
            if a and a[0][0] == "variant" and m == "to_string" and a[0][1] == ename:
                return display_of(a[0], depth)
            raise Stuck("call to %s" % inst)
        env = {i + 1: x for i, x in enumerate(args)}
        r, _ = Interp(f, max_steps=2000).run(env, hooks={"call": call})
        return r
    ok = []
    try:
        for v in d["variants"]:
            val = ("variant", ename, v["idx"], v["name"], [], int(v["discr"]))
            s = ("str", v["name"]) if from_only else ev(into[0], [val])
            if s[0] != "str":
                raise Stuck("writing %s gives %s, not a string constant" % (v["name"], s[0]))
            back = ev(frm[0], [s])
            if back[0] != "variant":
                raise Stuck("reading %r gives %s" % (s[1], back[0]))
            if back[3] != v["name"]:
                return "bad", "%s is written as %r, which reads back as %s" % (v["name"], s[1], back[3])
            ok.append(v["name"])
    except Stuck as e:
        return "unknown", "conversion beyond the evaluator: %s" % e
    return "ok", "all %d variants read back as themselves" % len(ok)
