"""Serde symmetry audit over a type graph (shared by C11, C14, C16, C19).

For every workspace ADT reachable from a root type: both Serialize and Deserialize are
implemented by `derive` (hand-written impls are listed as UNDECIDED), and no `#[serde(..)]`
attribute on the container, a variant or a field is asymmetric.  Attributes are read from source
with syn (they are not kept in HIR); everything else comes from the compiler facts."""
import re

from .tygraph import TyGraph, short

SYMMETRIC = re.compile(r"^(tag\s*=\s*\"[^\"]*\"|content\s*=\s*\"[^\"]*\"|transparent|rename\s*=\s*\"[^\"]*\"|rename_all\s*=\s*\"[^\"]*\"|rename_all_fields\s*=\s*\"[^\"]*\"|untagged|default|default\s*=\s*\"[^\"]*\"|flatten|alias\s*=\s*\"[^\"]*\"|bound\s*=\s*\"[^\"]*\"|deny_unknown_fields|crate\s*=\s*\"[^\"]*\"|borrow)$")
ASYMMETRIC = re.compile(r"^(skip|skip_serializing|skip_deserializing|skip_serializing_if|serialize_with|deserialize_with|with|rename\s*\(|rename_all\s*\(|from|into|try_from|other|getter|remote)\b")


def split_attr(tokens):
    """split `a = "x", b` at top-level commas"""
    out, depth, cur, instr = [], 0, "", False
    for ch in tokens:
        if ch == '"':
            instr = not instr
        if not instr:
            if ch in "([{":
                depth += 1
            elif ch in ")]}":
                depth -= 1
            elif ch == "," and depth == 0:
                out.append(cur.strip())
                cur = ""
                continue
        cur += ch
    if cur.strip():
        out.append(cur.strip())
    return out


def audit(ck, prog, rule, root_adt, what):
    tg = TyGraph(prog)
    root = tg.find_type(root_adt)
    if root is None:
        ck.refuted(rule, "anchor-missing:%s" % root_adt, "", "type %s not found" % root_adt)
        return 0
    n_adts = 0
    for path, c, i, t in tg.walk(*root):
        if t["k"] != "adt":
            continue
        d = prog.adts.get(t["name"])
        if d is None:
            continue            # external type: serde's own or the library's impls (trusted)
        n_adts += 1
        nm = t["name"].rsplit("::", 1)[-1]
        ser = [im for (tr, h), ims in tg.impl_index.items() if h == t["name"] and tr.endswith("::Serialize") for im in ims]
        de = [im for (tr, h), ims in tg.impl_index.items() if h == t["name"] and tr.endswith("::Deserialize") for im in ims]
        key = "%s:%s" % (what, nm)
        if not ser or not de:
            ck.refuted(rule, key + ":impls", d["span"], "%s (reachable via %s) lacks %s" % (nm, "/".join(path[-3:]), "Serialize" if not ser else "Deserialize"))
            continue
        manual = [im for im in ser + de if not im["derived"]]
        if manual:
            ck.undecided(rule, key + ":manual", d["span"], "%s has a hand-written serde impl (%s); symmetry not decided structurally" % (nm, manual[0]["trait"]))
            continue
        rec = prog.serde_of(d)
        if rec is None:
            ck.undecided(rule, key + ":attrs", d["span"], "source record of %s not found (macro-generated?)" % nm)
            continue
        bad, unknown, seen = [], [], []
        places = [("container", rec["serde"])]
        for v in rec["variants"]:
            places.append(("variant %s" % v["name"], v["serde"]))
            for f in v["fields"]:
                places.append(("field %s.%s" % (v["name"], f["name"]), f["serde"]))
        for where, attrs in places:
            for a in attrs:
                for item in split_attr(a):
                    seen.append(item)
                    if ASYMMETRIC.match(item):
                        bad.append("%s: %s" % (where, item))
                    elif not SYMMETRIC.match(item):
                        unknown.append("%s: %s" % (where, item))
        if bad:
            ck.refuted(rule, key, d["span"], "asymmetric serde attribute(s) on %s: %s — what is written is not what is read back" % (nm, bad))
        elif unknown:
            ck.undecided(rule, key, d["span"], "serde attribute(s) outside the classified vocabulary on %s: %s" % (nm, unknown))
        else:
            ck.proved(rule, key, d["span"], "derive(Serialize, Deserialize), attributes %s" % (sorted(set(seen)) or "none"))
    return n_adts
