"""C09 — the server's last word reflects the latest text (handler pipelines, source of the text,
ordering discipline).  Decided on the pre-transform coroutine MIR of harper-ls' handlers."""
import re

from .. import facts
from ..cfg import Cfg
from ..common import (arg_fields, arg_roots, arm_blocks, awaited, def_of, inst_of, method, str_guards, target_of, new_async_helper)
from ..prov import Prov, flatten, field_names
from ..util import fns_by_key, keyname, place_of, norm, last, with_closures

LEVEL = "other"
B0 = "harper_ls::backend::{impl}::"
UPDATES = (B0 + "update_document", B0 + "update_document_from_file", B0 + "refresh_document")


def handler(p, name):
    for imp in ("{impl#1}", "{impl#0}"):
        f = p.fns.get("harper_ls::backend::%s::%s::{closure#0}" % (imp, name))
        if f is not None:
            return f
    return None


def url_base(f, pv, op):
    """a printable identity for the url operand: the (local, field path) a `&x.y.z` refers to, or
    the call it results from"""
    pl = place_of(op)
    if not pl:
        return None
    l = pl[0]
    for _ in range(8):
        nxt = None
        for (bi, si, kind, x) in pv.defs.get(l, []):
            if kind == "assign" and len(x["lhs"]) == 1:
                rv = x["rv"]
                if rv["k"] == "ref":
                    fl = tuple(e[2] for e in rv["place"][1:] if isinstance(e, list) and e[0] == "f")
                    if not fl:
                        nxt = rv["place"][0]
                        continue
                    return (rv["place"][0], fl)
                if rv["k"] == "use" and place_of(rv["op"]):
                    q = place_of(rv["op"])
                    if len(q) == 1:
                        nxt = q[0]
                    else:
                        return (q[0], tuple(e[2] for e in q[1:] if isinstance(e, list) and e[0] == "f"))
        if nxt is None:
            break
        l = nxt
    return (l, ())


def run(ck, tier):
    ck.rule("R-C09-publish", "every handler that replaces or removes a document's state publishes afterwards for the same URL on every path (did_open/did_change/did_save/HarperIgnoreLint/did_change_configuration: publish_diagnostics(url); did_close/did_change_watched_files/shutdown: an empty PublishDiagnostics); publish_diagnostics computes from doc_state, never from a cached list")
    ck.rule("R-C09-source", "who-may-call: update_document_from_file (re-reads the file from disk) is called only from did_save; every other refresh must use the client's buffer text")
    ck.rule("R-C09-close", "a closed document stays closed: a live DocumentState can only be created with the language id a didOpen supplied - the state-creating closure of update_document takes `language_id` from the handler parameter (map/to_string only), and every caller other than did_open passes None (or hands on its own parameter); a state without language id is removed again")
    ck.rule("R-C09-order", "in update_document the only await point between handler entry and the doc_state store is the doc_state lock itself (tower-lsp runs up to 4 handlers concurrently; tokio's Mutex is FIFO), or the store is guarded by the notification's version")
    ck.rule("R-C09-fresh", "a handler that re-lints documents from the server's own copy of their text reads that copy when the document's turn comes: no update_document call inside a loop is fed a text read (get_full_string) before the loop - the loop awaits between documents, so from the second document on such a text can be older than an edit handled meanwhile")
    ck.not_decided += ["that the published diagnostics equal those of the newest text (needs execution)", "client-side behaviour"]
    ck.assumptions += ["tower-lsp 0.20 polls up to four handlers concurrently in arrival order (buffer_unordered(4)); tokio::sync::Mutex grants the lock in FIFO order"]
    p = facts.load()
    _publish(ck, p)
    _source(ck, p)
    _order(ck, p)
    _close(ck, p)
    _fresh(ck, p)
    _newest_change(ck, p)


def _publish(ck, p):
    rule = "R-C09-publish"
    n = 0
    for name in ("did_open", "did_change", "did_save"):
        f = handler(p, name)
        if not ck.anchor(rule, "Backend::" + name, f):
            continue
        ck.saw(f)
        cfg = Cfg(f)
        pv = Prov(f)
        ups = [(bi, t) for bi, t in f.calls() if inst_of(t) in UPDATES]
        pubs = [(bi, t) for bi, t in f.calls() if inst_of(t) == B0 + "publish_diagnostics"]
        if len(ups) != 1:
            ck.refuted(rule, "%s:update" % name, f.span, "expected one document update, found %d" % len(ups))
            continue
        ub, ut = ups[0]
        u_url = url_base(f, pv, ut["args"][1])
        same = [pb for pb, pt in pubs if url_base(f, pv, pt["args"][1]) == u_url and awaited(f, pb)]
        ok, wit = cfg.every_path_passes(ub, same)
        n += 1
        ck.decide(rule, "Backend::%s" % name, bool(same) and ok, f.loc(ut["ln"]), "after the update every path to return awaits publish_diagnostics for the same url %s: %s%s" % (u_url, ok, "" if ok else " (path %s)" % wit))
    # HarperIgnoreLint
    f = handler(p, "execute_command")
    if ck.anchor(rule, "Backend::execute_command", f):
        ck.saw(f)
        cfg = Cfg(f)
        pv = Prov(f)
        g = {lit: tb for lit, gb, tb, fb in str_guards(f)}
        if "HarperIgnoreLint" in g:
            arm = arm_blocks(cfg, g["HarperIgnoreLint"])
            ig = [(bi, t) for bi, t in f.calls() if bi in arm and inst_of(t).endswith("document_state::{impl}::ignore_lint")]
            pubs = [bi for bi, t in f.calls() if bi in arm and inst_of(t) == B0 + "publish_diagnostics" and awaited(f, bi)]
            ok = len(ig) == 1 and bool(pubs) and cfg.every_path_passes(ig[0][0], pubs)[0]
            if not ig:
                # the arm's body extracted into an awaited async helper (new since the reference tree)
                from ..common import new_async_helper
                for hb, ht in f.calls():
                    if hb not in arm or not awaited(f, hb):
                        continue
                    body = new_async_helper(p, ht)
                    if body is None:
                        continue
                    bcfg = Cfg(body)
                    big = [(b2, t2) for b2, t2 in body.calls() if inst_of(t2).endswith("document_state::{impl}::ignore_lint")]
                    bpubs = [b2 for b2, t2 in body.calls() if inst_of(t2) == B0 + "publish_diagnostics" and awaited(body, b2)]
                    if len(big) == 1 and bpubs and bcfg.every_path_passes(big[0][0], bpubs)[0]:
                        ok = True
            n += 1
            ck.decide(rule, "execute_command:HarperIgnoreLint", ok, f.span, "ignore_lint is followed on every path by publish_diagnostics: %s" % ok)
        else:
            ck.refuted(rule, "anchor-missing:HarperIgnoreLint", f.span, "command arm not found")
    # did_change_configuration: per url refresh then publish
    f = handler(p, "did_change_configuration")
    if ck.anchor(rule, "Backend::did_change_configuration", f):
        ck.saw(f)
        cfg = Cfg(f)
        pv = Prov(f)
        loops = cfg.natural_loops()
        ups = [(bi, t) for bi, t in f.calls() if inst_of(t) in UPDATES]
        pubs = [(bi, t) for bi, t in f.calls() if inst_of(t) == B0 + "publish_diagnostics" and awaited(f, bi)]
        ok = bool(ups) and bool(pubs)
        detail = "updates=%d publishes=%d" % (len(ups), len(pubs))
        if not ups and not pubs:
            # refresh + publish extracted into one awaited async helper (new since the reference tree)
            from ..common import new_async_helper, helper_stage_calls
            good_h = []
            for hb, ht in f.calls():
                body = new_async_helper(p, ht)
                if body is None or not awaited(f, hb):
                    continue
                st_ = helper_stage_calls(p, body, ("refresh_document", "update_document", "update_document_from_file", "publish_diagnostics"))
                names = [x[0] for x in st_]
                if len(names) == 2 and names[0] != "publish_diagnostics" and names[1] == "publish_diagnostics":
                    hpv = Prov(body)
                    if url_base(body, hpv, st_[0][2]["args"][1]) == url_base(body, hpv, st_[1][2]["args"][1]):
                        good_h.append(hb)
            if good_h:
                n += 1
                ck.proved(rule, "Backend::did_change_configuration", f.span, "each document is refreshed and then published for the same url inside one awaited helper (%d site(s))" % len(good_h))
                ups = None
        if ups is None:
            pass
        else:
          for ub, ut in ups:
              heads = [h for h, body in loops.items() if ub in body]
              same = [pb for pb, pt in pubs if url_base(f, pv, pt["args"][1]) == url_base(f, pv, ut["args"][1])]
              good, wit = cfg.every_path_passes(ub, same, to=heads + cfg.exits())
              ok = ok and bool(same) and good
          n += 1
          ck.decide(rule, "Backend::did_change_configuration", ok, f.span, detail + "; each refresh is followed by a publish for the same url within the iteration: %s" % ok)
    # removal handlers send an empty list
    for name in ("did_close", "did_change_watched_files", "shutdown"):
        f = handler(p, name)
        if not ck.anchor(rule, "Backend::" + name, f):
            continue
        ck.saw(f)
        cfg = Cfg(f)
        pv = Prov(f)
        sends = [(bi, t) for bi, t in f.calls() if inst_of(t).endswith("client::{impl}::send_notification") and awaited(f, bi)]
        # an awaited async helper (new since the reference tree) that sends the empty list for the url it is given
        hsends = _helper_empty_sends(p, f)
        ok = bool(sends) or bool(hsends)
        detail = "send_notification sites=%d%s" % (len(sends), "" if not hsends else ", through an awaited helper: %d" % len(hsends))
        for sb, st in sends:
            params = [o for o in flatten(pv.trace_operand(st["args"][1])) if False]
            agg = _params_agg(f, pv, st["args"][1])
            if agg is None:
                ok = False
                detail += "; parameters not built in place"
                continue
            fields = dict(zip(agg["fields"], agg["ops"]))
            empty = all(o[0] == "call" and last(norm(o[3] or "")) in ("new", "from_elem") or o[0] == "const" for o in flatten(pv.trace_operand(fields["diagnostics"]))) and any(o[0] == "call" and last(norm(o[3] or "")) == "new" for o in flatten(pv.trace_operand(fields["diagnostics"])))
            ok = ok and empty
            detail += "; diagnostics = empty Vec: %s" % empty
        if name == "did_close":
            rem = [(bi, t) for bi, t in f.calls() if method(t) in ("remove", "retain") and "doc_state" in _lock_chain(f, pv, t["args"][0])]
            before = bool(rem) and all(any(cfg.dominates(rb, sb) for rb, _ in rem) for sb, _ in sends + [(hb, ht) for hb, ht, _ in hsends])
            ok = ok and before
            detail += "; state removed before the empty publish: %s" % before
        if name == "did_change_watched_files":
            good, why = _watched_files(p, f, cfg, pv, sends, hsends)
            ok = ok and good
            detail += "; " + why
            _segments_pitfall(ck, p, f, rule)
            _prefix_pitfall(ck, p, f, rule)
        n += 1
        ck.decide(rule, "Backend::%s" % name, ok, f.span, detail)
    ck.floor(rule, "handler paths checked", n, 5)
    # publish_diagnostics -> generate_diagnostics -> doc_state under the lock
    f = p.fns.get("harper_ls::backend::{impl#0}::publish_diagnostics::{closure#0}")
    g = p.fns.get("harper_ls::backend::{impl#0}::generate_diagnostics::{closure#0}")
    if ck.anchor(rule, "Backend::publish_diagnostics", f) and ck.anchor(rule, "Backend::generate_diagnostics", g):
        ck.saw(f); ck.saw(g)
        pv = Prov(f)
        gen = [(bi, t) for bi, t in f.calls() if inst_of(t) == B0 + "generate_diagnostics"]
        snd = [(bi, t) for bi, t in f.calls() if inst_of(t).endswith("client::{impl}::send_notification")]
        ok = len(gen) == 1 and len(snd) == 1
        if ok:
            agg = _params_agg(f, pv, snd[0][1]["args"][1])
            polls = awaited(f, gen[0][0])
            ok = agg is not None and any(o[0] == "call" and o[1] in polls for o in arg_roots(f, pv, dict(zip(agg["fields"], agg["ops"]))["diagnostics"]))
        elif len(gen) == 1 and not snd:
            # the notification is sent by an awaited helper that is handed the generated diagnostics
            ok = _helper_send_of(p, f, gen[0][0]) is not None
        gpv = Prov(g)
        lock = [(bi, t) for bi, t in g.calls() if inst_of(t).endswith("mutex::{impl}::lock") and "doc_state" in arg_fields(gpv, t["args"][0])]
        gd = [(bi, t) for bi, t in g.calls() if inst_of(t).endswith("document_state::{impl}::generate_diagnostics")]
        ok2 = len(lock) == 1 and len(gd) == 1 and Cfg(g).dominates(lock[0][0], gd[0][0])
        ck.decide(rule, "Backend::publish_diagnostics", ok and ok2, f.span, "publishes the result of generate_diagnostics(url)=%s, which lints doc_state under the lock=%s" % (ok, ok2))
        # it always sends: no path returns without the notification (a "client already has these" shortcut is
        # wrong as soon as another handler sends for the same url without going through it - did_close does)
        if snd:
            fcfg = Cfg(f)
            always, wit = fcfg.every_path_passes(0, [snd[0][0]])
            ck.decide(rule, "Backend::publish_diagnostics:always-sends", always, f.span, "every path through publish_diagnostics reaches client.send_notification(PublishDiagnostics): %s%s" % (
                always, "" if always else " - blocks %s return without publishing: the client keeps whatever it was last sent (for a re-opened document: the empty list did_close published)" % wit))


def _prefix_pitfall(ck, p, f, rule):
    """which open documents a deleted path covers: a document is covered when its URI IS the deleted one or lies
    below it - a prefix that ends at a path separator.  A bare string prefix also covers siblings whose name merely
    starts the same way (`notes.md` deleted, `notes.mdx` open)."""
    bodies = list(with_closures(p, f))
    for g in list(getattr(p, "new_helpers", {}).values()):
        bodies += with_closures(p, g)
    sw = []
    for h in bodies:
        for _, t in h.calls():
            if method(t) == "starts_with" and "core::str" in norm(inst_of(t) or "") and len(t["args"]) == 2:
                pat = h.local_tystr(place_of(t["args"][1])[0]) if place_of(t["args"][1]) else ""
                if "str" in (pat or ""):
                    sw.append((h, t))
    if not sw:
        return
    key = "Backend::did_change_watched_files:deleted-path-prefix"
    names = {method(t) for h in bodies for _, t in h.calls()}
    sep = names & {"strip_prefix", "ends_with", "split", "path_segments", "parent", "strip_suffix", "components", "eq"}
    chars = any(method(t) in ("starts_with", "ends_with") and len(t["args"]) == 2 and (h.local_tystr(place_of(t["args"][1])[0]) if place_of(t["args"][1]) else "char") == "char" for h in bodies for _, t in h.calls())
    h, t = sw[0]
    if sep or chars:
        ck.proved(rule, key, h.loc(t["ln"]), "the prefix test comes with a separator test (%s)" % ", ".join(sorted(sep) or ["a character test"]))
    else:
        ck.refuted(rule, key, h.loc(t["ln"]), "an open document counts as deleted when its URI merely starts with the deleted URI as a string (str::starts_with, no test for a path separator behind the prefix): deleting `notes.md` also drops the state of the open `notes.mdx` and publishes an empty list for it - its diagnostics stay empty on every later change until it is closed and opened again")


def _segments_pitfall(ck, p, f, rule):
    """which open documents a deleted path covers: a comparison by Url::path_segments() must cope with the empty last
    segment that a directory URI written with a trailing slash has (url crate: "/a/b/" -> ["a", "b", ""])"""
    bodies = list(with_closures(p, f))
    for g in list(getattr(p, "new_helpers", {}).values()):
        bodies += with_closures(p, g)
    segs = [(h, t) for h in bodies for _, t in h.calls() if method(t) == "path_segments" and "url" in norm(inst_of(t)).lower()]
    if not segs:
        return
    names = {method(t) for h in bodies for _, t in h.calls()}
    handled = names & {"filter", "is_empty", "pop_if_empty", "trim_end_matches", "strip_suffix", "trim_matches", "rsplit_terminator", "split_terminator"}
    key = "Backend::did_change_watched_files:deleted-path-match"
    h, t = segs[0]
    if handled:
        ck.undecided(rule, key, h.loc(t["ln"]), "documents below a deleted path are matched by path segments; empty segments are handled somehow (%s) - whether a directory URI with a trailing slash still covers its documents is not decided" % sorted(handled))
    else:
        ck.refuted(rule, key, h.loc(t["ln"]), "documents below a deleted path are matched by comparing Url::path_segments() one by one, and nothing deals with empty segments: a directory URI written with a trailing slash (file:///notes/chapter/) ends in an empty segment that no document path has at that position, so the open documents below the deleted directory keep their state and never get the empty publishDiagnostics")


def _helper_empty_sends(p, f):
    """[(block, call, url operand)]: awaited calls in f to an async helper that did not exist on the reference tree and whose
    body sends PublishDiagnostics with an empty list for its url parameter"""
    from .. import inline
    known = inline.load_known() or set()
    out = []
    for bi, t in f.calls():
        inst = inst_of(t)
        body = p.fns.get((t["f"].get("inst") or "") + "::{closure#0}")
        if body is None or norm(inst) in known or not inst.startswith("harper_ls::") or not awaited(f, bi):
            continue
        bpv = Prov(body)
        for sb, st in body.calls():
            if not (inst_of(st).endswith("client::{impl}::send_notification") and awaited(body, sb)):
                continue
            agg = _params_agg(body, bpv, st["args"][1])
            if agg is None:
                continue
            fields = dict(zip(agg["fields"], agg["ops"]))
            empty = all(o[0] == "call" and last(norm(o[3] or "")) in ("new", "from_elem") or o[0] == "const" for o in flatten(bpv.trace_operand(fields["diagnostics"])))
            uri_roots = arg_roots(body, bpv, fields["uri"])
            names = field_names(bpv.trace_operand(fields["uri"])) | {x for o in uri_roots for x in ([] if o[0] != "field" else [o[3]])}
            from_url = "url" in arg_fields(bpv, fields["uri"]) or "url" in names or any("url" in str(o) for o in uri_roots)
            if empty and from_url and len(t["args"]) >= 2:
                out.append((bi, t, t["args"][1]))
                continue
            # a general "send these diagnostics for this url" helper: both come in as parameters; what is sent is
            # decided at the call site
            if from_url and not empty:
                fpv = Prov(f)
                diag_args = [a for a in t["args"] if place_of(a) and "Diagnostic" in (f.local_tystr(place_of(a)[0]) or "") and "Vec<" in (f.local_tystr(place_of(a)[0]) or "")]
                url_args = [a for a in t["args"][1:] if place_of(a) and "Url" in (f.local_tystr(place_of(a)[0]) or "")]
                if len(diag_args) == 1 and url_args:
                    org = flatten(fpv.trace_operand(diag_args[0]))
                    empty_here = bool(org) and all(o[0] == "call" and last(norm(o[3] or "")) in ("new", "from_elem") or o[0] == "const" for o in org)
                    if empty_here:
                        out.append((bi, t, url_args[0]))
    return out


def _helper_send_of(p, f, gen_bb):
    """an awaited call in f to a new async helper that sends PublishDiagnostics, whose Vec<Diagnostic> argument derives
    from the awaited call at block gen_bb: (block, call) or None"""
    from .. import inline
    known = inline.load_known() or set()
    fpv = Prov(f)
    polls = awaited(f, gen_bb)
    for bi, t in f.calls():
        inst = inst_of(t)
        body = p.fns.get((t["f"].get("inst") or "") + "::{closure#0}")
        if body is None or norm(inst) in known or not inst.startswith("harper_ls::") or not awaited(f, bi):
            continue
        if not any(inst_of(st).endswith("client::{impl}::send_notification") for _, st in body.calls()):
            continue
        for a in t["args"]:
            if place_of(a) and "Diagnostic" in (f.local_tystr(place_of(a)[0]) or ""):
                if any(o[0] == "call" and (o[1] in polls or o[1] == gen_bb) for o in arg_roots(f, fpv, a)):
                    return (bi, t)
    return None


def _watched_files(p, f, cfg, pv, sends, hsends=()):
    """the urls that get an empty publish are exactly those the retain closure removed: the closure
    pushes its key into a vector under the very flag whose negation it returns, and the publish loop
    iterates that vector"""
    rets = [(bi, t) for bi, t in f.calls() if method(t) == "retain" and "doc_state" in _lock_chain(f, pv, t["args"][0])]
    if len(rets) != 1:
        return False, "expected one retain on the document map, found %d" % len(rets)
    clos = [c for c in p.closures_of(f.name) if any(method(t) == "push" for _, t in c.calls())]
    if len(clos) != 1:
        return False, "retain closure with a push not found"
    c = clos[0]
    ccfg = Cfg(c)
    cpv = Prov(c)
    from ..cfg import bool_edges
    pushes = [(bi, t) for bi, t in c.calls() if method(t) == "push"]
    def resolve(origins):
        """(atom, negated): strip negations off a boolean's origin"""
        neg = False
        cur = frozenset(origins)
        for _ in range(6):
            if len(cur) == 1:
                o = next(iter(cur))
                if o[0] == "un" and o[1] == "Not":
                    cur = frozenset(o[2])
                    neg = not neg
                    continue
            break
        return cur, neg
    ret_atom, ret_neg = resolve(cpv.trace_local(0))
    if not ret_atom or any(o[0] == "const" for o in ret_atom):
        return False, "closure does not return a flag or its negation"
    # the push happens exactly when the closure returns false (the entry is removed): the switch that
    # gates it tests the same flag, and the edge that leads to the push is the one on which the returned
    # value is false
    gated = False
    for bi, b in enumerate(c.blocks):
        t = b["t"]
        if t["k"] != "switch":
            continue
        g_atom, g_neg = resolve(cpv.trace_operand(t["discr"]))
        if g_atom != ret_atom:
            continue
        zero = dict((v, x) for v, x in t["targets"]).get("0")
        other = t.get("otherwise")
        for edge_val, blk in ((False, zero), (True, other)):
            if blk is None or len(ccfg.pred[blk]) != 1 or not all(ccfg.dominates(blk, pb) for pb, _ in pushes):
                continue
            atom_val = edge_val != g_neg            # value of the atom on this edge
            returned = atom_val != ret_neg          # what the closure returns then
            if returned is False:
                gated = True
    key_pushed = all(("arg", 2) in arg_roots(c, cpv, t["args"][1]) for _, t in pushes)
    # the vector the closure pushes to is the one the publish loop iterates
    vec_local = None
    for b in f.blocks:
        for s in b["s"]:
            if s["k"] == "assign" and s["rv"]["k"] == "agg" and s["rv"].get("name") == c.name:
                for o in s["rv"]["ops"]:
                    pl = place_of(o)
                    if pl and pl[0] in pv.mut_base:
                        vec_local = pv.mut_base[pl[0]]
    iter_same = False
    uris = []
    for sb, st in sends:
        agg = _params_agg(f, pv, st["args"][1])
        if agg is None:
            continue
        uris.append(dict(zip(agg["fields"], agg["ops"]))["uri"])
    uris += [u for _, _, u in hsends]
    for uri in uris:
        roots = arg_roots(f, pv, uri)
        from_next = any(o[0] == "call" and method(f.blocks[o[1]]["t"]) == "next" for o in roots)
        for o in roots:
            # the iterated collection is the very local the closure pushes into
            if o[0] == "call" and vec_local is not None and f.blocks[o[1]]["t"]["dest"] == [vec_local] and from_next:
                iter_same = True
    ok = gated and key_pushed and iter_same
    return ok, "retain closure pushes its key under the flag whose negation it returns=%s/%s; the empty publishes iterate that vector=%s" % (gated, key_pushed, iter_same)


def _ref_local(f, pv, op):
    pl = place_of(op)
    if not pl:
        return None
    l = pl[0]
    for _ in range(6):
        nxt = None
        for (bi, si, kind, x) in pv.defs.get(l, []):
            if kind == "assign" and len(x["lhs"]) == 1 and x["rv"]["k"] in ("ref", "use"):
                q = x["rv"].get("place") or place_of(x["rv"]["op"])
                if q:
                    nxt = q[0]
        if nxt is None:
            return l
        l = nxt
    return l


def _params_agg(f, pv, op):
    """the PublishDiagnosticsParams aggregate an operand was built from"""
    pl = place_of(op)
    if not pl:
        return None
    l = pl[0]
    for _ in range(6):
        nxt = None
        for (bi, si, kind, x) in pv.defs.get(l, []):
            if kind == "assign" and len(x["lhs"]) == 1:
                rv = x["rv"]
                if rv["k"] == "agg" and rv.get("name", "").endswith("PublishDiagnosticsParams"):
                    return rv
                if rv["k"] == "use" and place_of(rv["op"]) and len(place_of(rv["op"])) == 1:
                    nxt = place_of(rv["op"])[0]
        if nxt is None:
            return None
        l = nxt
    return None


def _lock_chain(f, pv, op):
    """field names reachable behind a lock guard operand (doc_lock derives from self.doc_state.lock().await)"""
    names = set(arg_fields(pv, op))
    for o in arg_roots(f, pv, op):
        if o[0] == "call":
            t = f.blocks[o[1]]["t"]
            for a in t["args"]:
                names |= arg_fields(pv, a)
    return names


def _source(ck, p, rule="R-C09-source"):
    target = B0 + "update_document_from_file"
    sites = []
    for f in p.fns.values():
        if not f.name.startswith("harper_ls::"):
            continue
        for bi, t in f.calls():
            if inst_of(t) == target:
                sites.append((f, bi, t))
    ck.floor(rule, "callers of update_document_from_file", len(sites), 1)
    for f, bi, t in sites:
        ck.saw(f)
        hname = keyname(p, f).replace("::{closure}", "")
        short = last(hname.replace("<Backend as LanguageServer>::", "Backend::"))
        key = short
        if short == "execute_command":
            cfg = Cfg(f)
            arm = [lit for lit, gb, tb, fb in str_guards(f) if cfg.dominates(tb, bi)]
            key = "execute_command:%s" % (arm[0] if arm else "?")
        if short == "did_save":
            ck.proved(rule, key, f.loc(t["ln"]), "did_save re-reads the file it was told has just been saved")
        elif isinstance(_only_when_not_open(f, bi), tuple):
            ck.refuted(rule, key, f.loc(t["ln"]), "%s reads the file from disk when doc_state.get(url) passed through %s is None: an open document can take that arm (its entry is filtered away), so its unsaved buffer is replaced by the disk content and every position published afterwards refers to another text than the client holds" % (key, _only_when_not_open(f, bi)[1]))
        elif _only_when_not_open(f, bi) == "undecided":
            ck.undecided(rule, key, f.loc(t["ln"]), "the disk is read on the None arm of an Option that comes out of a helper this rule does not follow: whether None means `the document is not open` is not decided")
        elif _only_when_not_open(f, bi):
            ck.proved(rule, key, f.loc(t["ln"]), "the disk is read only on the None arm of doc_state.get(url): the document is not open, so there is no buffer text to prefer")
        else:
            ck.refuted(rule, key, f.loc(t["ln"]),
                       "%s refreshes the document from the file on disk: with an unsaved buffer the diagnostics published afterwards are those of the disk content, not of the newest text the client sent" % key)


def _scrutinee_is_option(f, pv, discr_op):
    """is the value whose discriminant this switch tests an Option?"""
    pl = place_of(discr_op)
    if not pl:
        return False
    for (b2, si, kk, x) in pv.defs.get(pl[0], []):
        if kk == "assign" and x["rv"]["k"] == "discr":
            ty = f.local_tystr(x["rv"]["place"][0]) or ""
            return "option::Option<" in ty or ty.startswith("Option<") or "Option<" in ty.split("Result<")[0]
    return False


LOSSY_OPT = {"filter", "and_then", "filter_map", "take_if", "xor", "zip", "then", "then_some", "ok", "ok_or"}


def _only_when_not_open(f, call_bb):
    """the call is dominated by the `None` edge of a switch on an Option that derives from
    `<doc_state lock>.get(url)`"""
    cfg = Cfg(f)
    pv = Prov(f)
    maybe = False
    for bi, b in enumerate(f.blocks):
        t = b["t"]
        if t["k"] != "switch":
            continue
        none_blk = None
        for v, x in t["targets"]:
            if v == "0":
                none_blk = x
        if none_blk is None and [v for v, _ in t["targets"]] == ["1"]:
            none_blk = t.get("otherwise")      # `if let Some(..) = opt { .. } else { .. }`: everything but Some
        if none_blk is None or not cfg.dominates(none_blk, call_bb) or len(cfg.pred[none_blk]) != 1:
            continue
        org = pv.trace_operand(t["discr"])
        for o in org:
            if o[0] != "discr":
                continue
            roots = _roots_of(f, pv, o[1])
            for r in roots:
                if r[0] == "call" and method(f.blocks[r[1]]["t"]) == "get" and "doc_state" in _lock_chain(f, pv, f.blocks[r[1]]["t"]["args"][0]):
                    # between get(url) and the test nothing may turn Some into None: "not open" must mean "no entry"
                    lossy = sorted({method(f.blocks[x[1]]["t"]) for x in roots if x[0] == "call"} & LOSSY_OPT)
                    return ("lossy", lossy) if lossy else True
            # the look-up may sit in an async helper that did not exist on the reference tree
            # (`self.open_document_text(url).await`): look into its body
            for r in roots:
                if r[0] != "call":
                    continue
                body = new_async_helper(facts.load(), f.blocks[r[1]]["t"])
                if body is None:
                    if _scrutinee_is_option(f, pv, t["discr"]) and (inst_of(f.blocks[r[1]]["t"]) or "").startswith("harper_ls::") and not (inst_of(f.blocks[r[1]]["t"]) or "").endswith(("::update_document", "::update_document_from_file")):
                        maybe = True
                    continue
                bv = Prov(body)
                gets = [(b2, t2) for b2, t2 in body.calls() if method(t2) == "get" and "doc_state" in _lock_chain(body, bv, t2["args"][0])]
                lossy = sorted({method(t2) for _, t2 in body.calls()} & LOSSY_OPT)
                if len(gets) == 1 and not lossy:
                    return True
                if gets and lossy:
                    return ("lossy", lossy)
                maybe = True
    return "undecided" if maybe else False


def _roots_of(f, pv, origins, depth=0, seen=None):
    seen = set() if seen is None else seen
    out = set()
    for o in flatten(origins):
        if o in seen:
            continue
        seen.add(o)
        out.add(o)
        if o[0] == "call" and depth < 10:
            for a in f.blocks[o[1]]["t"]["args"]:
                out |= _roots_of(f, pv, pv.trace_operand(a), depth + 1, seen)
    return out


def _order(ck, p):
    rule = "R-C09-order"
    f = p.fns.get("harper_ls::backend::{impl#0}::update_document::{closure#0}")
    if not ck.anchor(rule, "Backend::update_document", f):
        return
    ck.saw(f)
    cfg = Cfg(f)
    pv = Prov(f)
    locks = [(bi, t) for bi, t in f.calls() if inst_of(t).endswith("mutex::{impl}::lock") and "doc_state" in arg_fields(pv, t["args"][0])]
    if len(locks) != 1:
        ck.refuted(rule, "Backend::update_document:lock", f.span, "expected exactly one doc_state.lock(), found %d" % len(locks))
        return
    lb, lt = locks[0]
    lock_polls = awaited(f, lb)
    polls = [(bi, t) for bi, t in f.calls() if def_of(t).endswith("future::Future::poll")]
    before = [(bi, t) for bi, t in polls if bi not in lock_polls and not cfg.dominates(lb, bi)]
    # version guard?
    reads_version = any("version" in str(s) for b in f.blocks for s in b["s"])
    if before and not reads_version:
        names = sorted({re.sub(r"::\{closure#0\}$", "", inst_of(t)) for _, t in before})
        ck.refuted(rule, "Backend::update_document", f.loc(lt["ln"]),
                   "await points precede the doc_state lock (%s) and the store is not guarded by the notification's version: two didChange handlers in flight can store in the opposite order of their arrival, leaving the older text as the server's last word" % ", ".join(names),
                   {"awaits_before_lock": names})
    else:
        ck.proved(rule, "Backend::update_document", f.loc(lt["ln"]), "no await point other than the doc_state lock precedes the store (or the store is version-guarded)")
    # a refresh refreshes: once the lock is held, every path to a return stores a freshly built Document
    # or removes the state (no shortcut that keeps a Document parsed under an older configuration)
    lock_ready = [b for b in lock_polls]
    stores = []
    for bi, b in enumerate(f.blocks):
        if b["cleanup"]:
            continue
        for s in b["s"]:
            if s["k"] == "assign" and len(s["lhs"]) > 1 and isinstance(s["lhs"][-1], list) and s["lhs"][-1][0] == "f" and s["lhs"][-1][2] == "document":
                src = arg_roots(f, pv, s["rv"]["op"]) if s["rv"]["k"] == "use" else set()
                if any(o[0] == "call" and (o[3] or "").startswith("harper_core::document::") and last(norm(o[3] or "")).startswith("new") for o in src):
                    stores.append(bi)
    removes = [bi for bi, t in f.calls() if method(t) == "remove" and "doc_state" in _lock_chain(f, pv, t["args"][0])]
    # success returns only: a path that produces Err (`?`) reports the failure instead
    oks = [bi for bi, b in enumerate(f.blocks) if not b["cleanup"] and any(
        s["k"] == "assign" and s["lhs"] == [0] and s["rv"]["k"] == "agg" and s["rv"].get("vname") == "Ok" for s in b["s"])]
    ok, wit = (False, None)
    if lock_ready and (stores or removes) and oks:
        ok, wit = cfg.every_path_passes(lock_ready[0], set(stores) | set(removes), to=oks)
    ck.decide("R-C09-publish", "Backend::update_document:always-stores", ok, f.span,
              "after the doc_state lock every path to an Ok return (%d) assigns doc_state.document = Document::new(..) (%d site(s)) or removes the state (%d site(s)): %s%s" % (
                  len(oks), len(stores), len(removes), ok, "" if ok else " — a path keeps the old Document: %s" % wit))
    # did_open / did_change reach the store only through update_document (no await before calling it)
    for name in ("did_open", "did_change"):
        h = handler(p, name)
        if h is None:
            continue
        hc = Cfg(h)
        ups = [(bi, t) for bi, t in h.calls() if inst_of(t) in UPDATES]
        polls = [(bi, t) for bi, t in h.calls() if def_of(t).endswith("future::Future::poll")]
        early = [bi for bi, t in polls if ups and not hc.dominates(ups[0][0], bi)]
        ck.decide(rule, "Backend::%s:entry" % name, not early, h.span, "no await point before update_document is entered: %s" % (not early))


def _close(ck, p):
    rule = "R-C09-close"
    top = p.fns.get("harper_ls::backend::{impl#0}::update_document::{closure#0}")
    if not ck.anchor(rule, "Backend::update_document", top):
        return
    # the literal that creates a document's state: in the or_insert_with closure, or (Entry::Vacant form, a
    # helper spliced in by A0) in the body of update_document itself
    c, agg = None, []
    for body in with_closures(p, top):
        a2 = [sx for b in body.blocks if not b["cleanup"] for sx in b["s"] if sx["k"] == "assign" and sx["rv"]["k"] == "agg" and sx["rv"].get("name", "").endswith("DocumentState") and "language_id" in (sx["rv"].get("fields") or [])]
        if a2:
            c, agg = body, agg + a2
    if not ck.anchor(rule, "Backend::update_document:state-creating literal", c):
        return
    ck.saw(c)
    pv = Prov(c)
    if len(agg) != 1:
        ck.undecided(rule, "update_document:created-language-id", c.span, "%d DocumentState literals with a language_id field under update_document: which one creates the state is not decided" % len(agg))
        return
    fields = dict(zip(agg[0]["rv"]["fields"], agg[0]["rv"]["ops"]))
    roots = arg_roots(c, pv, fields["language_id"])
    calls = sorted({last(norm(o[3] or o[2] or "")) for o in roots if o[0] == "call"})
    ups = [o for o in roots if o[0] in ("upvar", "arg", "field")]
    other = [n for n in calls if n not in ("map", "to_string", "to_owned", "into", "from", "clone", "cloned", "copied", "as_deref", "as_ref", "deref")]
    ok = not other and bool(ups)
    ck.decide(rule, "update_document:created-language-id", ok, c.loc(agg[0]["ln"]),
              "the language id of a newly created state comes from the handler parameter through %s only: %s%s" % (calls, ok, "" if ok else " - %s can supply a language id that no didOpen gave, so a handler that runs after didClose (a parked didChange/didSave, a command naming the closed file) re-creates a live state and publishes diagnostics for a closed document" % other))
    # who passes a language id?
    bad = []
    n = 0
    for f in p.fns.values():
        if not f.name.startswith("harper_ls::backend::"):
            continue
        fpv = None
        for bi, t in f.calls():
            i = inst_of(t)
            if not (i.endswith("::update_document") or i.endswith("::update_document_from_file")):
                continue
            n += 1
            fpv = fpv or Prov(f)
            a = t["args"][-1]
            if "::did_open::" in f.name:
                continue
            is_none = False
            pl = place_of(a)
            if pl and len(pl) == 1:
                ds = [x for (b2, si, k, x) in fpv.defs.get(pl[0], []) if k == "assign"]
                is_none = len(ds) == 1 and ds[0]["rv"]["k"] == "agg" and ds[0]["rv"].get("vname") == "None"
            own_param = f.name.endswith("::update_document_from_file::{closure#0}") and any(o[0] in ("arg", "upvar", "field") for o in flatten(fpv.trace_operand(a)))
            if not (is_none or own_param):
                bad.append((keyname(p, f), f.loc(t["ln"])))
    ck.floor(rule, "callers of update_document / update_document_from_file", n, 3)
    ck.decide(rule, "update_document:who-supplies-language-id", not bad, "", "every caller other than did_open passes None or hands on its own parameter: %s%s" % (not bad, "" if not bad else " (offending: %s)" % bad))


# ---------------------------------------------------------------------------------------------------
def _reads_copy(p, c, depth=0):
    """does this function (or a closure it creates) read the server's copy of a document's text?"""
    for h in with_closures(p, c):
        for _, t in h.calls():
            if method(t) in ("get_full_string", "get_full_content", "get_source"):
                return True
    return False


def _fresh(ck, p):
    rule = "R-C09-fresh"
    target = B0 + "update_document"
    sites = []
    for f in p.fns.values():
        if not f.name.startswith("harper_ls::"):
            continue
        for bi, t in f.calls():
            if inst_of(t) == target:
                sites.append((f, bi, t))
    ck.floor(rule, "callers of update_document", len(sites), 2)
    for f, bi, t in sorted(sites, key=lambda x: x[0].name):
        ck.saw(f)
        cfg = Cfg(f)
        pv = Prov(f)
        key = "%s:update_document" % keyname(p, f).replace("::{closure}", "")
        loops = [body for body in cfg.natural_loops().values() if bi in body]
        reads = []
        for o in arg_roots(f, pv, t["args"][2]):
            if o[0] != "call":
                continue
            ct = f.blocks[o[1]]["t"]
            direct = method(ct) in ("get_full_string", "get_full_content", "get_source")
            via = False
            for a in ct["args"]:
                for x in pv.trace_operand(a):
                    if x[0] == "agg" and x[1] == "closure" and x[2] in p.fns and _reads_copy(p, p.fns[x[2]]):
                        via = True
            if direct or via:
                reads.append((o[1], ct))
        stale = [(rb, ct) for rb, ct in reads if any(rb not in body for body in loops)]
        if stale:
            rb, ct = stale[0]
            ck.refuted(rule, key, f.loc(t["ln"]), "update_document is called inside a loop with a text that was read from the server's copy before the loop (%s at line %d): every iteration awaits (configuration round trip, document lock), so an edit handled while an earlier document is processed is overwritten with the older text and its diagnostics are published last" % (method(ct), ct["ln"]))
        elif reads:
            ck.proved(rule, key, f.loc(t["ln"]), "the server's copy is read (%s) in the same pass that hands it to update_document%s" % (method(reads[0][1]), "" if not loops else ", inside the same loop iteration"))
        else:
            ck.proved(rule, key, f.loc(t["ln"]), "text does not come from the server's copy (notification text or file read)")


# ---------------------------------------------------------------------------------------------------
# the table of per-document state (Backend.doc_state): who addresses it with what, who takes entries out
DOCMAP_KEYED = {"get", "get_mut", "entry", "remove", "remove_entry", "insert", "contains_key", "get_key_value"}
DOCMAP_LOSSY = {"to_lowercase", "to_ascii_lowercase", "to_uppercase", "to_ascii_uppercase", "make_ascii_lowercase", "make_ascii_uppercase",
                "trim", "trim_end", "trim_start", "trim_matches", "trim_end_matches", "trim_start_matches", "path", "to_file_path", "host_str", "set_fragment",
                "set_query", "set_path", "join", "canonicalize", "replace", "replacen", "truncate", "split", "rsplit", "split_once", "rsplit_once",
                "strip_prefix", "strip_suffix", "file_name", "file_stem", "with_extension", "parent", "to_lossy", "to_string_lossy", "from_utf8_lossy"}
DOCMAP_PASS = {"clone", "borrow", "borrow_mut", "deref", "deref_mut", "as_ref", "as_mut", "parse", "next", "iter", "map", "unwrap", "expect", "ok", "from", "into",
               "to_owned", "get_context", "branch", "from_residual", "ok_or", "ok_or_else", "map_err", "and_then", "as_str", "to_string", "try_from", "try_into", "cloned",
               "get", "first", "into_iter", "unwrap_or_default", "from_str", "deserialize", "from_value", "as_deref", "take", "poll", "into_future", "new_unchecked", "lock",
               "read", "write", "collect", "nth", "last", "peekable", "peek", "pop", "remove", "swap_remove", "drain", "values", "keys", "lock_owned", "maybe_done", "take_output"}


def docmap_sites(p):
    """(fn, bb, call terminator, method) for every method call whose receiver is the HashMap<Url, DocumentState>"""
    out = []
    for f in sorted(p.fns.values(), key=lambda g: g.name):
        if not f.name.startswith("harper_ls::"):
            continue
        for bi, t in f.calls():
            if not t["args"]:
                continue
            pl = place_of(t["args"][0])
            ty = f.local_tystr(pl[0]) if pl else ""
            if "HashMap<" in ty and "DocumentState" in ty and "Mutex" not in ty.split("HashMap<")[0]:
                out.append((f, bi, t, method(t)))
    return out


def docmap_keys(ck, p, rule):
    """C08: each open document has its own entry - the table is addressed by the URI as the client sent it"""
    n = 0
    k = {}
    for f, bi, t, m in docmap_sites(p):
        if m not in DOCMAP_KEYED or len(t["args"]) < 2:
            continue
        n += 1
        ck.saw(f)
        pv = Prov(f)
        base = "%s:%s" % (keyname(p, f), m)
        k[base] = k.get(base, 0) + 1
        key = base if k[base] == 1 else "%s#%d" % (base, k[base])
        names = sorted({last(norm(o[3] or o[2] or "")) for o in arg_roots(f, pv, t["args"][1]) if o[0] == "call"})
        lossy = [x for x in names if x in DOCMAP_LOSSY]
        other = [x for x in names if x not in DOCMAP_PASS and x not in DOCMAP_LOSSY and not x.startswith("{closure")]
        if lossy:
            ck.refuted(rule, key, f.loc(t["ln"]), "the table of open documents is addressed with a key that went through %s: two different URIs (two open documents) can be mapped to one entry, and then share text, diagnostics, code actions and the URI that edits are addressed to" % ", ".join(lossy))
        elif other:
            ck.undecided(rule, key, f.loc(t["ln"]), "the key of this access is computed through %s: whether it is still one key per URI is not decided" % ", ".join(other[:4]))
        else:
            ck.proved(rule, key, f.loc(t["ln"]), "keyed by the request's URI through copying conversions only")
    ck.floor(rule, "keyed accesses to the table of open documents", n, 4)


def docmap_lifetime(ck, p, rule):
    """C14: the per-document state (it owns the ignored lints) lives as long as the document is open: no
    function takes an entry out of the table and then builds the state for the same document anew"""
    n = 0
    k = {}
    for f, bi, t, m in docmap_sites(p):
        if m not in ("remove", "remove_entry", "clear", "drain", "insert"):
            continue
        n += 1
        ck.saw(f)
        cfg = Cfg(f)
        base = "%s:%s" % (keyname(p, f), m)
        k[base] = k.get(base, 0) + 1
        key = base if k[base] == 1 else "%s#%d" % (base, k[base])
        after = cfg.reachable_from(cfg.succ[bi])
        rebuild = []
        for b2, t2 in f.calls():
            if b2 in after and b2 != bi:
                nm = last(norm(inst_of(t2) or def_of(t2) or ""))
                if nm in ("update_document", "update_document_from_file", "refresh_document") or (method(t2) in ("entry", "insert") and any(x[1] == b2 for x in docmap_sites_in(p, f))):
                    rebuild.append("%s (%s)" % (nm or method(t2), f.loc(t2["ln"])))
        if m == "insert":
            ck.undecided(rule, key, f.loc(t["ln"]), "an entry of the table of open documents is overwritten; whether the state it replaces (ignored lints) is carried over is not decided")
        elif rebuild:
            ck.refuted(rule, key, f.loc(t["ln"]), "the document's state is taken out of the table and then built anew for the same document (%s): the new DocumentState starts with an empty ignore list, so every lint the user had ignored in this document is reported again although its text has not changed" % ", ".join(rebuild[:2]))
        else:
            ck.proved(rule, key, f.loc(t["ln"]), "the entry is taken out and nothing on the way out rebuilds it: the document's state ends here")
    ck.floor(rule, "removals from the table of open documents", n, 2)


def docmap_sites_in(p, f):
    return [(g, b, t, m) for (g, b, t, m) in docmap_sites(p) if g is f]


# ---------------------------------------------------------------------------------------------------
def _newest_change(ck, p):
    """A didChange can carry several content changes; they are successive states of the document, so the
    newest text is the LAST entry.  Ordinary clients send one entry, where first and last coincide."""
    rule = "R-C09-newest"
    ck.rule(rule, "did_change hands update_document the text of the last entry of params.content_changes (last / rev / rfind / pop ...): the entries of one notification are successive states of the document, and a search from the front (first, find, iter().next(), [0]) picks an older one whenever a client batches its changes")
    h = handler(p, "did_change")
    if not ck.anchor(rule, "Backend::did_change", h):
        return
    ck.saw(h)
    pv = Prov(h)
    ups = [(bi, t) for bi, t in h.calls() if inst_of(t) in UPDATES]
    if not ups:
        ck.undecided(rule, "Backend::did_change:newest", h.span, "no call of update_document in did_change")
        return
    bi, t = ups[0]
    text = t["args"][2] if len(t["args"]) > 2 else None
    roots = arg_roots(h, pv, text) if text else set()
    names = {last(norm(o[3] or o[2] or "")) for o in roots if o[0] == "call"}
    fields = arg_fields(pv, text) if text else set()
    # closures on the way (find(|c| ..)) do not matter; the direction of the search does
    back = names & {"last", "rfind", "next_back", "pop", "rev", "rposition", "split_last", "last_mut"}
    front = names & {"first", "find", "next", "nth", "position", "find_map", "split_first", "get", "index", "swap_remove", "remove"}
    key = "Backend::did_change:newest"
    from_cc = "content_changes" in fields or any(o[0] == "call" and any("content_changes" in arg_fields(pv, a) for a in h.blocks[o[1]]["t"]["args"]) for o in roots)
    if not from_cc:
        ck.undecided(rule, key, h.loc(t["ln"]), "the text handed to update_document is not traced to params.content_changes")
    elif back:
        ck.proved(rule, key, h.loc(t["ln"]), "the text comes from the end of content_changes (%s)" % ", ".join(sorted(back)))
    elif front:
        ck.refuted(rule, key, h.loc(t["ln"]), "the text handed to update_document is picked from the FRONT of params.content_changes (%s): when a client sends several content changes in one didChange - successive states of the document - the server lints an older state, and the diagnostics it publishes last are not those of the newest text" % ", ".join(sorted(front)))
    else:
        ck.undecided(rule, key, h.loc(t["ln"]), "which entry of content_changes is used is not of a recognised form (%s)" % sorted(names)[:6])
