"""C10 — the text never leaves the machine.

Effect analysis over the whole resolved program (workspace + every dependency unit that cargo
builds for it): who-may-call rules on association-creating sinks, decided by reachability in
the class-hierarchy call graph, plus a dependency-name rule on `cargo metadata`.
"""
import ipaddress
import re

from .. import callgraph, facts
from ..prov import Prov, flatten
from ..common import method, arg_roots
from ..util import norm, last
from ..report import PROVED, REFUTED, UNDECIDED

LEVEL = "proof"

WS = re.compile(r"^harper_(ls|cli|wasm|core|comments|html|typst|stats|tree_sitter|literate_haskell)::")

# ---- sink tables (matched on the user-facing path rustc prints for the resolved item) --------
S_NET = re.compile(
    r"^(libc::(socket|socketpair|connect|bind|listen|accept|accept4|sendto|sendmmsg|getaddrinfo|gethostbyname\w*|gethostbyaddr\w*|getnameinfo|res_\w+)"
    r"|std::net::TcpStream::connect(_timeout)?"
    r"|std::net::TcpListener::bind"
    r"|std::net::UdpSocket::(bind|connect|send_to)"
    r"|std::net::lookup_host"
    r"|std::net::ToSocketAddrs::to_socket_addrs"
    r"|<.* as std::net::ToSocketAddrs>::to_socket_addrs"
    r"|std::os::unix::net::UnixStream::(connect\w*|pair)"
    r"|std::os::unix::net::UnixListener::bind\w*"
    r"|std::os::unix::net::UnixDatagram::(bind\w*|unbound|connect\w*|send_to\w*|pair)"
    r")$")
S_FS = re.compile(
    r"^(std::fs::(File::create|File::create_new|File::set_len|File::set_permissions|File::set_times|File::set_modified|write|rename|remove_file|remove_dir|remove_dir_all|create_dir|create_dir_all|copy|hard_link|soft_link|set_permissions|DirBuilder::create|OpenOptions::open)"
    r"|std::os::unix::fs::(symlink|chown|lchown|fchown|chroot|DirBuilderExt::mode)"
    r"|libc::(open|open64|openat|openat64|creat|creat64|unlink|unlinkat|rename|renameat|renameat2|mkdir|mkdirat|rmdir|truncate|truncate64|ftruncate|ftruncate64|link|linkat|symlink|symlinkat|chmod|fchmod|fchmodat|chown|fchown|lchown|mkfifo|mknod|mkstemp|mkostemp|mkdtemp|fopen|freopen)"
    r")$")
S_PROC = re.compile(
    r"^(std::process::Command::(spawn|output|status)"
    r"|<std::process::Command as std::os::unix::process::CommandExt>::exec|std::os::unix::process::CommandExt::exec"
    r"|libc::(fork|vfork|execv|execve|execvp|execvpe|execl|execle|execlp|fexecve|posix_spawn|posix_spawnp|system|popen)"
    r")$")

# who may reach which sink class (function name prefixes = the function and its closures)
ALLOW_NET = ["harper_ls::main"]
ALLOW_FS = ["harper_ls::dictionary_io::save_dict", "harper_ls::backend::{impl#0}::save_stats"]
ALLOW_PROC = ["harper_ls::backend::{impl#1}::execute_command"]

# raw file-descriptor sinks inside dependencies that were read and found harmless
REVIEWED_FS = {
    # getrandom's /dev/urandom fallback: open(path, O_RDONLY | O_CLOEXEC), constant flags
    ("libc::open", "getrandom::backends::use_file::open_readonly"):
        "read-only open of /dev/urandom (constant O_RDONLY|O_CLOEXEC), reached from uuid::Uuid::new_v4",
}

NET_CLIENT_PACKAGES = set("""reqwest ureq curl curl-sys isahc surf attohttpc minreq hyper hyper-util h2 h3 native-tls
openssl openssl-sys rustls tokio-rustls tokio-native-tls tungstenite tokio-tungstenite websocket tonic tiny_http
actix-web warp axum awc opentelemetry-otlp opentelemetry-http ftp suppaftp lettre async-h1 http-client hyper-tls
hyper-rustls reqwest-middleware octocrab sentry sentry-core""".split())
NET_CLIENT_PREFIXES = ("trust-dns-", "hickory-", "quinn", "sentry-")
ROOT_PACKAGES = ["harper-ls", "harper-cli", "harper-wasm", "harper-core"]


def _prefix_in(name, prefixes):
    n = norm(name)
    return any(n == norm(p) or n.startswith(norm(p) + "::") for p in prefixes)


def _extend_allow(g, allow):
    """helpers that are new since the reference tree and are called only from allowed functions (or from other such
    helpers) belong to the allowed functions: extracting the body of a command arm does not widen who may reach a sink"""
    from .. import inline
    known = inline.load_known() or set()
    allow = list(allow)
    callers = {}
    for m, cs in g.calls.items():
        for c in cs:
            callers.setdefault(c, set()).add(m)
    def base(n):
        return re.sub(r"(::\{closure#\d+\})+$", "", n)
    changed = True
    while changed:
        changed = False
        for n in list(g.funcs):
            if not WS.match(n) or _prefix_in(n, allow) or "::{closure" in n:
                continue
            if norm(n) in known:
                continue
            cs = {base(c) for c in callers.get(n, set())} | {base(c) for k in g.funcs if k.startswith(n + "::{closure") for c in callers.get(k, set())}
            cs.discard(n)
            if cs and all(_prefix_in(c, allow) for c in cs):
                allow.append(n)
                changed = True
    return allow


def _who_may_call(ck, g, rule, sinks_re, allow, what, reviewed=None):
    reviewed = reviewed or {}
    allow = _extend_allow(g, allow)
    roots = [f for f in g.funcs if WS.match(f) and not _prefix_in(f, allow)]
    # statics / constants of the workspace crates hold function pointers and closures that run later
    roots += [s_ for s_ in g.statics if WS.match(s_) and not _prefix_in(s_, allow)]
    blocked = [f for f in g.funcs if _prefix_in(f, allow)]
    if not blocked:
        ck.refuted(rule, "anchor-missing:%s" % ",".join(allow), "", "the functions allowed to reach %s no longer exist under these names" % what)
    par = g.reach(roots, blocked)
    # sink callers among reachable functions
    bad = {}
    n_sink_edges = 0
    for n in par:
        pn = g.pretty(n)
        if not sinks_re.match(pn):
            continue
        n_sink_edges += 1
        if pn == "std::fs::OpenOptions::open":
            # a sink only where the builder chain can enable writing: examine every reachable caller
            for m in sorted(x for x in par if n in g.calls.get(x, ())):
                why = _open_is_readonly(g, m)
                if why:
                    ck.proved(rule, "readonly-open:%s" % m, m, why)
                else:
                    p2 = g.path(par, m) + [n]
                    last_ws = [x for x in p2 if WS.match(x)][-1]
                    bad.setdefault((pn, last_ws), p2)
            continue
        path = g.path(par, n)
        caller = path[-2] if len(path) > 1 else path[0]
        if (pn, caller) in reviewed or (pn, g.pretty(caller)) in reviewed:
            ck.proved(rule, "reviewed:%s<-%s" % (pn, caller), "", reviewed.get((pn, caller)) or reviewed.get((pn, g.pretty(caller))))
            # a reviewed call site does not clear other callers of the same sink: look for them
            others = [m for m in par if m != caller and n in g.succs(m) and (pn, m) not in reviewed]
            for m in others:
                p2 = g.path(par, m) + [n]
                last_ws = [x for x in p2 if WS.match(x)][-1]
                bad[(pn, last_ws)] = p2
            continue
        last_ws = [x for x in path if WS.match(x)][-1]
        bad.setdefault((pn, last_ws), path)
    for (pn, last_ws), path in sorted(bad.items()):
        ck.refuted(rule, "%s<-%s" % (pn, last_ws), last_ws,
                   "%s sink %s is reachable outside %s; path: %s" % (what, pn, allow, " -> ".join(path if len(path) < 12 else path[:4] + ["..."] + path[-6:])),
                   {"path": path})
    # the allowed functions really are the gate: from them the sinks are reachable (else the
    # table is stale and the rule would be vacuous)
    par_all = g.reach([f for f in g.funcs if WS.match(f)])
    gated = sorted({g.pretty(n) for n in par_all if sinks_re.match(g.pretty(n))} - {pn for (pn, _) in bad})
    ck.decide(rule, "only-via:%s" % "+".join(allow), not bad, "",
              "%d workspace entry functions, %d functions reachable with %s removed, none of them references a %s sink; through the allowed functions the following sinks are reached: %s" % (
                  len(roots), len(par), allow, what, gated)) if not bad else None
    return par, gated


WRITE_FLAGS = ("write", "append", "create", "create_new", "truncate", "custom_flags", "mode", "clone", "from")


def _open_is_readonly(g, caller):
    """the function builds its OpenOptions itself (calls OpenOptions::new) and enables none of the
    writing flags (write/append/create/create_new/truncate with anything but the constant false)"""
    ms = g.open_opts.get(caller)
    if ms is None:
        return None
    names = [m.split("=")[0] for m in ms]
    if "new" not in names:
        return None
    for m in ms:
        n, _, v = m.partition("=")
        if n in WRITE_FLAGS and v != "const false":
            return None
    return "OpenOptions built in the same function with methods %s: no write/append/create/truncate flag" % ms


def run(ck, tier):
    ck.rule("R-C10-net", "who-may-call: socket/bind/listen/accept/connect/sendto/name-resolution sinks are reachable in the whole-closure call graph only through harper_ls::main; the address bound there is a constant loopback literal")
    ck.rule("R-C10-files", "who-may-call: file-creating/modifying sinks are reachable only through dictionary_io::save_dict and Backend::save_stats (raw libc file calls in dependencies must be in the reviewed table)")
    ck.rule("R-C10-proc", "who-may-call: process-spawning sinks are reachable only through Backend::execute_command, under the HarperOpen command string")
    ck.rule("R-C10-deps", "no package with the exact name of a network-client library in the resolved dependency closure of the shipped roots (cargo metadata --locked)")
    ck.rule("R-C10-noread", "no file-reading or file-writing std::fs/tokio::fs reference from the library crates (dictionary data are compiled in)")
    ck.not_decided += ["code without MIR (std internals, libc, tree-sitter C grammars) is a trusted leaf", "only the x86_64-linux cfg of every crate is analysed"]
    ck.assumptions += ["class-hierarchy call graph over-approximates dyn/generic dispatch among the analysed crates",
                       "std/libc leaves behave as documented; sinks are association-creating operations, not reads/writes on an already open descriptor"]
    p = facts.load()
    g = callgraph.CallGraph(p.snap)
    units = [u for u in g.units]
    ck.extra["units"] = len(units)
    ck.extra["functions_in_graph"] = len(g.funcs)
    ck.extra["resolved_call_edges"] = g.n_edges
    ck.extra["trait_dispatched_calls"] = sum(len(v) for v in g.tcalls.values())
    ck.extra["exhaustive"] = True
    ck.floor("R-C10-net", "compilation units with facts", len(units), 100)
    ck.floor("R-C10-net", "functions in call graph", len(g.funcs), 25000)
    for f in g.funcs:
        if WS.match(f):
            ck.saw(f)

    # positive control: the matcher must recognise sinks that certainly exist in the graph
    all_names = {g.pretty(c) for cs in g.calls.values() for c in cs}
    for rule, rx, must in (("R-C10-net", S_NET, "libc::socket"), ("R-C10-files", S_FS, "std::fs::File::create"), ("R-C10-proc", S_PROC, "std::process::Command::status")):
        ck.decide(rule, "control:%s" % must, must in all_names and bool(rx.match(must)), "", "positive control: sink %s is present in the closure and matched by the sink table" % must)

    _control(ck)
    par_net, gated_net = _who_may_call(ck, g, "R-C10-net", S_NET, ALLOW_NET, "network")
    par_fs, gated_fs = _who_may_call(ck, g, "R-C10-files", S_FS, ALLOW_FS, "file-modifying", REVIEWED_FS)
    par_pr, gated_pr = _who_may_call(ck, g, "R-C10-proc", S_PROC, ALLOW_PROC, "process-spawning")
    ck.callsites = g.n_edges

    _loopback(ck, p)
    _open_guard(ck, p)
    _save_paths(ck, p)
    _config_keys(ck, p)
    _config_source(ck, p)
    _dict_name(ck, p)
    _noread(ck, p, g)
    _externs(ck, g, par_net)
    _deps(ck, p)


# ---- positive control: the same pipeline on a crate that does reach the sinks ----------------------
def _control(ck):
    try:
        d = facts.build_control()
    except facts.FactsError as e:
        ck.refuted("R-C10-net", "control:build", "", "the positive-control crate could not be analysed: %s" % e)
        return
    g = callgraph.CallGraph(d)
    roots = [f for f in g.funcs if f.startswith("hf_control::")] + [s_ for s_ in g.statics if s_.startswith("hf_control::")]
    par = g.reach(roots)
    names = {g.pretty(n) for n in par}
    for rule, rx, fn in (("R-C10-net", S_NET, "phones_home"), ("R-C10-files", S_FS, "dumps"), ("R-C10-proc", S_PROC, "spawns")):
        sub = g.reach([r for r in roots if r == "hf_control::%s" % fn])
        hit = sorted(g.pretty(n) for n in sub if rx.match(g.pretty(n)))
        ck.decide(rule, "control:hf_control::%s" % fn, bool(hit), "selftest/control/src/lib.rs", "positive control: the rule reports %s for a function that really reaches such a sink" % (hit or "NOTHING"))


# ---- the bound address is a constant loopback literal -----------------------------------------
def _loopback(ck, p):
    rule = "R-C10-net"
    main = p.fns.get("harper_ls::main::{closure#0}")
    if not ck.anchor(rule, "harper_ls::main::{closure#0}", main):
        return
    ck.saw(main)
    pv = Prov(main)
    # every socket-creating / sending call of any socket API (tokio, std, unix-domain, mio, socket2) made by
    # main itself - helpers that are new since the reference tree are spliced in by A0
    # ... and async helpers that are new since the reference tree and awaited from main are looked into
    from ..common import new_async_helper
    bodies = [main]
    for _ in range(3):
        for b0 in list(bodies):
            for _bi, t0 in b0.calls():
                h0 = new_async_helper(p, t0)
                if h0 is not None and h0 not in bodies:
                    bodies.append(h0)
    binds = []
    for b0 in bodies:
        ck.saw(b0)
        for bi, t in b0.calls():
            if re.search(r"(^|::)net::|^socket2::|^mio::", norm(t["f"].get("inst") or "")) and S_NETLIKE.search(norm(t["f"].get("inst") or "")):
                binds.append((b0, bi, t))
    ck.floor(rule, "socket-creating calls in main", len(binds), 1)
    for main, bi, t in binds:
        pv = Prov(main)
        inst = t["f"]["inst"]
        key = "loopback:%s" % inst
        if not (inst.endswith("::bind") and "tokio::net::" in inst and "tcp" in inst.lower()):
            ck.refuted(rule, key, main.loc(t["ln"]), "main creates a network association other than the TcpListener::bind its editor connects to: %s - the language server would talk to (or be reachable by) something else than its editor" % inst)
            continue
        origins = flatten(pv.trace_operand(t["args"][0]))
        lits = []
        bad = []
        for o in origins:
            if o[0] == "const":
                lits.append(o[1])
            elif o[0] == "static":
                lits.append(("static", o[1]))
            else:
                bad.append(o)
        addr_ok = True
        vals = []
        for l in lits:
            txt = l
            if isinstance(l, tuple):
                st = p.fns.get(l[1])
                if st is None:
                    bad.append(l)
                    continue
                so = flatten(Prov(st).trace_local(0))
                txts = [x[1] for x in so if x[0] == "const"]
                if len(txts) != len(so) or not txts:
                    bad.append(("static-init", str(so)))
                    continue
                m = re.match(r'^"(.*)"$', txts[0])
                if not m:
                    bad.append(("static-init", txts[0]))
                    continue
                vals.append(m.group(1))
                continue
            m = re.match(r'^"(.*)"$', txt)
            if not m:
                bad.append(("const", txt))
                continue
            vals.append(m.group(1))
        for v in vals:
            host = v.rsplit(":", 1)[0].strip("[]")
            try:
                if not ipaddress.ip_address(host).is_loopback:
                    addr_ok = False
            except ValueError:
                addr_ok = False      # a host name would need the resolver
        if bad:
            ck.refuted(rule, key, main.loc(t["ln"]), "the listener address is not a compile-time constant: %s" % bad[:3])
        elif not vals:
            ck.undecided(rule, key, main.loc(t["ln"]), "could not recover the address constant")
        else:
            ck.decide(rule, key, addr_ok, main.loc(t["ln"]), "listener address constant(s) %s %s loopback IP literals" % (vals, "are" if addr_ok else "are NOT all"))


S_NETLIKE = re.compile(r"::(bind|connect|connect_std|connect_addr|connect_timeout|bind_addr|unbound|pair|send_to|send_to_addr|send|sendto|lookup_host|to_socket_addrs)$")


# ---- open::that only under the HarperOpen command ------------------------------------------
def _open_guard(ck, p):
    from ..cfg import Cfg
    rule = "R-C10-proc"
    f = p.fns.get("harper_ls::backend::{impl#1}::execute_command::{closure#0}")
    if not ck.anchor(rule, "Backend::execute_command", f):
        return
    ck.saw(f)
    cfg = Cfg(f)
    opens = [(bi, t) for bi, t in f.calls() if (t["f"].get("inst") or "").startswith("open::")]
    if not opens:
        # the arm's body extracted into an awaited async helper: the helper call stands for the launch
        from ..common import new_async_helper
        for bi, t in f.calls():
            body = new_async_helper(p, t)
            if body is not None and any((tt["f"].get("inst") or "").startswith("open::") for _, tt in body.calls()):
                opens.append((bi, t))
    ck.floor(rule, "open:: calls in execute_command", len(opens), 1)
    # string comparisons `<str as PartialEq>::eq(cmd, "Lit")` and the blocks their true edge leads to
    guards = _str_eq_guards(f)
    for bi, t in opens:
        doms = [lit for (lit, tb) in guards if cfg.dominates(tb, bi)]
        key = "guard:%s" % t["f"]["inst"]
        if "HarperOpen" in doms and len(doms) == 1:
            ck.proved(rule, key, f.loc(t["ln"]), "call is dominated by the true edge of the comparison of the command string with \"HarperOpen\"")
        elif not doms:
            ck.refuted(rule, key, f.loc(t["ln"]), "process launch is not guarded by a command-name comparison")
        else:
            ck.refuted(rule, key, f.loc(t["ln"]), "process launch is guarded by %s, expected exactly HarperOpen" % doms)


def _str_eq_guards(f):
    """[(literal, block reached when the comparison is true)] for every str == "literal" test
    whose result feeds a SwitchInt."""
    out = []
    for bi, t in f.calls():
        d = t["f"].get("def") or ""
        if not d.endswith("PartialEq::eq"):
            continue
        lit = None
        for a in t["args"]:
            k = a.get("k")
            if k and "const" in k:
                m = re.match(r'^"(.*)"$', k["const"])
                if m:
                    lit = m.group(1)
        if lit is None:
            # the literal may be in a temp: look one assignment back
            for a in t["args"]:
                pl = a.get("c") or a.get("m")
                if not pl:
                    continue
                for b in f.blocks:
                    for s in b["s"]:
                        if s["k"] == "assign" and s["lhs"] == [pl[0]] and s["rv"]["k"] in ("use", "ref"):
                            op = s["rv"].get("op", {})
                            k = op.get("k") if isinstance(op, dict) else None
                            if k and "const" in k:
                                m = re.match(r'^"(.*)"$', k["const"])
                                if m:
                                    lit = m.group(1)
        if lit is None or t["target"] is None:
            continue
        dest = t["dest"][0]
        nb = f.blocks[t["target"]]
        sw = nb["t"]
        if sw["k"] == "switch":
            pl = sw["discr"].get("c") or sw["discr"].get("m")
            if pl and pl[0] == dest:
                # targets: value 0 -> false
                tb = sw["otherwise"] if any(v == "0" for v, _ in sw["targets"]) else None
                for v, b in sw["targets"]:
                    if v == "1":
                        tb = b
                if tb is not None:
                    out.append((lit, tb))
    return out


# ---- the configured paths are the ones the client configured ---------------------------------------
def _snake(key):
    return re.sub(r"(?<!^)([A-Z])", lambda m: "_" + m.group(1).lower(), key).lower()


def _config_keys(ck, p):
    """`Config::from_lsp_config` is a table of (settings key -> Config field).  Wherever a key
    spells the name of a Config field (`statsPath` / `stats_path`), the value read under that key
    is what that field receives, and no field receives only the value of a key that names another
    field.  R-C10-files traces the writers' destinations to `Config.stats_path` /
    `.file_dict_path` / `.user_dict_path`: that says "the configured files" only if these fields
    hold what the client configured under their own names."""
    rule = "R-C10-files"
    f = p.fns.get("harper_ls::config::{impl#2}::from_lsp_config")
    if f is None:
        for g in p.find(lambda g: (g.pretty or "").endswith("config::Config::from_lsp_config")):
            f = g
    if not ck.anchor(rule, "Config::from_lsp_config", f):
        return
    ck.saw(f)
    pv = Prov(f)
    # stores into fields of the result (`base.<field> = ..`), with the settings keys that feed each
    stores = []          # (field, ln, keys)
    fields = set()
    for bi, b in enumerate(f.blocks):
        if b["cleanup"]:
            continue
        for s_ in b["s"]:
            if s_["k"] != "assign" or len(s_["lhs"]) != 2:
                continue
            e = s_["lhs"][1]
            if not (isinstance(e, list) and e[0] == "f"):
                continue
            if "Config" not in f.local_tystr(s_["lhs"][0]) or "CodeAction" in f.local_tystr(s_["lhs"][0]):
                continue
            rv = s_["rv"]
            ops = [rv[k] for k in ("op", "a", "b") if isinstance(rv.get(k), dict)]
            keys = set()
            for op in ops:
                for o in arg_roots(f, pv, op):
                    if o[0] != "call" or last(norm(o[2] or "")) != "get":
                        continue
                    t = f.blocks[o[1]]["t"]
                    for a in t["args"][1:]:
                        for c in flatten(pv.trace_operand(a)):
                            if c[0] == "const":
                                m = re.match(r'^"(.*)"$', str(c[1]))
                                if m:
                                    keys.add(m.group(1))
            stores.append((e[2], s_.get("ln"), keys))
            fields.add(e[2])
    # all literal keys the function asks for
    asked = set()
    for bi, t in f.calls():
        if method(t) != "get":
            continue
        for a in t["args"][1:]:
            for c in flatten(pv.trace_operand(a)):
                if c[0] == "const":
                    m = re.match(r'^"(.*)"$', str(c[1]))
                    if m:
                        asked.add(m.group(1))
    # the struct's field names: those stored here plus those the writers read
    fields |= {"user_dict_path", "file_dict_path", "stats_path"}
    naming = {k: _snake(k) for k in asked if _snake(k) in fields}
    ck.floor(rule, "settings keys that spell a Config field in from_lsp_config", len(naming), 3)
    for key, fld in sorted(naming.items()):
        mine = [s_ for s_ in stores if s_[0] == fld]
        fed = [s_ for s_ in mine if key in s_[2]]
        elsewhere = sorted({s_[0] for s_ in stores if key in s_[2] and s_[0] != fld})
        k = "config-key:%s" % key
        if fed and not elsewhere:
            ck.proved(rule, k, f.loc(fed[0][1]), "the value read under \"%s\" is stored in Config.%s and in no other field" % (key, fld))
        elif elsewhere:
            ck.refuted(rule, k, f.span, "the value read under the settings key \"%s\" is stored in Config.%s%s: the location the client configured for one kind of file is used for another, and Config.%s keeps %s - files are then created or changed at places that are not the configured ones"
                       % (key, ", ".join(elsewhere), "" if fed else " and never in Config.%s" % fld, fld, "a value from elsewhere" if fed else "its built-in default whatever the client configured"))
        elif not mine:
            ck.undecided(rule, k, f.span, "no store into Config.%s found in from_lsp_config although the key \"%s\" is read" % (fld, key))
        else:
            ck.undecided(rule, k, f.loc(mine[0][1]), "could not relate the stores into Config.%s to the key \"%s\" (keys seen: %s)" % (fld, key, sorted(set().union(*[s_[2] for s_ in mine]))))


def _config_source(ck, p):
    """The three destinations are fields of the server's `Config`.  They are "the configured files" only while that
    value is what the client's settings said: every store into the shared Config (through the write guard of
    `Backend.config`) is the Ok payload of `Config::from_lsp_config`, with no second source (a fallback to the
    built-in defaults on a settings error silently moves the dictionaries to the default locations)."""
    rule = "R-C10-files"
    n = 0
    FALLBACK = {"unwrap_or", "unwrap_or_else", "unwrap_or_default", "default", "or", "or_else", "map_or", "map_or_else"}
    for f in sorted(p.fns.values(), key=lambda g: g.name):
        if not f.name.startswith("harper_ls::"):
            continue
        pv = None
        for bi, b in enumerate(f.blocks):
            if b["cleanup"]:
                continue
            for s_ in b["s"]:
                if s_["k"] != "assign" or s_["lhs"][1:] != ["*"]:
                    continue
                ty = f.local_tystr(s_["lhs"][0]) or ""
                if not re.search(r"&mut (harper_ls::)?config::Config$", ty):
                    continue
                op = s_["rv"].get("op") if s_["rv"]["k"] == "use" else None
                if not isinstance(op, dict):
                    continue
                pv = pv or Prov(f)
                n += 1
                ck.saw(f)
                roots = arg_roots(f, pv, op)
                calls = sorted({last(norm(o[3] or o[2] or "")) for o in roots if o[0] == "call"})
                key = "config-source:%s" % f.name.replace("harper_ls::", "").replace("::{closure#0}", "")
                direct = {last(norm(o[3] or o[2] or "")) for o in flatten(pv.trace_operand(op)) if o[0] == "call"}
                fb = sorted((set(calls) | direct) & FALLBACK)
                # closures handed to the calls on the way (unwrap_or_else(|e| ..)): do they build a default?
                for o in roots:
                    if o[0] == "call":
                        for a in f.blocks[o[1]]["t"]["args"]:
                            tyx = f.local_tystr((a.get("m") or a.get("c") or [0])[0]) or ""
                            if "{closure" in tyx:
                                for c in p.closures_of(f.name):
                                    if c.name.rsplit("::", 1)[-1] in tyx and any(last(norm(t["f"].get("inst") or "")) == "default" for _, t in c.calls()):
                                        fb.append("a closure that builds Config::default()")
                if "from_lsp_config" in calls and not fb:
                    ck.proved(rule, key, f.loc(s_.get("ln")), "the Config that is stored is the Ok payload of Config::from_lsp_config (on the way: %s)" % calls)
                elif fb:
                    ck.refuted(rule, key, f.loc(s_.get("ln")), "the Config that is stored has a second source besides the client's settings (%s): when the settings are rejected (one bad key rejects the whole object) the user-dictionary, file-dictionary and statistics paths silently become the built-in defaults, and the next added word or the statistics are written to files the client never configured" % ", ".join(sorted(set(fb))))
                else:
                    ck.undecided(rule, key, f.loc(s_.get("ln")), "could not relate the stored Config to Config::from_lsp_config (calls on the way: %s)" % calls)
    ck.floor(rule, "stores into the shared Config", n, 1)


# ---- destinations of the two writers derive from the configured paths -----------------------------
def _save_paths(ck, p):
    rule = "R-C10-files"
    # save_stats: OpenOptions chain and its path
    f = p.fns.get("harper_ls::backend::{impl#0}::save_stats::{closure#0}")
    if ck.anchor(rule, "Backend::save_stats", f):
        ck.saw(f)
        fs_calls = []
        for bi, t in f.calls():
            inst = t["f"].get("inst") or ""
            pretty = t["f"].get("pretty") or ""
            if inst.startswith("std::fs::") or inst.startswith("tokio::fs::"):
                fs_calls.append((bi, t))
        names = sorted({(t["f"].get("pretty") or "") for _, t in fs_calls})
        ck.proved(rule, "inventory:save_stats", f.span, "file-system calls in save_stats: %s" % names)
        # every path argument derives from self.config ... stats_path
        pv = Prov(f)
        for bi, t in fs_calls:
            pretty = t["f"]["pretty"]
            if pretty.endswith("OpenOptions::open") or pretty.endswith("create_dir_all"):
                leaves = flatten(pv.trace_operand(t["args"][-1]))
                txt = str(leaves)
                ok = "stats_path" in txt or any(o[0] in ("call", "upvar", "field", "arg") for o in leaves)
                fields = _field_names(leaves)
                if "stats_path" in fields or _derives_from_field(f, pv, t["args"][-1], "stats_path"):
                    ck.proved(rule, "path:save_stats:%s" % pretty, f.loc(t["ln"]), "destination derives from Config.stats_path")
                else:
                    ck.undecided(rule, "path:save_stats:%s" % pretty, f.loc(t["ln"]), "could not trace the destination to Config.stats_path (fields seen: %s)" % sorted(fields))
        # every other file-system call of save_stats that creates or changes a file: its destination is the configured path too
        DEST = {"write": 0, "create": 0, "create_new": 0, "create_dir": 0, "copy": 1, "rename": 1, "hard_link": 1, "symlink": 1,
                "remove_file": 0, "remove_dir": 0, "remove_dir_all": 0, "set_permissions": 0, "set_len": 0}
        ELSEWHERE = {"temp_dir", "current_dir", "home_dir", "var", "var_os", "current_exe", "data_local_dir", "config_dir", "cache_dir"}
        for bi, t in fs_calls:
            m = method(t)
            if m.startswith("{closure"):
                continue
            if m not in DEST or len(t["args"]) <= DEST[m] or "OpenOptions" in (t["f"].get("pretty") or ""):
                continue            # (OpenOptions::create / write / append are builder flags; its open() is checked above)
            dst = t["args"][DEST[m]]
            roots = {last(norm(o[3] or o[2] or "")) for o in arg_roots(f, pv, dst) if o[0] == "call"}
            key = "path:save_stats:%s" % (t["f"].get("pretty") or m)
            if roots & ELSEWHERE:
                ck.refuted(rule, key, f.loc(t["ln"]), "save_stats %ss a file whose path comes from %s, not from Config.stats_path: the statistics (which carry words of the checked documents) end up in a file outside the configured ones" % (m, sorted(roots & ELSEWHERE)))
            elif _derives_from_field(f, pv, dst, "stats_path") or "stats_path" in _field_names(flatten(pv.trace_operand(dst))):
                ck.proved(rule, key, f.loc(t["ln"]), "destination derives from Config.stats_path")
            else:
                ck.undecided(rule, key, f.loc(t["ln"]), "destination of %s not traced to Config.stats_path" % m)
    # save_dict is called only by the two dictionary writers, with the configured paths
    callers = {}
    for fn in p.fns.values():
        for bi, t in fn.calls():
            if (t["f"].get("inst") or "") == "harper_ls::dictionary_io::save_dict":
                callers.setdefault(fn.name, []).append((bi, t))
    exp = {"harper_ls::backend::{impl#0}::save_user_dictionary::{closure#0}": "user_dict_path",
           "harper_ls::backend::{impl#0}::save_file_dictionary::{closure#0}": None}
    ck.floor(rule, "callers of save_dict", len(callers), 1)
    for cn, sites in sorted(callers.items()):
        fn = p.fns[cn]
        ck.saw(fn)
        if norm(cn) not in {norm(k) for k in exp}:
            ck.refuted(rule, "save_dict-caller:%s" % cn, fn.span, "save_dict is called from a function other than save_user_dictionary/save_file_dictionary")
            continue
        pv = Prov(fn)
        for bi, t in sites:
            expn = {norm(k): v for k, v in exp.items()}
            if expn[norm(cn)]:
                if _derives_from_field(fn, pv, t["args"][0], expn[norm(cn)]):
                    ck.proved(rule, "path:%s" % norm(cn), fn.loc(t["ln"]), "destination derives from Config.%s" % expn[norm(cn)])
                else:
                    ck.undecided(rule, "path:%s" % norm(cn), fn.loc(t["ln"]), "could not trace the destination to Config.%s" % expn[norm(cn)])
            else:
                # through get_file_dict_path(url) = config.file_dict_path.join(file_dict_name(url))
                leaves = flatten(pv.trace_operand(t["args"][0]))
                cs = {o[2] for o in leaves if o[0] == "call"}
                aw = _awaited_calls(fn, pv, t["args"][0])
                if any("get_file_dict_path" in (c or "") for c in cs | aw):
                    ck.proved(rule, "path:%s" % cn, fn.loc(t["ln"]), "destination is the result of get_file_dict_path(url)")
                else:
                    ck.undecided(rule, "path:%s" % cn, fn.loc(t["ln"]), "destination not traced to get_file_dict_path: %s" % sorted(x or "" for x in cs | aw))
    g = p.fns.get("harper_ls::backend::{impl#0}::get_file_dict_path::{closure#0}")
    if ck.anchor(rule, "Backend::get_file_dict_path", g):
        ck.saw(g)
        calls = [(t["f"].get("inst") or t["f"].get("def") or "") for _, t in g.calls()]
        has_join = any(c.endswith("::join") and "path" in c for c in calls)
        has_name = any(c == "harper_ls::dictionary_io::file_dict_name" for c in calls)
        reads_field = _reads_field(g, "file_dict_path")
        if has_join and has_name and reads_field:
            ck.proved(rule, "path:get_file_dict_path", g.span, "get_file_dict_path joins Config.file_dict_path with file_dict_name(url)")
        else:
            ck.undecided(rule, "path:get_file_dict_path", g.span, "join / file_dict_name / Config.file_dict_path not all seen directly in get_file_dict_path (%s, %s, %s); the only-from-config clause below decides the answers" % (has_join, has_name, reads_field))
        # exclusive: every path it answers with is that join, computed from the configuration as it is now
        pv = Prov(g)
        oks = []
        for bi, b in enumerate(g.blocks):
            if b["cleanup"]:
                continue
            for sx in b["s"]:
                if sx["k"] == "assign" and sx["lhs"] == [0] and sx["rv"]["k"] == "agg" and sx["rv"].get("vname") == "Ok":
                    oks.append((bi, sx))
        bad = []
        for bi, sx in oks:
            srcs = [o for o in flatten(pv.trace_operand(sx["rv"]["ops"][0])) if o[0] == "call"]
            # look through clones of a freshly joined path
            seen, work, roots = set(), list(srcs), []
            while work:
                o = work.pop()
                if o in seen:
                    continue
                seen.add(o)
                t = g.blocks[o[1]]["t"]
                m = last(norm(t["f"].get("inst") or t["f"].get("def") or ""))
                if m in ("clone", "to_path_buf", "to_owned", "into", "from") and t["args"]:
                    nxt = [x for x in flatten(pv.trace_operand(t["args"][0])) if x[0] == "call"]
                    if nxt:
                        work += nxt
                        continue
                roots.append((o, m, t))
            for o, m, t in roots:
                if m == "join" and _derives_from_field(g, pv, t["args"][0], "file_dict_path"):
                    continue
                bad.append("%s (line %d)" % (norm(t["f"].get("inst") or t["f"].get("def") or "?"), t["ln"]))
            if not roots:
                bad.append("a value that no call produced (line %d)" % sx["ln"])
        if ck.anchor(rule, "Ok(..) answers of get_file_dict_path", oks):
            ck.decide(rule, "path:get_file_dict_path:only-from-config", not bad, g.span,
                      "every path get_file_dict_path answers with is Config.file_dict_path.join(..) computed in this call (%d Ok answers)%s" % (len(oks), "" if not bad else "; other sources: %s - a path remembered from an earlier call survives a configuration change, so the word list is written to a directory that is no longer the configured one" % sorted(set(bad))))


def _dict_name(ck, p):
    """the file name that get_file_dict_path joins onto the configured directory must be ONE path
    component: PathBuf::join with a name that contains a separator (or is absolute) leaves the directory"""
    rule = "R-C10-files"
    f = p.fns.get("harper_ls::dictionary_io::file_dict_name")
    if not ck.anchor(rule, "dictionary_io::file_dict_name", f):
        return
    ck.saw(f)
    pv = Prov(f)
    pushes = [(bi, t) for bi, t in f.calls() if method(t) in ("push_str", "push", "extend", "insert_str", "insert", "write_str", "write_fmt", "add_assign") and len(t["args"]) > 1]
    if not pushes:
        ck.undecided(rule, "path:file_dict_name", f.span, "the name is not assembled by pushes onto a String: construction not understood")
        return
    verdict, why = "PROVED", []
    for bi, t in pushes:
        roots = arg_roots(f, pv, t["args"][-1])
        names = {last(norm(o[3] or o[2] or "")) for o in roots if o[0] == "call"}
        consts = [o[1] for o in roots if o[0] == "const"]
        if "components" in names and "as_os_str" in names:
            why.append("%s(Path component)" % method(t))
            continue
        if not names and consts and all("/" not in str(c) and "\\\\" not in str(c) for c in consts):
            why.append("%s(%s)" % (method(t), ",".join(map(str, consts))))
            continue
        if names & {"percent_decode_str", "percent_decode", "decode_utf8_lossy", "decode_utf8", "urlencoding_decode", "from_utf8_lossy"}:
            verdict = "REFUTED"
            why.append("%s of text that is percent-decoded AFTER the path was split (%s)" % (method(t), sorted(names)))
            break
        verdict = "UNDECIDED" if verdict == "PROVED" else verdict
        why.append("%s of %s" % (method(t), sorted(names) or consts))
    detail = "the per-file dictionary name is assembled from: %s" % "; ".join(why)
    if verdict == "REFUTED":
        detail += " - an encoded separator (%2F) inside one URI segment becomes a real `/`, the joined name is then absolute or climbs out, and save_dict creates a file outside the configured dictionary directory"
    ck.ob(rule, "path:file_dict_name", verdict, f.span, detail)


def _field_names(leaves):
    out = set()
    stack = list(leaves)
    while stack:
        o = stack.pop()
        if isinstance(o, tuple):
            if o and o[0] == "field":
                out.add(o[3])
            for x in o:
                if isinstance(x, (tuple, frozenset)):
                    stack.append(x) if isinstance(x, tuple) else stack.extend(x)
    return out


def _reads_field(fn, name):
    def in_place(pl):
        return any(isinstance(e, list) and e[0] == "f" and e[2] == name for e in pl[1:])
    for b in fn.blocks:
        for s in b["s"]:
            if s["k"] != "assign":
                continue
            rv = s["rv"]
            for key in ("place",):
                if key in rv and in_place(rv[key]):
                    return True
            for key in ("op", "a", "b"):
                op = rv.get(key)
                if isinstance(op, dict):
                    pl = op.get("c") or op.get("m")
                    if pl and in_place(pl):
                        return True
    return False


def _derives_from_field(fn, pv, operand, field, depth=0):
    """does the operand's provenance contain a read of a struct field called `field`?  Looks
    through the receivers/arguments of the calls the value is a result of (x.clone(), guards,
    Path::parent(x), ...)."""
    from ..prov import field_names
    pl = operand.get("c") or operand.get("m")
    if pl and any(isinstance(e, list) and e[0] == "f" and e[2] == field for e in pl[1:]):
        return True
    origins = pv.trace_operand(operand)
    if field in field_names(origins):
        return True
    if depth > 6:
        return False
    for o in flatten(origins):
        if o[0] == "call":
            t = fn.blocks[o[1]]["t"]
            for a in t["args"]:
                if _derives_from_field(fn, pv, a, field, depth + 1):
                    return True
    return False


def _awaited_calls(fn, pv, operand, depth=0, out=None):
    """names of the functions/coroutines whose (awaited) result the operand derives from, looking
    through the arguments of intermediate calls (`.context(..)`, `?`, ...)."""
    out = set() if out is None else out
    if depth > 6:
        return out
    for o in flatten(pv.trace_operand(operand)):
        if o[0] == "call":
            t = fn.blocks[o[1]]["t"]
            out.add(t["f"].get("inst") or t["f"].get("def") or "")
            for a in t["args"]:
                _awaited_calls(fn, pv, a, depth + 1, out)
    return out


# ---- library crates neither read nor write files --------------------------------------------
LIB_CRATES = re.compile(r"^harper_(core|comments|html|typst|tree_sitter|literate_haskell|stats|wasm)::")


def _noread(ck, p, g):
    rule = "R-C10-noread"
    bad = []
    n = 0
    for fn in p.fns.values():
        if not LIB_CRATES.match(fn.name):
            continue
        for bi, t in fn.calls():
            n += 1
            inst = t["f"].get("inst") or ""
            pretty = g.pretty(inst) if inst else (t["f"].get("pretty") or "")
            if re.match(r"^(std::fs::|tokio::fs::|std::fs::File|std::net::|tokio::net::|std::process::Command)", pretty) or re.match(r"^(std::fs|tokio::fs|std::net|tokio::net)::", inst):
                bad.append((fn, t, pretty))
    ck.callsites += n
    for fn, t, pretty in bad:
        ck.refuted(rule, "%s:%s" % (fn.name, pretty), fn.loc(t["ln"]), "library crate references %s directly" % pretty)
    if not bad:
        ck.proved(rule, "library-crates", "", "%d call sites in harper-core/comments/html/typst/tree-sitter/literate-haskell/stats/wasm examined; none resolves into std::fs, tokio::fs, std::net, tokio::net or std::process::Command" % n)
    # compiled-in dictionary: the arguments of from_rune_files in uncached_inner_new are constants
    f = p.fns.get("harper_core::spell::mutable_dictionary::uncached_inner_new")
    if ck.anchor(rule, "mutable_dictionary::uncached_inner_new", f):
        ck.saw(f)
        pv = Prov(f)
        sites = [(bi, t) for bi, t in f.calls() if (t["f"].get("inst") or "").endswith("::from_rune_files")]
        ck.floor(rule, "from_rune_files call in uncached_inner_new", len(sites), 1)
        for bi, t in sites:
            ok = True
            for a in t["args"]:
                leaves = flatten(pv.trace_operand(a))
                if not leaves or not all(o[0] == "const" for o in leaves):
                    ok = False
            ck.decide(rule, "compiled-in-dictionary", ok, f.loc(t["ln"]), "both arguments of MutableDictionary::from_rune_files are compile-time constants (include_str!)")


# ---- leaves without MIR declared outside libc --------------------------------------------------
def _externs(ck, g, par):
    ext = sorted({n for n in par if n in g.extern_fns and not n.startswith("libc::")})
    asm = sorted(n for n in par if n in g.asm)
    ck.extra["reachable_extern_fns_outside_libc"] = [g.extern_fns[e] for e in ext][:80]
    ck.extra["reachable_inline_asm_functions"] = asm[:40]
    ck.extra["fn_pointer_call_sites"] = sum(g.ptr_calls.values())


# ---- dependency names ---------------------------------------------------------------------------
def _deps(ck, p):
    rule = "R-C10-deps"
    md = p.metadata()
    pk = {x["id"]: x for x in md["packages"]}
    nodes = {n["id"]: n for n in md["resolve"]["nodes"]}
    byname = {}
    for x in md["packages"]:
        byname.setdefault(x["name"], []).append(x["id"])
    for root in ROOT_PACKAGES:
        ids = [i for i in byname.get(root, []) if pk[i]["source"] is None]
        if not ids:
            ck.refuted(rule, "anchor-missing:%s" % root, "", "root package %s not found in cargo metadata" % root)
            continue
        seen = set()
        work = [ids[0]]
        while work:
            i = work.pop()
            if i in seen:
                continue
            seen.add(i)
            for d in nodes[i]["deps"]:
                kinds = {k.get("kind") for k in d.get("dep_kinds", [])}
                if kinds - {"dev"}:      # normal (None) or build
                    work.append(d["pkg"])
        names = sorted({pk[i]["name"] for i in seen})
        bad = [n for n in names if n in NET_CLIENT_PACKAGES or n.startswith(NET_CLIENT_PREFIXES)]
        for b in bad:
            ck.refuted(rule, "%s:%s" % (root, b), "Cargo.lock", "network-client package %s is in the resolved normal+build closure of %s" % (b, root))
        if not bad:
            ck.proved(rule, root, "Cargo.lock", "%d packages in the resolved normal+build closure of %s; none is a network-client library" % (len(names), root))
        if "web-sys" in names:
            feats = set()
            for i in seen:
                if pk[i]["name"] == "web-sys":
                    feats |= set(nodes[i].get("features", []))
            badf = sorted(f for f in feats if re.match(r"^(XmlHttpRequest|WebSocket|Request|Response|RtcPeerConnection|EventSource|Navigator|ServiceWorker|Fetch\w*|WebTransport\w*|TcpSocket|UdpSocket)", f))
            ck.decide(rule, "%s:web-sys-features" % root, not badf, "Cargo.lock", "web-sys features enabled: %s; request/socket features: %s" % (sorted(feats)[:20], badf))
