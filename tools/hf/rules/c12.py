"""C12 — two paragraphs together equal separately (isolation of the pattern-rule path)."""
import re

from .. import facts
from ..cfg import Cfg
from ..common import arg_fields, arg_roots, def_of, inst_of, method, target_of
from ..interp import Interp, Stuck
from ..prov import Prov, flatten
from ..util import fns_by_key, keyname, place_of, norm, last, with_closures
from . import c02, c05

LEVEL = "other"
TK = "harper_core::token_kind::TokenKind"
RUN = "harper_core::linting::pattern_linter::run_on_chunk"


def eval_pred(p, fname, variant_idx, variant_name, depth=0):
    f = p.fns.get(fname)
    if f is None:
        raise Stuck("no MIR for %s" % fname)
    it = Interp(f)

    def call(t, args):
        inst = t["f"].get("inst")
        if inst and inst.startswith("harper_core::token_kind::") and depth < 3:
            v = eval_pred(p, inst, variant_idx, variant_name, depth + 1)
            return ("bool", v)
        return None
    env = {1: ("variant", TK, variant_idx, variant_name, [])}
    v, _ = it.run(env, 0, 0, {"call": call})
    if v[0] != "bool":
        raise Stuck("result %s" % (v,))
    return v[1]


def run(ck, tier):
    ck.rule("R-C12-terminator", "decision tables (abstract interpretation of the MIR match on the TokenKind discriminant): is_sentence_terminator and is_chunk_terminator are true and is_whitespace is false for ParagraphBreak; the chunk/sentence/paragraph splitters cut at the indices selected by the same-named predicate")
    ck.rule("R-C12-chunklocal", "the slice given to run_on_chunk is an item of iter_chunks(); run_on_chunk hands Pattern::matches and match_to_lint only sub-slices of that chunk; match_to_lint bodies read `source` only through spans derived from the matched tokens")
    ck.rule("R-C12-rebase", "cached pattern lints are re-based symmetrically by the chunk start (rule instance of R-C05-key (d))")
    ck.rule("R-C12-condense", "the condensing passes only extend a kept token's span and remove tokens (rule instances of R-C02-condense)")
    ck.rule("R-C12-tile", "the end of the input is not special: the plain-English front end never takes a token out again after laying the tokens end to end, so a paragraph at the end of the text has the same tokens as the same paragraph followed by more text (rule instance of R-C02-tile)")
    ck.rule("R-C12-stale", "a condensation in one paragraph must not shift the token indices used for a condensation in a later one: indices collected before an earlier removal are re-based by exactly the tokens it removes (rule instances of R-C02-stale)")
    ck.rule("R-C12-lexlocal", "token boundaries are decided from the front: no function in lex_token's table (nor a helper that receives the uncut remaining input) scans that input from its end (rev / rposition / rfind / last / ends_with / next_back ...); otherwise text arbitrarily far behind a token - in a later paragraph - changes how it is lexed")
    ck.rule("R-C12-lookahead", "a lexer looks ahead only as far as its own line: a forward search over the uncut remaining input (position / find / any, take_while / skip_while / all) ends at a line break at the latest - its predicate is decided by the character '\\n' - or the function gives up (returns None) when the search fails; a search that runs to the end of the text and merely takes another branch when nothing is found lets a character in a later paragraph decide how this token is lexed")
    ck.rule("R-C12-stable", "lints are only ever sorted with a stable sort: several rules report the same span with different messages (the sub-rules of a merged rule), so lints tie on every span-based key; an unstable sort orders ties by the length and contents of the whole vector, and which twin survives remove_overlaps in one paragraph then depends on how many lints the other paragraphs have")
    ck.rule("R-C12-window", "a hand-written rule that slides a window of several tokens over the whole document (not inside a chunk, sentence or paragraph) requires every token of the window to be of a particular kind before it reports: a window position that is only tested negatively, or not at all, can be the break that closes the previous paragraph - and does not exist at the start of the document - so the paragraph's lints depend on whether something precedes it")
    ck.rule("R-C12-carry", "a hand-written rule that walks the document unit by unit (iter_sentences / iter_paragraphs / iter_chunks) carries nothing from one unit to the next except its result vector: a local that is set in one iteration and decides something in the next makes a paragraph's lints depend on the paragraphs before it (and treats the first unit of the document differently from the first unit of every later paragraph)")
    ck.not_decided += ["whether each of the 24 hand-written rule structs ignores everything beyond a paragraph break (they read neighbouring tokens by index)", "document-level passes other than the condensing ones", "quote pairing (excluded by the property's premise)"]
    p = facts.load()
    byk = fns_by_key(p)
    d = p.adts.get(TK)
    if not ck.anchor("R-C12-terminator", "TokenKind", d):
        return
    pb = [v for v in d["variants"] if v["name"] == "ParagraphBreak"]
    if not ck.anchor("R-C12-terminator", "TokenKind::ParagraphBreak", pb):
        return
    idx = pb[0]["idx"]
    n = 0
    for name, want in (("is_sentence_terminator", True), ("is_chunk_terminator", True), ("is_whitespace", False), ("is_paragraph_break", True)):
        fs = byk.get("TokenKind::" + name)
        if not ck.anchor("R-C12-terminator", "TokenKind::" + name, fs):
            continue
        f = fs[0]
        ck.saw(f)
        n += 1
        try:
            got = eval_pred(p, f.name, idx, "ParagraphBreak")
            ck.decide("R-C12-terminator", "TokenKind::%s(ParagraphBreak)" % name, got == want, f.span, "evaluates to %s on the ParagraphBreak variant (required %s)" % (got, want))
        except Stuck as e:
            ck.undecided("R-C12-terminator", "TokenKind::%s(ParagraphBreak)" % name, f.span, "decision structure left the interpreted fragment: %s" % e)
    ck.floor("R-C12-terminator", "token-kind predicates evaluated", n, 3)
    # splitters use the same-named predicate
    for what, pred in (("chunk_terminator", "is_chunk_terminator"), ("sentence_terminator", "is_sentence_terminator"), ("paragraph_break", "is_paragraph_break")):
        fs = [f for f in p.fns.values() if keyname(p, f) == "<[token::Token] as TokenStringExt>::iter_%s_indices" % what]
        if not ck.anchor("R-C12-terminator", "iter_%s_indices" % what, fs):
            continue
        f = fs[0]
        ck.saw(f)
        preds = set()
        for c in with_closures(p, f):
            for _, t in c.calls():
                i = inst_of(t)
                if i.startswith("harper_core::token_kind::{impl}::is_"):
                    preds.add(last(i))
        ck.decide("R-C12-terminator", "iter_%s_indices" % what, preds == {pred}, f.span, "filters token indices with %s (required exactly %s)" % (sorted(preds), pred))
    for what, idxfn in (("iter_chunks", "chunk_terminator"), ("iter_sentences", "sentence_terminator"), ("iter_paragraphs", "paragraph_break")):
        fs = [f for f in p.fns.values() if keyname(p, f) == "<[token::Token] as TokenStringExt>::%s" % what]
        if not ck.anchor("R-C12-terminator", what, fs):
            continue
        f = fs[0]
        ck.saw(f)
        used = set()
        for c in with_closures(p, f):
            for _, t in c.calls():
                m = re.search(r"::(iter|last|first)_(\w+?)(_indices|_index)$", inst_of(t) or def_of(t))
                if m:
                    used.add(m.group(2))
        ck.decide("R-C12-terminator", what, used == {idxfn}, f.span, "cuts at %s indices (required exactly %s)" % (sorted(used), idxfn))

    # ---- chunk locality
    rule = "R-C12-chunklocal"
    callers = []
    for f in p.fns.values():
        for bi, t in f.calls():
            if inst_of(t) == RUN or (t["f"].get("def") and norm(t["f"]["def"]) == RUN):
                callers.append((f, bi, t))
    ck.floor(rule, "callers of run_on_chunk", len(callers), 1)
    for f, bi, t in callers:
        ck.saw(f)
        pv = Prov(f)
        roots = arg_roots(f, pv, t["args"][1])
        from_chunks = any(o[0] == "call" and last(norm(o[3] or o[2] or "")) == "iter_chunks" for o in roots) and any(o[0] == "call" and last(norm(o[3] or o[2] or "")) == "next" for o in roots)
        if not from_chunks and f.get("kind") == "Closure" and ("arg", 2) in flatten(pv.trace_operand(t["args"][1])):
            # the call sits in a closure of an adaptor chain: iter_chunks().flat_map(|chunk| run_on_chunk(.., chunk, ..))
            par = p.fns.get(f.get("parent") or "")
            if par is not None:
                ppv = Prov(par)
                for pb, pt in par.calls():
                    if method(pt) in ("flat_map", "map", "for_each", "filter_map", "fold") and any(x[0] == "agg" and x[1] == "closure" and x[2] == f.name for x in ppv.trace_operand(pt["args"][-1])):
                        if any(o[0] == "call" and last(norm(o[3] or o[2] or "")) == "iter_chunks" for o in arg_roots(par, ppv, pt["args"][0])):
                            from_chunks = True
        ck.decide(rule, "%s:chunk-argument" % keyname(p, f), from_chunks, f.loc(t["ln"]), "the token slice passed to run_on_chunk is an item of iter_chunks(): %s" % from_chunks)
    fs = byk.get(RUN)
    if ck.anchor(rule, "run_on_chunk", fs):
        f = fs[0]
        ck.saw(f)
        pv = Prov(f)
        n = 0
        for bi, t in f.calls():
            d_ = norm(t["f"].get("def") or "")
            if d_ in ("harper_core::patterns::Pattern::matches", "harper_core::linting::pattern_linter::PatternLinter::match_to_lint"):
                n += 1
                roots = arg_roots(f, pv, t["args"][1])
                cuts = [o for o in roots if o[0] == "call" and last(norm(o[3] or o[2] or "")) in ("index", "get", "split_at", "get_unchecked")]
                # every cut is a cut of the chunk parameter, or of an earlier cut of it (chunk[a..][..b])

                def of_chunk(o, depth=0):
                    src = flatten(pv.trace_operand(f.blocks[o[1]]["t"]["args"][0]))
                    if ("arg", 2) in src:
                        return True
                    return depth < 4 and any(x[0] == "call" and last(norm(x[3] or x[2] or "")) in ("index", "get", "deref") and of_chunk(x, depth + 1) for x in src)
                base_ok = bool(cuts) and all(of_chunk(o) for o in cuts)
                ck.decide(rule, "run_on_chunk:%s" % last(d_), base_ok, f.loc(t["ln"]), "receives a range-indexed sub-slice of the `chunk` parameter: %s" % base_ok)
        ck.floor(rule, "pattern calls in run_on_chunk", n, 2)
    match_to_lint_locality(ck, p, rule)
    _lexlocal(ck, p, byk)
    stable_lint_sorts(ck, p, "R-C12-stable")
    _carry(ck, p)
    _windows(ck, p)
    # shared rule instances
    c05._key(c05._Sub(_only(ck, (":rebase", "chunk-cache:get:chars", "chunk-cache:put:chars")), "R-C12-rebase", ""), p, byk)
    c02._condense(c05._Sub(ck, "R-C12-condense", ""), p, byk)
    c02._stale(c05._Sub(ck, "R-C12-stale", ""), p, byk)
    c02.stale_use(c05._Sub(ck, "R-C12-stale", ""), p, "R-C12-stale")
    c02._tile(c05._Sub(_only(ck, "PlainEnglish::parse:only-grows"), "R-C12-tile", ""), p, byk)


def _only(ck, keep):
    from .c03 import _Only
    return _Only(ck, keep)


def match_to_lint_locality(ck, p, rule):
    """how the match_to_lint bodies use `source` (shared with C05: the chunk cache is only sound if they look only inside the chunk)"""
    # match_to_lint bodies: how `source` is used
    impls = p.impls_of_method("harper_core::linting::pattern_linter::PatternLinter::match_to_lint")
    ck.floor(rule, "impls of PatternLinter::match_to_lint", len(impls), 24)
    ok_n = 0
    for f in impls:
        if f.get("impl_self_head", "").startswith("alloc::boxed"):
            continue
        ck.saw(f)
        bad = []
        uses = 0
        for b in with_closures(p, f):
            if b is not f:
                continue
            pv = Prov(b)
            for bi, t in b.calls():
                for ai, a in enumerate(t["args"]):
                    if ("arg", 3) in flatten(pv.trace_operand(a)):
                        uses += 1
                        m = method(t)
                        if m in ("get_content", "get_content_string", "try_get_content", "get_content_str"):
                            sp_roots = arg_roots(b, pv, t["args"][0])
                            if ("arg", 2) not in sp_roots:
                                bad.append((m, t["ln"]))
                        elif inst_of(t).startswith("harper_core::") or def_of(t).startswith("harper_core::"):
                            # handed on to a helper together with the matched tokens: fine if arg 2 also flows in
                            if not any(("arg", 2) in arg_roots(b, pv, x) for x in t["args"]):
                                bad.append((m, t["ln"]))
                        elif m in ("index", "get", "deref", "as_ref", "iter", "len"):
                            if m in ("index", "get"):
                                bad.append((m, t["ln"]))
        direct = [(m_, ln_) for (m_, ln_) in bad if m_ in ("index", "get")]
        if direct:
            ck.refuted(rule, "match_to_lint:%s" % keyname(p, f), f.loc(direct[0][1]), "match_to_lint indexes `source` directly (%s) instead of reading it through the spans of the matched tokens: it can look at characters next to the match - in the previous clause or paragraph - which neither the chunk nor the chunk-cache key covers, so the same clause gets different lints depending on what precedes it (and a long-lived linter replays whichever answer it cached first)" % ", ".join(sorted({m_ for m_, _ in direct})))
        elif bad:
            ck.undecided(rule, "match_to_lint:%s" % keyname(p, f), f.span, "`source` is used other than through spans of the matched tokens: %s" % bad[:3])
        else:
            ok_n += 1
    ck.proved(rule, "match_to_lint:source-through-matched-spans", "", "%d of %d match_to_lint bodies read `source` only through spans derived from (or helpers that also receive) the matched tokens" % (ok_n, len(impls)))


BACKSCAN = {"rev", "rposition", "rfind", "rfind_map", "next_back", "nth_back", "rfold", "try_rfold", "last", "ends_with", "strip_suffix",
            "split_last", "rsplit", "rsplitn", "rsplit_once", "rchunks", "rchunks_exact", "last_mut", "split_last_mut", "rsplit_mut"}


def _unbounded_roots(f, pv, op, unb, depth=0, seen=None):
    """does the operand's value reach one of the parameters in `unb` (the uncut remaining input) without
    passing a cut that bounds its right end (Index with Range / RangeTo / RangeInclusive / RangeToInclusive)?"""
    seen = set() if seen is None else seen
    for o in flatten(pv.trace_operand(op)):
        if o in seen:
            continue
        seen.add(o)
        if o[0] == "arg" and o[1] in unb:
            return True
        if o[0] == "call" and depth < 8:
            t = f.blocks[o[1]]["t"]
            nm = last(norm(o[3] or o[2] or ""))
            if nm in ("index", "index_mut", "get", "get_unchecked") and len(t["args"]) > 1:
                ity = f.local_tystr(place_of(t["args"][1])[0]) if place_of(t["args"][1]) else ""
                if "Range" in ity and "RangeFrom" not in ity and "RangeFull" not in ity:
                    continue          # right end bounded: what follows is not the uncut input any more
                if _unbounded_roots(f, pv, t["args"][0], unb, depth + 1, seen):
                    return True
                continue
            if nm in ("split_at", "take", "split_first", "first_chunk"):
                continue
            for a in t["args"]:
                if _unbounded_roots(f, pv, a, unb, depth + 1, seen):
                    return True
    return False


FWD_STOP = {"position", "find", "any", "find_map"}        # stop at the first element the predicate accepts
FWD_WHILE = {"take_while", "skip_while", "all"}             # go on while the predicate accepts


def _lookahead_site(ck, p, f, pv, bi, t, m, ords):
    from .c01 import eval_char_pred
    rule = "R-C12-lookahead"
    k0 = "%s:%s" % (keyname(p, f), m)
    ords[k0] = ords.get(k0, 0) + 1
    key = k0 if ords[k0] == 1 else "%s#%d" % (k0, ords[k0])
    if (f.name, bi) in ords:
        return
    ords[(f.name, bi)] = True
    clos = [o for o in pv.trace_operand(t["args"][1]) if o[0] == "agg" and o[1] == "closure"]
    c = p.fns.get(clos[0][2]) if len(clos) == 1 else None
    if c is None:
        ck.undecided(rule, key, f.loc(t["ln"]), "the predicate of this search over the uncut input is not a closure defined here")
        return
    try:
        nl = eval_char_pred(p, c, ord("\n"))
        letter = eval_char_pred(p, c, ord("a"))
    except Stuck as e:
        ck.undecided(rule, key, f.loc(t["ln"]), "the predicate of this search over the uncut input is beyond the evaluator (%s)" % e)
        return
    if m in FWD_STOP and nl:
        ck.proved(rule, key, f.loc(t["ln"]), "%s over the uncut input stops at a line break at the latest" % m)
        return
    if m in FWD_WHILE and not nl:
        ck.proved(rule, key, f.loc(t["ln"]), "%s over the uncut input ends at a line break at the latest" % m)
        return
    if m in FWD_WHILE and nl and not letter:
        ck.proved(rule, key, f.loc(t["ln"]), "%s over the uncut input accepts line breaks but no letter: a run of blank characters, which is the token itself" % m)
        return
    # the search can run to the end of the text: what happens when it finds nothing?
    dest = t["dest"][0] if t.get("dest") else None
    gives_up = False
    for b2, t2 in f.calls():
        if method(t2) == "branch" and t2["args"] and any(o[0] == "call" and o[1] == bi for o in flatten(pv.trace_operand(t2["args"][0]))):
            gives_up = True
    if gives_up and m in FWD_STOP:
        ck.undecided(rule, key, f.loc(t["ln"]), "%s searches the whole remaining text (its predicate does not stop at a line break); when nothing is found the function returns None - whether a hit far behind the token is rejected just the same is not decided" % m)
    else:
        ck.refuted(rule, key, f.loc(t["ln"]), "%s searches the whole remaining text - its predicate does not stop at a line break - and the function goes on lexing whichever way the search ends: whether the character occurs somewhere later in the document, e.g. in another paragraph, decides how this token is lexed" % m)


def _lexlocal(ck, p, byk):
    from .c01 import _fnitem_of
    rule = "R-C12-lexlocal"
    fs = byk.get("harper_core::lexing::lex_token")
    if not ck.anchor(rule, "lexing::lex_token", fs):
        return
    f = fs[0]
    table = None
    for b in f.blocks:
        for sx in b["s"]:
            if sx["k"] == "assign" and sx["rv"]["k"] == "agg" and sx["rv"].get("agg") == "array":
                names = [_fnitem_of(f, o) for o in sx["rv"]["ops"]]
                if names and all(names) and len(names) >= 5:
                    table = names
    if table is None:
        ck.refuted(rule, "anchor-missing:lexer-table", f.span, "the array of lexer functions in lex_token was not found")
        return
    ck.floor(rule, "entries of the lexer table", len(table), 8)
    # worklist: (function, set of parameters that hold the uncut remaining input)
    todo = [(nm, frozenset([1])) for nm in table]
    done = {}
    n_scans = 0
    n_fwd = [0]
    fwd_ord = {}
    while todo:
        nm, unb = todo.pop()
        if nm in done and unb <= done[nm]:
            continue
        done[nm] = done.get(nm, frozenset()) | unb
        unb = done[nm]
        g = p.fns.get(nm)
        if g is None:
            continue
        ck.saw(g)
        bad = []
        for body in with_closures(p, g):
            if body is not g:
                continue            # closures see the input only element-wise
            pv = Prov(body)
            for bi, t in body.calls():
                m = method(t)
                if m in BACKSCAN and t["args"]:
                    n_scans += 1
                    if _unbounded_roots(body, pv, t["args"][0], unb):
                        bad.append((m, t["ln"]))
                if m in FWD_STOP | FWD_WHILE and len(t["args"]) >= 2 and _unbounded_roots(body, pv, t["args"][0], unb):
                    n_fwd[0] += 1
                    _lookahead_site(ck, p, body, pv, bi, t, m, fwd_ord)
                inst = t["f"].get("inst") or ""
                h = p.fns.get(inst)
                if h is not None and h.name.startswith("harper_core::lexing::") and h.get("kind") not in ("Closure",):
                    hu = frozenset(i + 1 for i, a in enumerate(t["args"]) if _unbounded_roots(body, pv, a, unb))
                    if hu:
                        todo.append((h.name, hu))
        key = "entry:%s" % last(nm)
        if bad:
            ck.refuted(rule, key, g.loc(bad[0][1]), "scans the uncut remaining input from its end (%s): the token it returns depends on text arbitrarily far behind it, e.g. in the next paragraph" % ", ".join(sorted({m for m, _ in bad})))
        else:
            ck.proved(rule, key, g.span, "no scan from the end of the uncut input (parameters holding it: %s)" % sorted(unb))
    ck.floor("R-C12-lookahead", "forward searches over the uncut remaining input in the lexers", n_fwd[0], 3)
    ck.extra["lexlocal_functions"] = len(done)
    ck.extra["lexlocal_backscans_seen"] = n_scans


# ---------------------------------------------------------------------------------------------------
UNIT_ITERS = {"iter_sentences", "iter_paragraphs", "iter_chunks"}


def _carry(ck, p):
    rule = "R-C12-carry"
    impls = [f for f in p.impls_of_method("harper_core::linting::Linter::lint") if f.name.startswith("harper_core::")]
    n_loops = 0
    for f in sorted(impls, key=lambda f: f.name):
        cfg = Cfg(f)
        pv = Prov(f)
        accepted = []
        for h, body in sorted(cfg.natural_loops().items(), key=lambda x: -len(x[1])):
            if any(body < a for a in accepted):
                continue                # a loop inside a unit loop starts afresh for every unit
            unit = None
            for b in body:
                t = f.blocks[b]["t"]
                if t["k"] == "call" and method(t) == "next" and t["args"]:
                    # the iterator advanced here is (an adaptor chain over) the document's unit iterator, made outside the loop
                    for o in arg_roots(f, pv, t["args"][0]):
                        if o[0] == "call" and o[1] not in body and method(f.blocks[o[1]]["t"]) in UNIT_ITERS:
                            unit = method(f.blocks[o[1]]["t"])
            if unit is None:
                continue
            n_loops += 1
            accepted.append(body)
            ck.saw(f)
            key = "%s:%s" % (keyname(p, f), unit)
            if sum(1 for a in accepted) > 1:
                key += ":%d" % len(accepted)
            ins, outs, mutb = set(), set(), set()
            for bi, b in enumerate(f.blocks):
                if b["cleanup"]:
                    continue
                for sx in b["s"]:
                    if sx["k"] != "assign":
                        continue
                    (ins if bi in body else outs).add(sx["lhs"][0])
                    if bi in body and sx["rv"]["k"] == "ref" and sx["rv"].get("mut"):
                        mutb.add(sx["rv"]["place"][0])
                t = b["t"]
                if t["k"] == "call" and t.get("dest"):
                    (ins if bi in body else outs).add(t["dest"][0])
            names = f.debug_names()
            carried = []
            for l in sorted((ins & outs) | (mutb & outs)):
                if l not in names:
                    continue
                ty = f.local_tystr(l)
                if re.search(r"Vec<(harper_core::)?(linting::)?(lint::)?Lint>$", ty):
                    continue            # the result vector
                if re.search(r"(^|::)(iter|slice|itertools|option|vec)::|Iter|Peekable|Chain|Map<|Filter<|Zip<|TupleWindows|Enumerate", ty) and names[l] == "iter":
                    continue            # the loop's own iterator (for-loop desugaring names it `iter`)
                if not _live_in(f, h, body, l):
                    continue            # set afresh in every iteration before it is read
                carried.append((l, names[l], ty))
            if not carried:
                ck.proved(rule, key, f.span, "the loop over %s() carries only its iterator and the result vector from one unit to the next" % unit)
                continue
            # does a carried local decide something: taint forward inside the body
            taint = {l for l, _, _ in carried}
            changed = True
            while changed:
                changed = False
                for bi in body:
                    b = f.blocks[bi]
                    for sx in b["s"]:
                        if sx["k"] == "assign" and sx["lhs"][0] not in taint and _mentions(sx["rv"], taint):
                            taint.add(sx["lhs"][0])
                            changed = True
                    t = b["t"]
                    if t["k"] == "call" and t.get("dest") and t["dest"][0] not in taint and any(_mentions(a, taint) for a in t["args"]):
                        taint.add(t["dest"][0])
                        changed = True
            decides = [bi for bi in body if f.blocks[bi]["t"]["k"] == "switch" and _mentions(f.blocks[bi]["t"]["discr"], taint)]
            tests_break = any(method(t) in ("is_paragraph_break",) for h2 in with_closures(p, f) for _, t in h2.calls())
            what = ", ".join("`%s`: %s" % (n, ty.rsplit("::", 1)[-1]) for _, n, ty in carried)
            if decides and not tests_break:
                ck.refuted(rule, key, f.loc(f.blocks[decides[0]]["t"].get("ln", 0)), "the loop over %s() carries %s from one unit to the next and a branch in the loop depends on it; nothing in the rule looks for a paragraph break, so what is reported for a paragraph depends on the paragraphs before it (the first unit of the document is also treated differently from the first unit of any later paragraph)" % (unit, what))
            else:
                ck.undecided(rule, key, f.span, "the loop over %s() carries %s from one unit to the next (%s)" % (unit, what, "a paragraph-break test exists; whether it resets the state is not decided" if tests_break else "no branch depends on it"))
    ck.floor(rule, "unit loops in hand-written rules", n_loops, 3)


def _mentions(o, locs):
    if isinstance(o, dict):
        for k in ("c", "m"):
            if k in o and isinstance(o[k], list) and o[k] and o[k][0] in locs:
                return True
        if "place" in o and isinstance(o["place"], list) and o["place"] and o["place"][0] in locs:
            return True
        return any(_mentions(v, locs) for v in o.values())
    if isinstance(o, list):
        return any(_mentions(v, locs) for v in o)
    return False


def _live_in(f, head, body, l):
    """is local l read on some path from the loop head (within the body) before it is overwritten?"""
    seen, work = set(), [head]
    while work:
        bi = work.pop()
        if bi in seen or bi not in body:
            continue
        seen.add(bi)
        b = f.blocks[bi]
        killed = False
        for sx in b["s"]:
            if sx["k"] == "assign":
                if _mentions(sx["rv"], {l}):
                    return True
                if sx["lhs"] == [l]:
                    killed = True
                    break
                if sx["lhs"][0] == l:
                    return True         # partial write reads the rest
        if killed:
            continue
        t = b["t"]
        if t["k"] == "call":
            if any(_mentions(a, {l}) for a in t["args"]):
                return True
            if t.get("dest") == [l]:
                continue
        elif t["k"] == "switch" and _mentions(t["discr"], {l}):
            return True
        work += f.succs(bi)
    return False


# ---------------------------------------------------------------------------------------------------
DOC_WIDE = {"tokens", "get_tokens", "iter_tokens", "fat_tokens", "fat_string_tokens"}
WINDOWS = {"tuple_windows", "windows", "array_windows", "circular_tuple_windows"}


def _windows(ck, p):
    from ..cfg import bool_edges
    rule = "R-C12-window"
    impls = [f for f in p.impls_of_method("harper_core::linting::Linter::lint") if f.name.startswith("harper_core::")]
    n = 0
    for f in sorted(impls, key=lambda f: f.name):
        cfg = Cfg(f)
        pv = Prov(f)
        loops = cfg.natural_loops()
        for wb, wt in f.calls():
            if method(wt) not in WINDOWS or not wt["args"]:
                continue
            srcs = {method(f.blocks[o[1]]["t"]) for o in arg_roots(f, pv, wt["args"][0]) if o[0] == "call"}
            if not (srcs & DOC_WIDE) or (srcs & UNIT_ITERS):
                continue
            # the loop that advances this window iterator
            nexts = [(bi, t) for bi, t in f.calls() if method(t) == "next" and any(o[0] == "call" and o[1] == wb for o in arg_roots(f, pv, t["args"][0]))]
            if len(nexts) != 1:
                continue
            nb, nt = nexts[0]
            bodies = [body for h, body in loops.items() if nb in body]
            if not bodies:
                continue
            body = min(bodies, key=len)
            head = [h for h, b_ in loops.items() if b_ is body][0]
            n += 1
            ck.saw(f)
            key = "%s:document-wide-window" % keyname(p, f)
            sites = [bi for bi, t in f.calls() if bi in body and method(t) in ("push", "extend", "append", "push_back") and re.search(r"Vec<(harper_core::)?(linting::)?(lint::)?Lint>", f.local_tystr(c02._root_local(f, pv, t["args"][0]) or 0))]
            if not sites:
                ck.undecided(rule, key, f.loc(wt["ln"]), "no push onto the result vector found inside the window loop")
                continue
            # window positions: locals that copy a field of the Some payload of next()
            elems = {}
            for bi in body:
                for sx in f.blocks[bi]["s"]:
                    if sx["k"] == "assign" and len(sx["lhs"]) == 1 and sx["rv"]["k"] == "use" and place_of(sx["rv"]["op"]):
                        src = place_of(sx["rv"]["op"])
                        if src[0] == nt["dest"][0]:
                            idx = [e[1] for e in src[1:] if isinstance(e, list) and e[0] == "f"]
                            if idx:
                                elems[sx["lhs"][0]] = idx[-1]
            names = f.debug_names()
            verdicts = {}
            for el, pos in elems.items():
                positive, negative, handed = [], [], []
                for bi, t in f.calls():
                    if bi not in body or not t["args"]:
                        continue
                    uses_el = any(o == ("local", el) for o in ()) or any(_derives_local(f, pv, a, el) for a in t["args"])
                    if not uses_el:
                        continue
                    m = method(t)
                    if m.startswith("is_") or m.startswith("as_"):
                        e = bool_edges(f, bi)
                        if e:
                            tr = any(cfg.reaches(e[0], [sb], avoid=[head]) for sb in sites)
                            fa = any(cfg.reaches(e[1], [sb], avoid=[head]) for sb in sites)
                            if tr and not fa:
                                positive.append(m)
                            elif fa and not tr:
                                negative.append(m)
                    elif not norm(inst_of(t)).startswith(("core::", "alloc::", "std::")) and m not in ("get_span_content", "get_span_content_str"):
                        handed.append(m)
                verdicts[el] = (pos, positive, negative, handed)
            loose = [(names.get(el, "_%d" % el), v) for el, v in sorted(verdicts.items(), key=lambda kv: kv[1][0]) if not v[1] and not v[3]]
            if loose:
                ck.refuted(rule, key, f.loc(wt["ln"]), "the window slides over the whole document and position %s is %s before a lint is pushed: that token can be the break that closes the previous paragraph (and is missing at the very start of the document), so a paragraph gets a lint inside a larger text that it does not get on its own" % (
                    ", ".join("`%s`" % nm for nm, _ in loose), "only tested negatively (%s)" % ", ".join(loose[0][1][2]) if loose[0][1][2] else "never required to be of a particular kind"))
            else:
                ck.proved(rule, key, f.loc(wt["ln"]), "every position of the document-wide window is required to be of a particular kind (or handed to the lint-building helper): %s" % {names.get(el, "_%d" % el): (v[1] or v[3]) for el, v in verdicts.items()})
    ck.extra["document_wide_windows"] = n


def _derives_local(f, pv, op, local, depth=0):
    pl = place_of(op)
    if not pl:
        return False
    if pl[0] == local:
        return True
    if depth > 5:
        return False
    for (b, si, kind, x) in pv.defs.get(pl[0], []):
        if "rv" in x:
            rv = x["rv"]
            src = rv.get("place") if rv["k"] == "ref" else (place_of(rv["op"]) if rv["k"] in ("use", "cast") and place_of(rv.get("op", {})) else None)
            if src and (src[0] == local or _derives_local(f, pv, {"c": [src[0]]}, local, depth + 1)):
                return True
    return False


# ---------------------------------------------------------------------------------------------------
def stable_lint_sorts(ck, p, rule):
    n = 0
    bad = []
    for f in sorted(p.fns.values(), key=lambda g: g.name):
        if not f.name.startswith("harper_"):
            continue
        for bi, t in f.calls():
            m = method(t)
            if not m.startswith("sort") or not t["args"]:
                continue
            pl = place_of(t["args"][0])
            ty = f.local_tystr(pl[0]) if pl else ""
            if "Lint" not in ty or "LintKind" in ty.replace("Lint>", "").replace("Lint]", "") and "lint::Lint" not in ty:
                continue
            if not re.search(r"(^|[\[<\s:])Lint[\]>]", ty) and "lint::Lint" not in ty:
                continue
            n += 1
            if m.startswith("sort_unstable"):
                bad.append((f, t, m))
    ck.floor(rule, "sorts of lint vectors in the workspace", n, 1)
    for f, t, m in bad:
        ck.saw(f)
        ck.refuted(rule, "%s:%s" % (keyname(p, f), m), f.loc(t["ln"]), "%s on a vector of lints: lints of different sub-rules tie on span-based keys (same span, different message), and an unstable sort arranges ties according to the length and contents of the whole vector - which of two tied lints is kept for one paragraph depends on the lints of all the others" % m)
    if not bad:
        ck.proved(rule, "lint-sorts", "", "%d sorts of lint vectors, all stable (sort / sort_by / sort_by_key)" % n)
