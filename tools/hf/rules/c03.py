"""C03 — every suggestion is a well-defined local edit (the edit primitive cannot fail; re-basing)."""
from .. import facts
from ..prover import Ctx, Lin, analyze, V_slice, V_int, UNKNOWN, V_struct, entails, counter_model
from ..util import fns_by_key, keyname, norm, last, place_of
from ..prov import Prov
from ..common import method
from . import c01, c05

LEVEL = "other"


def run(ck, tier):
    ck.rule("R-C03-apply", "O4 under the documented precondition span.start <= span.end <= source.len(): every fallible operation of Suggestion::apply (element stores/loads, split_off, the length subtraction) is in range")
    ck.rule("R-C03-copy", "applying a suggestion only moves characters: every character stored into the text by Suggestion::apply is a copy of a character of the text itself or of the suggestion's own characters - no stored value passes through a computing call (case mapping, arithmetic, a closure); so what lies outside the flagged span is carried over unchanged")
    ck.rule("R-C03-span", "a lint's span is made of token positions: in every Lint literal of harper_core::linting the `span` operand derives from token spans (span(), .span.start/.end, Span::new / new_with_len / pushed_by / pulled_by over them, constants), never from the payload of a token *kind* (Space(n), Newline(n), Number..): a kind payload is a meaning, not a length in characters (n tabs are Space(2n) over n characters)")
    ck.rule("R-C03-rebase", "the chunk cache re-bases lint spans symmetrically (pull_by before put, push_by after get, same offset): same rule instance as R-C05-key (d)")
    ck.not_decided += ["that applying a suggestion yields exactly the spliced text (value-level)", "that every rule's lint span lies inside the text (41 match_to_lint bodies, values)"]
    p = facts.load()
    byk = fns_by_key(p)
    ck.rule("R-C03-units", "a lint span counts characters: in harper_core::linting no byte length or byte position of a str/String (len, find, rfind, match_indices, char_indices ...) reaches Span::new / new_with_len / a Span literal / push_by / pull_by or an index into the char source unless it went through chars().count() (lengths of ASCII literals excepted): behind the first non-ASCII character of the document such a span is displaced, covers other characters than the flagged ones and can end past the text (rule instances of R-C04-units)")
    try:
        import re as _re
        from . import c04
        c04._byte_lengths(c05._Sub(ck, "R-C03-units", ""), p, scope=_re.compile(r"^harper_core::linting::"), what_scope="rule", floor=6)
    except Exception as e:
        ck.refuted("R-C03-units", "internal:%s" % type(e).__name__, "", "rule could not run: %s" % e)
    fs = byk.get("Suggestion::apply")
    if ck.anchor("R-C03-apply", "Suggestion::apply", fs):
        f = [x for x in fs if x.name.startswith("harper_core::")][0]
        ck.saw(f)
        asserts = []

        def assert_hook(cx, fn, bb, t, st, want, other, reports):
            if fn is not f or t.get("msg") not in ("overflow", "bounds"):
                return
            if t.get("msg") == "overflow" and str(t.get("op", "")).startswith(("Add", "Mul")):
                return          # additions cannot overflow below isize::MAX elements (stated assumption)
            if want is None:
                reports.append({"kind": "O4-assert", "fn": fn.name, "bb": bb, "ln": t.get("ln"), "ok": None, "what": "%s check" % t["msg"], "facts": [], "model": None, "opaque": True})
                return
            ok = all(entails(st.facts, c) for c in want)
            m = None
            goal = None
            for c in want:
                if not entails(st.facts, c):
                    goal = c
                    m = counter_model(st.facts, c)
                    break
            reports.append({"kind": "O4-assert", "fn": fn.name, "bb": bb, "ln": t.get("ln"), "ok": ok, "what": "arithmetic %s check%s" % (t["msg"], (" (%s)" % t.get("op")) if t.get("op") else ""),
                            "facts": [cx.show(x) for x in st.facts][:10], "model": cx.show_model(m) if m else None, "opaque": cx.relevant_opaque(st.facts, goal) if goal is not None else False})
        cx = Ctx(p, {"assert": assert_hook})
        S, E, L = (Lin.sym(cx.fresh(n)) for n in ("span.start", "span.end", "len(source)"))
        cx.lens = [L]
        pre = [S, E.sub(S), L.sub(E)]
        args = [UNKNOWN, V_struct("Span", {"start": V_int(S), "end": V_int(E)}), V_slice(L)]
        sub = analyze(cx, f, args, pre)
        obs = {}
        for r in sub.reports:
            if r["fn"] != f.name:
                continue
            k = (r["kind"], r["bb"])
            old = obs.get(k)
            if old is None or (old["ok"] is True and r["ok"] is not True):
                obs[k] = r
        n = 0
        for (kind, bb), r in sorted(obs.items(), key=lambda kv: (kv[1]["ln"] or 0, kv[0][1])):
            if kind == "O4-assert" and "Add" in (r["what"] or ""):
                continue        # additions cannot overflow below isize::MAX elements (stated assumption)
            n += 1
            key = "apply:%s@%s" % (kind, _arm(f, bb))
            key = "%s#%d" % (key, sum(1 for o in ck.obs if o["key"].startswith("R-C03-apply:" + key)))
            if r["ok"] is True:
                ck.proved("R-C03-apply", key, f.loc(r["ln"]), r["what"] + " cannot fail under the precondition")
            elif r["ok"] is None or r["opaque"] or not r["model"]:
                ck.undecided("R-C03-apply", key, f.loc(r["ln"]), r["what"] + ": not decided (opaque ingredient); facts %s" % r["facts"][:6])
            else:
                ck.refuted("R-C03-apply", key, f.loc(r["ln"]), "%s fails inside the precondition, e.g. %s" % (r["what"], r["model"]))
        ck.floor("R-C03-apply", "fallible operations in Suggestion::apply", n, 1)
    _copy_only(ck, p, byk)
    _span_sources(ck, p)
    # re-basing: shared rule
    c05._key(c05._Sub(_Only(ck, (":rebase", "chunk-cache:get:chars", "chunk-cache:put:chars")), "R-C03-rebase", ""), p, byk)
    # a lint's span is made of token positions (R-C03-span): it points at the flagged text only if the front end that
    # cut the text into lines / blocks put the inner tokens back where the cut was taken from (instances of R-C02-rebase)
    from . import c02
    ck.rule("R-C03-frontend", "lint spans are token spans, so they lie in the text and on the flagged characters only if every front end that parses a cut of the text (per-line comment parsers, Mask::parse) re-bases the inner tokens by the start of that cut, and an offset accumulated line by line advances by the full length of every line, skipped ones included (rule instances of R-C02-rebase)")
    c02._rebase_cut(c05._Sub(ck, "R-C03-frontend", ""), p, byk)
    c02._rebase_acc(c05._Sub(ck, "R-C03-frontend", ""), p, byk)


def _arm(f, bb):
    """which match arm a block belongs to (by the downcast names used in it or its dominators)"""
    from ..cfg import Cfg
    cfg = Cfg(f)
    sw = f.blocks[0]["t"] if f.blocks[0]["t"]["k"] == "switch" else None
    for b0, blk in enumerate(f.blocks):
        if blk["t"]["k"] == "switch":
            sw = (b0, blk["t"])
            break
    if not sw:
        return "?"
    names = {"0": "Remove", "1": "ReplaceWith", "2": "InsertAfter"}
    for v, x in sw[1]["targets"]:
        if cfg.dominates(x, bb):
            # variant order of Suggestion: read from the downcast names if present
            for b2 in range(len(f.blocks)):
                if cfg.dominates(x, b2):
                    for s in f.blocks[b2]["s"]:
                        for e in (s.get("lhs", []) + (s.get("rv", {}).get("place") or []))[1:] if s["k"] == "assign" else []:
                            if isinstance(e, list) and e[0] == "dc":
                                return e[2]
            return "Remove"
    if cfg.dominates(sw[1]["otherwise"], bb):
        return "otherwise"
    return "?"


class _Only:
    """forward only the obligations whose key matches (used to share one rule instance of another property)"""
    def __init__(self, ck, keep):
        self.ck, self.keep = ck, keep
        self.callsites = 0
        self.extra = ck.extra

    def __getattr__(self, n):
        return getattr(self.ck, n)

    def _f(self, meth, rule, key, *a, **kw):
        keep = self.keep if isinstance(self.keep, (tuple, list)) else (self.keep,)
        if any(k in key for k in keep):
            return getattr(self.ck, meth)(rule, key, *a, **kw)

    def decide(self, rule, key, *a, **kw):
        return self._f("decide", rule, key, *a, **kw)

    def proved(self, rule, key, *a, **kw):
        return self._f("proved", rule, key, *a, **kw)

    def refuted(self, rule, key, *a, **kw):
        return self._f("refuted", rule, key, *a, **kw)

    def undecided(self, rule, key, *a, **kw):
        return self._f("undecided", rule, key, *a, **kw)

    def floor(self, *a, **kw):
        pass

    def anchor(self, rule, what, obj):
        return self.ck.anchor(rule, what, obj)

    def saw(self, f):
        self.ck.saw(f)


COPYING = {"index", "index_mut", "deref", "deref_mut", "next", "enumerate", "iter", "iter_mut", "copied", "cloned", "clone", "into_iter", "skip", "take", "unwrap", "expect", "get", "get_mut",
           "as_ref", "as_mut", "as_slice", "as_mut_slice", "borrow", "borrow_mut", "split_off", "drain", "len", "start", "end", "into", "from", "rev", "zip", "chain", "peekable", "by_ref", "extend", "to_vec", "to_owned"}


def _copy_only(ck, p, byk):
    from ..common import arg_roots as roots_of
    from ..util import with_closures
    rule = "R-C03-copy"
    fs = [x for x in byk.get("Suggestion::apply", []) if x.name.startswith("harper_core::")]
    if not fs:
        return
    f = fs[0]
    n = 0
    bad = []
    for b in with_closures(p, f):
        pv = Prov(b)
        for blk in b.blocks:
            if blk["cleanup"]:
                continue
            for sx in blk["s"]:
                if sx["k"] != "assign" or len(sx["lhs"]) < 2 or "*" not in sx["lhs"]:
                    continue
                base = sx["lhs"][0]
                ty = b.local_tystr(base)
                if "char" not in ty:
                    continue
                n += 1
                if sx["rv"]["k"] != "use":
                    bad.append((sx["ln"], "a computed value (%s)" % sx["rv"]["k"]))
                    continue
                for o in roots_of(b, pv, sx["rv"]["op"]):
                    if o[0] == "call":
                        nm = last(norm(o[3] or o[2] or ""))
                        if nm not in COPYING:
                            bad.append((sx["ln"], "the result of %s" % nm))
                    elif o[0] in ("bin", "un"):
                        bad.append((sx["ln"], "an arithmetic result"))
        # transforming adaptors on what is appended to the text
        for bi, t in b.calls():
            if method(t) in ("map", "map_while", "filter_map", "flat_map", "scan", "fold", "for_each", "retain", "retain_mut", "dedup_by", "fill", "fill_with", "swap", "reverse", "sort", "rotate_left", "rotate_right", "make_ascii_uppercase", "make_ascii_lowercase"):
                bad.append((t["ln"], "a %s over the characters" % method(t)))
    # order: characters put in one at a time inside a loop must go to a position that moves with the loop
    from ..cfg import Cfg
    cfg_ = Cfg(f)
    pvf = Prov(f)
    for h, body in cfg_.natural_loops().items():
        for bi, t in f.calls():
            if bi in body and method(t) in ("insert", "push_front") and len(t["args"]) >= 2:
                if method(t) == "push_front":
                    bad.append((t["ln"], "pushed to the front one by one inside a loop (the characters come out in reverse order)"))
                    continue
                roots = roots_of(f, pvf, t["args"][1])
                moving = any(o[0] == "call" and o[1] in body and last(norm(o[3] or o[2] or "")) in ("next", "len") for o in roots)
                pl = place_of(t["args"][1])
                if pl:
                    moving = moving or any(b2 in body for (b2, si, k, x) in pvf.defs.get(pl[0], []) if k == "assign" and x["rv"]["k"] in ("bin", "checked"))
                    # a plain copy of a loop-updated local
                    for (b2, si, k, x) in pvf.defs.get(pl[0], []):
                        if k == "assign" and x["rv"]["k"] == "use" and place_of(x["rv"]["op"]):
                            src = place_of(x["rv"]["op"])[0]
                            moving = moving or any(b3 in body and k3 == "assign" and x3["rv"]["k"] in ("bin", "checked", "use") and b3 != b2 for (b3, s3, k3, x3) in pvf.defs.get(src, []) if len(pvf.defs.get(src, [])) > 1)
                if not moving:
                    bad.append((t["ln"], "inserted at the same position on every iteration of a loop (a multi-character insertion comes out in reverse order)"))
    if bad:
        ck.refuted(rule, "Suggestion::apply:stores", f.loc(bad[0][0]), "a character written into the text is %s: applying the suggestion does not produce prefix + replacement + suffix" % bad[0][1])
    else:
        ck.proved(rule, "Suggestion::apply:stores", f.span, "%d character stores; each copies a character of the text or of the suggestion (only index/iter/copied/split_off/extend on the way)" % n)


def _span_sources(ck, p):
    from ..common import arg_roots as roots_of
    from ..prov import field_names, flatten
    rule = "R-C03-span"
    n = 0
    bad = []
    for f in sorted(p.fns.values(), key=lambda f: f.name):
        if not f.name.startswith("harper_core::linting::") or f.get("kind") == "Promoted":
            continue
        pv = None
        for b in f.blocks:
            if b["cleanup"]:
                continue
            for sx in b["s"]:
                if sx["k"] == "assign" and sx["rv"]["k"] == "agg" and sx["rv"].get("name", "").endswith("linting::lint::Lint"):
                    fl = dict(zip(sx["rv"].get("fields", []), sx["rv"]["ops"]))
                    if "span" not in fl:
                        continue
                    pv = pv or Prov(f)
                    n += 1
                    names = set()
                    stack = [fl["span"]]
                    seen_c = set()
                    while stack:
                        op = stack.pop()
                        raw = pv.trace_operand(op)
                        names |= set(field_names(raw))
                        pl_ = place_of(op)
                        if pl_:
                            names |= {e[2] for e in pl_[1:] if isinstance(e, list) and e[0] == "f"}
                        for o in flatten(raw):
                            if o[0] == "call" and o[1] not in seen_c and len(seen_c) < 60:
                                seen_c.add(o[1])
                                nm_ = last(norm(o[3] or o[2] or ""))
                                if nm_ in ("new", "new_with_len", "pushed_by", "pulled_by", "with_len", "saturating_sub", "min", "max", "unwrap", "unwrap_or", "expect", "add", "sub"):
                                    stack += list(f.blocks[o[1]]["t"]["args"])
                    if "kind" in names:
                        bad.append((keyname(p, f), f.loc(sx["ln"])))
    ck.floor(rule, "Lint literals in harper_core::linting", n, 20)
    seen = set()
    for fn, where in bad:
        if fn in seen:
            continue
        seen.add(fn)
        ck.refuted(rule, "span-from-kind:%s" % fn, where, "the lint span is computed from the payload of a token kind (e.g. the n of Space(n)), which is not a number of characters: the span can cover other characters than the flagged ones or run past the end of the text (a tab is Space(2) over one character)")
    if not bad:
        ck.proved(rule, "span-from-kind", "", "%d Lint literals; no span derives from a token-kind payload" % n)
