"""C04 — only prose is checked, at its true position (unit discipline, filters, re-basing)."""
import re

from .. import facts
from ..cfg import Cfg
from ..common import arg_fields, arg_roots, def_of, inst_of, method, target_of
from ..prov import Prov, flatten, field_names
from ..prover import Ctx, analyze, UNKNOWN
from ..util import fns_by_key, keyname, place_of, norm, last, with_closures, const_str
from . import c01, c02, c05
from .c13 import ops_on, _base_local

LEVEL = "other"
EVENT = "pulldown_cmark::Event"
TAG = "pulldown_cmark::Tag"
UNLINTABLE_EVENTS = ("Code", "InlineMath", "DisplayMath", "Html", "InlineHtml")


def run(ck, tier):
    _run(ck, tier)
    _scratch(ck, facts.load())
    _gitcut(ck, facts.load())
    _resume(ck, facts.load())
    _leaders(ck, facts.load())


def _run(ck, tier):
    ck.rule("R-C04-units", "byte offsets never reach a char-indexed sink unconverted: tree-sitter byte ranges pass byte_spans_to_char_spans (against the very text that was parsed) before they become a Mask or index the source; in Markdown::parse no Span / slice index / shift derives from a pulldown-cmark byte range except through chars().count(); Typst spans are built from OffsetCursor.char, never .byte; in every front-end crate no byte length or byte position of a str/String (len, find, rfind, char_indices ...) reaches Span::new / new_with_len / push_by / pull_by or an index into the char source unless it went through chars().count() (lengths of ASCII literals excepted); the Typst translator hands the English lexer only verbatim source text (ast::Text::get, SyntaxNode::text), never an accessor that resolves escapes")
    ck.rule("R-C04-filter", "what is offered to the English lexer: Markdown::parse calls the English parser only in the Text event and never under a CodeBlock tag; Code/InlineMath/DisplayMath/Html/InlineHtml events and code-block text push only Unlintable tokens; comment/HTML node conditions test the node kind against \"comment\" / \"text\"; CommentMasker filters every allowed span through the ignore predicate")
    ck.rule("R-C04-scratch", "the tree-sitter front ends decide what is prose from a parse of the current text alone: Parser::parse is given no old tree - or, if one is reused, the edit that describes the change is well formed (start_byte <= old_end_byte and <= new_end_byte: a common prefix and a common suffix counted independently over the same two texts can overlap, e.g. 'aa' -> 'aaa')")
    ck.rule("R-C04-rebase", "per-line comment parsers and Mask::parse re-base inner tokens by the start of the cut (rule instances of R-C02-rebase)")
    ck.not_decided += ["that the tree-sitter grammars classify comments correctly", "without_initiators character classes", "Literate Haskell: ill-formed files (a bird track that does not follow a blank line, \\end{code} outside a block)", "pulldown-cmark's event ranges"]
    p = facts.load()
    byk = fns_by_key(p)
    _ts_units(ck, p, byk)
    _md(ck, p, byk)
    _typst(ck, p)
    _conditions(ck, p, byk)
    _byte_lengths(ck, p)
    _typst_verbatim(ck, p)
    _lhs(ck, p, byk)
    c02._rebase_cut(c05._Sub(ck, "R-C04-rebase", ""), p, byk)
    c02._rebase_acc(c05._Sub(ck, "R-C04-rebase", ""), p, byk)


# ---------------------------------------------------------------------------------------------------
def _ts_units(ck, p, byk):
    rule = "R-C04-units"
    conv = "harper_tree_sitter::byte_spans_to_char_spans"
    for key in ("<TreeSitterMasker as Masker>::create_mask", "TreeSitterMasker::create_ident_dict"):
        fs = byk.get(key)
        if not ck.anchor(rule, key, fs):
            continue
        f = fs[0]
        ck.saw(f)
        cfg = Cfg(f)
        pv = Prov(f)
        cv = [(bi, t) for bi, t in f.calls() if inst_of(t) == conv]
        if len(cv) != 1:
            ck.refuted(rule, "%s:convert" % key, f.span, "expected exactly one byte_spans_to_char_spans call, found %d: byte ranges from tree-sitter would be used as char positions" % len(cv))
            continue
        cb, ct = cv[0]
        vec = pv.mut_base.get(place_of(ct["args"][0])[0]) if place_of(ct["args"][0]) else None
        ops = ops_on(f, pv, vec) if vec is not None else []
        # closures that capture the vector (the ident collector pushes through a captured &mut)
        fills = [bi for m, bi, t in ops if m in ("extract_comments",)]
        for b in f.blocks:
            for s in b["s"]:
                if s["k"] == "assign" and s["rv"]["k"] == "agg" and s["rv"].get("agg") == "closure":
                    for o in s["rv"]["ops"]:
                        pl = place_of(o)
                        if pl and pv.mut_base.get(pl[0]) == vec:
                            fills.append(f.blocks.index(b))
        consumes = [(m, bi, t) for m, bi, t in ops if m in ("into_iter", "iter", "iter_mut", "deref", "index", "get", "len", "first", "last") and bi != cb]
        conv_before_use = bool(consumes) and all(cfg.dominates(cb, bi) and cb != bi for _, bi, _ in consumes)
        fill_before = bool(fills) and all(cfg.dominates(fb, cb) for fb in fills)
        # same text: the String handed to the converter is the one that was parsed
        parse = [(bi, t) for bi, t in f.calls() if inst_of(t).endswith("::parse_root")]
        same_text = bool(parse) and _ref_local(f, pv, ct["args"][1]) == _ref_local(f, pv, parse[0][1]["args"][1]) and _ref_local(f, pv, ct["args"][1]) is not None
        ck.decide(rule, "%s:convert" % key, conv_before_use and fill_before and same_text, f.loc(ct["ln"]),
                  "the span vector is filled from byte ranges before the conversion=%s; every later use (%s) is dominated by the conversion=%s; converted against the parsed text=%s" % (fill_before, sorted({m for m, _, _ in consumes}), conv_before_use, same_text))
    fs = byk.get(conv)
    if ck.anchor(rule, "byte_spans_to_char_spans", fs):
        f = fs[0]
        ck.saw(f)
        bodies = with_closures(p, f)
        has_count = any(method(t) == "count" for b in bodies for _, t in b.calls())
        has_chars = any(method(t) == "chars" for b in bodies for _, t in b.calls())
        writes = set()
        for b in bodies:
            for blk in b.blocks:
                for s in blk["s"]:
                    if s["k"] == "assign" and len(s["lhs"]) > 1 and isinstance(s["lhs"][-1], list) and s["lhs"][-1][0] == "f":
                        writes.add(s["lhs"][-1][2])
        ck.decide(rule, "byte_spans_to_char_spans:converter", has_count and has_chars and {"start", "end"} <= writes, f.span, "rewrites span.start and span.end from chars().count() of the text prefix: chars=%s count=%s fields written=%s" % (has_chars, has_count, sorted(writes & {"start", "end"})))
    # the byte sources: extract_comments pushes node.byte_range()
    fs = byk.get("TreeSitterMasker::extract_comments")
    if ck.anchor(rule, "TreeSitterMasker::extract_comments", fs):
        f = fs[0]
        srcs = sorted({method(t) for b in with_closures(p, f) for _, t in b.calls() if "tree_sitter" in inst_of(t)})
        ck.proved(rule, "extract_comments:source", f.span, "tree-sitter position sources used: %s (byte units)" % srcs)


def _ref_local(f, pv, op):
    pl = place_of(op)
    if not pl:
        return None
    l = pl[0]
    for _ in range(8):
        nxt = None
        for (bi, si, kind, x) in pv.defs.get(l, []):
            if kind == "assign" and len(x["lhs"]) == 1 and x["rv"]["k"] in ("ref", "use"):
                q = x["rv"].get("place") or place_of(x["rv"]["op"])
                if q:
                    nxt = q[0]
            elif kind == "call" and method(x) in ("deref", "as_str", "as_ref", "borrow") and place_of(x["args"][0]):
                nxt = place_of(x["args"][0])[0]
        if nxt is None:
            return l
        l = nxt
    return l


# ---------------------------------------------------------------------------------------------------
def _md(ck, p, byk):
    fs = byk.get("<Markdown as Parser>::parse")
    if not ck.anchor("R-C04-filter", "<Markdown as Parser>::parse", fs):
        return
    f = fs[0]
    ck.saw(f)
    ev = p.ext_adts.get(EVENT)
    tg = p.ext_adts.get(TAG)
    if not (ck.anchor("R-C04-filter", EVENT, ev) and ck.anchor("R-C04-filter", TAG, tg)):
        return
    ev_idx = {v["name"]: v["idx"] for v in ev["variants"]}
    ev_name = {v["idx"]: v["name"] for v in ev["variants"]}
    cb_idx = {v["name"]: v["idx"] for v in tg["variants"]}["CodeBlock"]
    seen = {"parse": [], "tokens": []}

    def is_ty(l, frag):
        return frag in f.local_tystr(l)

    def edge(cx, fn, bb, dv0, val, st):
        if fn is not f or dv0[0] != "disc":
            return
        l = dv0[1]
        if is_ty(l, "pulldown_cmark::Event") and isinstance(val, int):
            st.vals["event"] = ("flag", ev_name.get(val, str(val)))
        elif is_ty(l, "pulldown_cmark::Event"):
            if st.vals.get("event") is None:
                st.vals["event"] = ("flag", "other")
        elif is_ty(l, "pulldown_cmark::Tag") and "Option<" not in f.local_tystr(l):
            if val == cb_idx:
                st.vals["codeblock"] = ("flag", True)
            elif isinstance(val, tuple) and cb_idx in val[1]:
                st.vals["not_cb"] = ("flag", True)       # the edge on which the tag is known not to be a CodeBlock
            elif isinstance(val, int) and val != cb_idx:
                st.vals["not_cb"] = ("flag", True)       # the arm of another variant (`match tag { Tag::Paragraph => .. }`)
        elif "Option<&pulldown_cmark::Tag" in f.local_tystr(l) and (val == 0 or (isinstance(val, tuple) and 1 in val[1] and 0 not in val[1])):
            st.vals["no_tag"] = ("flag", True)

    def block(cx, fn, bb, st, is_header):
        if fn is f and is_header:
            st.vals.pop("event", None)
            st.vals["codeblock"] = ("flag", False)
            st.vals["not_cb"] = ("flag", False)
            st.vals["no_tag"] = ("flag", False)

    def call(cx, fn, bb, t, a, st, reports):
        if fn is f and def_of(t) == "harper_core::parsers::Parser::parse":
            tested = st.vals.get("not_cb", ("flag", False))[1] is True or st.vals.get("no_tag", ("flag", False))[1] is True
            seen["parse"].append((bb, st.vals.get("event", ("flag", None))[1], st.vals.get("codeblock", ("flag", False))[1] if tested else "untested"))
        return None

    def stmt(cx, fn, bb, s, st):
        if fn is f and s["k"] == "assign" and s["rv"]["k"] == "agg" and s["rv"].get("name", "").endswith("token::Token"):
            fields = dict(zip(s["rv"]["fields"], s["rv"]["ops"]))
            kind = fields.get("kind", {})
            k = kind.get("k", {})
            txt = k.get("const") or k.get("txt") or ""
            kname = "Unlintable" if "Unlintable" in txt else _kind_of(f, kind)
            seen["tokens"].append((s["ln"], st.vals.get("event", ("flag", None))[1], st.vals.get("codeblock", ("flag", False))[1], kname))
    cx = Ctx(p, {"edge": edge, "block": block, "call": call, "stmt": stmt, "partitions": 8})
    args, fsx = c01.generic_args(cx, f)
    analyze(cx, f, args, fsx, init_vals={"codeblock": ("flag", False), "not_cb": ("flag", False), "no_tag": ("flag", False)})
    rule = "R-C04-filter"
    if not seen["parse"]:
        ck.refuted(rule, "Markdown::parse:english-call", f.span, "the call of the inner English parser was not reached by the analysis")
    else:
        bad = [(ev_, cbk) for _, ev_, cbk in seen["parse"] if ev_ != "Text" or cbk is not False]
        ck.decide(rule, "Markdown::parse:english-call", not bad, f.span, "the English parser is reached only in states (event, under CodeBlock) = %s" % sorted({(e, c) for _, e, c in seen["parse"]}, key=str))
    bad_tok = sorted({(ln, e, k) for ln, e, cbk, k in seen["tokens"] if (e in UNLINTABLE_EVENTS or cbk is True) and k != "Unlintable"})
    n_unl = len({ln for ln, e, cbk, k in seen["tokens"] if e in UNLINTABLE_EVENTS or cbk is True})
    ck.floor(rule, "token constructions in non-prose Markdown arms", n_unl, 1)
    ck.decide(rule, "Markdown::parse:non-prose-unlintable", not bad_tok, f.span, "tokens built for Code/Math/Html events and code-block text are all Unlintable%s" % ("" if not bad_tok else "; exceptions (line, event, kind): %s" % bad_tok))
    # units
    _md_units(ck, p, f)


def _kind_of(f, op):
    pl = place_of(op)
    if not pl:
        return "?"
    for b in f.blocks:
        for s in b["s"]:
            if s["k"] == "assign" and s["lhs"] == [pl[0]] and s["rv"]["k"] == "agg":
                return s["rv"].get("vname", "?")
            if s["k"] == "assign" and s["lhs"] == [pl[0]] and s["rv"]["k"] == "use":
                k = s["rv"]["op"].get("k", {})
                t = k.get("const") or ""
                m = re.search(r"TokenKind::(\w+)", t)
                if m:
                    return m.group(1)
    return "?"


def _md_units(ck, p, f):
    rule = "R-C04-units"
    bodies = with_closures(p, f)
    pv = Prov(f)
    names = {n: l for l, n in f.debug_names().items()}
    tb = names.get("traversed_bytes")
    rng = names.get("range")

    def byte_tainted(op, depth=0, seen=None):
        """does the operand derive from a byte quantity without passing a chars().count()?"""
        seen = set() if seen is None else seen
        pl = place_of(op)
        if pl and (pl[0] == tb or pl[0] == rng):
            return True
        for o in pv.trace_operand(op):
            if _tainted_origin(o, depth, seen):
                return True
        return False

    def _tainted_origin(o, depth, seen):
        if o in seen or depth > 12 or not isinstance(o, tuple):
            return False
        seen.add(o)
        k = o[0]
        if k == "call":
            if last(norm(o[3] or o[2] or "")) in ("count", "len_utf16", "chars"):
                return False        # converter
            t = f.blocks[o[1]]["t"]
            return any(byte_tainted(a, depth + 1, seen) for a in t["args"])
        if k == "field":
            # a field of the (event, range) item: `range` is field 1 of the tuple; its .start/.end are bytes
            if o[3] in ("start", "end") and _is_range_item(o[1]):
                return True
            return _tainted_origin(o[1], depth + 1, seen)
        if k == "bin":
            return any(_tainted_origin(x, depth + 1, seen) for x in list(o[2]) + list(o[3]))
        if k in ("un",):
            return any(_tainted_origin(x, depth + 1, seen) for x in o[2])
        if k == "agg":
            return any(_tainted_origin(x, depth + 1, seen) for ops in o[3] for x in ops)
        return False

    def _is_range_item(o):
        """the `range` component of the (event, range) item yielded by the offset iterator"""
        if isinstance(o, tuple) and o[0] == "field" and o[2] == 1:
            x = o[1]
            if isinstance(x, tuple) and x[0] == "field" and isinstance(x[1], tuple) and x[1][0] == "call" and last(norm(x[1][3] or x[1][2] or "")) == "next":
                return True
        return False
    sinks = []
    for bi, t in f.calls():
        i = inst_of(t)
        if i in ("harper_core::span::{impl}::new", "harper_core::span::{impl}::new_with_len", "harper_core::span::{impl}::push_by"):
            for a in t["args"]:
                sinks.append((t, a, last(i)))
        elif method(t) == "index" and f.debug_names().get(_base_local(f, pv, t["args"][0])) == "source":
            # source[a..b]: range aggregate operands
            for o in pv.trace_operand(t["args"][1]):
                pass
            sinks.append((t, t["args"][1], "source[..]"))
    bad = [(what, t["ln"]) for t, a, what in sinks if byte_tainted(a)]
    ck.floor(rule, "char-indexed sinks in Markdown::parse", len(sinks), 4)
    if bad:
        ck.refuted(rule, "Markdown::parse:units", f.loc(bad[0][1]), "a char-indexed sink (%s) receives a value derived from a pulldown-cmark byte offset without chars().count(): every token after a multi-byte character would be displaced" % bad[0][0])
    else:
        ck.proved(rule, "Markdown::parse:units", f.span, "%d char-indexed sinks (Span::new*, push_by, source[..]); none derives from range.start/end or traversed_bytes except through chars().count()" % len(sinks))
    # the accumulators move in lock step: chars += source_str[bytes..X].chars().count(); bytes = X
    tc = names.get("traversed_chars")
    cfg = Cfg(f)
    if tc is None or tb is None:
        ck.refuted(rule, "anchor-missing:Markdown::parse:accumulators", f.span, "traversed_chars / traversed_bytes not found")
        return
    parsed = [t for bi, t in f.calls() if "pulldown_cmark::parse::" in inst_of(t) and last(norm(inst_of(t))) in ("new_ext", "new")]
    parsed_base = _base_local(f, pv, parsed[0]["args"][0]) if parsed else None

    def origin_key(op):
        pl = place_of(op)
        if pl is None:
            return ("const", str(op.get("k")))
        # follow plain copies of a local
        l = pl
        for _ in range(6):
            ds = [x for (b2, si, kind, x) in pv.defs.get(l[0], []) if kind == "assign"]
            if len(l) == 1 and len(ds) == 1 and ds[0]["rv"]["k"] == "use" and place_of(ds[0]["rv"]["op"]):
                l = place_of(ds[0]["rv"]["op"])
            else:
                break
        return ("place", str(l))

    def loop_defs(local):
        out = []
        for (bi, si, kind, x) in pv.defs.get(local, []):
            if kind == "assign" and not (x["rv"]["k"] == "use" and "k" in x["rv"]["op"]):
                out.append((bi, x))
        return out

    def char_step(x):
        """for `tc = (tc + count(chars(index(S, Range{a, b})))).0` return (S base, a key, b key) else None"""
        if x["rv"]["k"] != "use" or not place_of(x["rv"]["op"]):
            return None
        src = place_of(x["rv"]["op"])[0]
        adds = [d for (b2, si, kind, d) in pv.defs.get(src, []) if kind == "assign" and d["rv"]["k"] in ("bin", "checked") and str(d["rv"].get("op", "")).startswith("Add")]
        if len(adds) != 1:
            return None
        a, b = adds[0]["rv"]["a"], adds[0]["rv"]["b"]
        ops = [o for o in (a, b) if not (place_of(o) and place_of(o)[0] == tc)]
        if len(ops) != 1 or not place_of(ops[0]):
            return None
        cnt = [d for (b2, si, kind, d) in pv.defs.get(place_of(ops[0])[0], []) if kind == "call"]
        if len(cnt) != 1 or last(norm(inst_of(cnt[0]) or def_of(cnt[0]))) != "count":
            return None
        chars = [o for o in flatten(pv.trace_operand(cnt[0]["args"][0])) if o[0] == "call" and last(norm(o[3] or o[2] or "")) == "chars"]
        if len(chars) != 1:
            return None
        ct = f.blocks[chars[0][1]]["t"]
        idx = [o for o in flatten(pv.trace_operand(ct["args"][0])) if o[0] == "call" and last(norm(o[3] or o[2] or "")) == "index"]
        if len(idx) != 1:
            return None
        it = f.blocks[idx[0][1]]["t"]
        rng_defs = [d for (b2, si, kind, d) in pv.defs.get(place_of(it["args"][1])[0], []) if kind == "assign" and d["rv"]["k"] == "agg"]
        if len(rng_defs) != 1 or not rng_defs[0]["rv"].get("name", "").endswith("Range") or len(rng_defs[0]["rv"]["ops"]) != 2:
            return None
        return (_base_local(f, pv, it["args"][0]), origin_key(rng_defs[0]["rv"]["ops"][0]), origin_key(rng_defs[0]["rv"]["ops"][1]))

    problems = []
    tcd, tbd = loop_defs(tc), loop_defs(tb)
    steps = []
    for bi, x in tcd:
        st_ = char_step(x)
        if st_ is None:
            problems.append((x["ln"], "traversed_chars is advanced by something other than the char count of a slice of the parsed text"))
            continue
        base, a_key, b_key = st_
        if parsed_base is not None and base != parsed_base:
            problems.append((x["ln"], "traversed_chars counts the chars of another string than the one handed to pulldown-cmark"))
        if a_key != ("place", str([tb])):
            problems.append((x["ln"], "the counted slice does not start at traversed_bytes"))
        steps.append((bi, b_key))
    for bi, x in tbd:
        k = origin_key(x["rv"]["op"]) if x["rv"]["k"] == "use" else None
        match = [sb for sb, bk in steps if bk == k and (cfg.dominates(sb, bi) or sb == bi)]
        if not match:
            problems.append((x["ln"], "traversed_bytes moves to %s without traversed_chars advancing by the chars of the source between the old and the new byte offset" % (k,)))
    for sb, bk in steps:
        if not any((origin_key(x["rv"]["op"]) if x["rv"]["k"] == "use" else None) == bk and (cfg.dominates(sb, bi) or sb == bi) for bi, x in tbd):
            problems.append((f.blocks[sb]["s"][0]["ln"] if f.blocks[sb]["s"] else 0, "traversed_chars advances without traversed_bytes moving to the end of the counted slice"))
    ck.floor(rule, "lock-step updates of the Markdown byte/char cursors", len(steps), 1)
    if problems:
        ck.refuted(rule, "Markdown::parse:accumulator", f.loc(problems[0][0]), "%s: the char cursor no longer equals the number of chars before the byte cursor, and every later token is displaced (%d update(s) break the pairing)" % (problems[0][1], len(problems)))
    else:
        ck.proved(rule, "Markdown::parse:accumulator", f.span, "every update inside the loop is the pair `traversed_chars += parsed_text[traversed_bytes..X].chars().count(); traversed_bytes = X` (%d pair(s))" % len(steps))


# ---------------------------------------------------------------------------------------------------
def _typst(ck, p):
    rule = "R-C04-units"
    n = 0
    bad = []
    for f in p.fns.values():
        if not f.name.startswith("harper_typst::"):
            continue
        pv = None
        for bi, t in f.calls():
            i = inst_of(t)
            if i in ("harper_core::span::{impl}::new", "harper_core::span::{impl}::new_with_len", "harper_core::span::{impl}::push_by"):
                pv = pv or Prov(f)
                n += 1
                ck.saw(f)
                for a in t["args"]:
                    fields = arg_fields(pv, a)
                    if "byte" in fields:
                        bad.append((keyname(p, f), t["ln"]))
    ck.floor(rule, "span constructions / shifts in harper-typst", n, 1)
    if bad:
        ck.refuted(rule, "typst:units:%s" % bad[0][0], "", "a Span in harper-typst is built from OffsetCursor.byte (%s)" % bad[:2])
    else:
        ck.proved(rule, "typst:units", "", "%d span constructions/shifts in harper-typst; none reads the `.byte` component of an offset cursor" % n)


# ---------------------------------------------------------------------------------------------------
def _conditions(ck, p, byk):
    rule = "R-C04-filter"
    for key, lit, how in (("CommentParser::node_condition", "comment", "contains"), ("HtmlParser::node_condition", "text", "eq")):
        fs = byk.get(key)
        if not ck.anchor(rule, key, fs):
            continue
        f = fs[0]
        ck.saw(f)
        lits = []
        ops = []
        pvn = Prov(f)
        for bi, t in f.calls():
            for a in t["args"]:
                s = const_str(a)
                if s is None:
                    for o in flatten(pvn.trace_operand(a)):
                        if o[0] == "const":
                            m_ = re.match(r'^"(.*)"$', o[1])
                            if m_:
                                s = m_.group(1)
                if s is not None:
                    lits.append(s)
                    ops.append(method(t))
        kind_call = any(method(t) == "kind" for _, t in f.calls())
        ok = lits == [lit] and kind_call and (ops[0] in ("contains",) if how == "contains" else ops[0] in ("eq",))
        ck.decide(rule, key, ok, f.span, "tests node.kind() with %s against %s" % (ops, lits))
    fs = byk.get("<CommentMasker as Masker>::create_mask")
    if ck.anchor(rule, "<CommentMasker as Masker>::create_mask", fs):
        f = fs[0]
        ck.saw(f)
        pv = Prov(f)
        ms = [method(t) for _, t in f.calls()]
        filt = [(bi, t) for bi, t in f.calls() if method(t) == "filter"]
        ok = len(filt) == 1 and "collect" in ms and "iter_allowed" in ms
        detail = "chain %s" % [m for m in ms if m in ("create_mask", "iter_allowed", "map", "filter", "collect")]
        if ok:
            # the filter closure negates the ignore predicate
            good = False
            for c in p.closures_of(f.name):
                cpv = Prov(c)
                ret = cpv.trace_local(0)
                calls_pred = any("ignore_condition" in str(cpv.trace_operand(t["f"]["ptr"] and {"c": t["f"]["ptr"]})) for _, t in c.calls() if "ptr" in t["f"]) or any(def_of(t).endswith("ops::function::Fn::call") for _, t in c.calls())
                neg = any(o[0] == "un" and o[1] == "Not" for o in ret)
                if calls_pred and neg:
                    good = True
                    ck.saw(c)
            # filter sits between iter_allowed and collect on the only path
            ok = good
            detail += "; the filter closure returns !ignore_condition(text): %s" % good
        if not filt:
            # other forms of the same filter: filter_map(|(span, text)| (!ignore(text)).then_some(span)), retain ..
            fm = [(bi, t) for bi, t in f.calls() if method(t) in ("filter_map", "retain", "flat_map")]
            good = False
            for c in p.closures_of(f.name):
                calls_pred = any("ptr" in t["f"] or def_of(t).endswith("ops::function::Fn::call") for _, t in c.calls())
                neg = any(sx["k"] == "assign" and sx["rv"]["k"] == "un" and sx["rv"]["op"] == "Not" for b in c.blocks for sx in b["s"])
                if calls_pred and neg:
                    good = True
            if fm and good and "iter_allowed" in ms:
                ck.proved(rule, "CommentMasker::create_mask", f.span, "allowed regions pass a filter_map whose closure keeps a region only when !ignore_condition(text)")
            elif not fm and not any("ptr" in t["f"] or def_of(t).endswith("ops::function::Fn::call") for c in p.closures_of(f.name) for _, t in c.calls()):
                ck.refuted(rule, "CommentMasker::create_mask", f.span, detail + ": the allowed regions are passed on without any filter and the ignore condition is never called - comments that opt out (spellchecker:ignore ..., shebangs) are linted")
            else:
                ck.undecided(rule, "CommentMasker::create_mask", f.span, detail + ": no filter over iter_allowed() of a recognised form")
            return_after = True
        else:
            ck.decide(rule, "CommentMasker::create_mask", ok, f.span, detail)


# ---------------------------------------------------------------------------------------------------
FRONT = re.compile(r"^(harper_comments|harper_html|harper_literate_haskell|harper_typst|harper_tree_sitter)::|^harper_core::(parsers|mask|lexing)::")
BYTE_SRC = re.compile(r"(core::str::\{impl\}::(len|find|rfind|floor_char_boundary|ceil_char_boundary)$|alloc::string::\{impl\}::len$|core::str::\{impl\}::(char_indices|match_indices|rmatch_indices)$|core::str::iter::\{impl\}::offset$)")
PASS = {"min", "max", "saturating_sub", "saturating_add", "checked_sub", "checked_add", "wrapping_sub", "wrapping_add", "unwrap", "unwrap_or", "unwrap_or_default", "expect", "into", "from", "clone",
        "add", "sub", "mul", "next", "map", "and_then", "filter", "rev", "enumerate", "iter", "into_iter", "copied", "cloned", "deref", "as_ref", "borrow", "sum", "position", "rposition", "ok", "ok_or", "branch", "start", "end"}
SPAN_SINKS = ("harper_core::span::{impl}::new", "harper_core::span::{impl}::new_with_len", "harper_core::span::{impl}::push_by", "harper_core::span::{impl}::pull_by",
              "harper_core::span::{impl}::pushed_by", "harper_core::span::{impl}::pulled_by")


def _str_base(f, pv, op):
    """the owned String / &str local a str-typed operand is a plain view of (deref, as_str, borrow, re-borrow)"""
    pl = place_of(op)
    if not pl:
        return None
    l = pl[0]
    for _ in range(8):
        ds = [(k, x) for (b2, si, k, x) in pv.defs.get(l, [])]
        nxt = None
        for k, x in ds:
            if k == "assign" and x["rv"]["k"] == "ref":
                nxt = x["rv"]["place"][0]
            elif k == "assign" and x["rv"]["k"] == "use" and place_of(x["rv"]["op"]):
                nxt = place_of(x["rv"]["op"])[0]
            elif k == "call" and method(x) in ("deref", "as_str", "as_ref", "borrow", "as_mut_str") and place_of(x["args"][0]):
                nxt = place_of(x["args"][0])[0]
        if nxt is None or nxt == l or len(ds) != 1:
            return l
        l = nxt
    return l


def _ascii_proved(f, pv, cfg, recv_op, use_bb):
    """is the string whose byte length is taken known to be ASCII where it is used?  Accepted evidence: the
    very same string (no transformation in between) is the receiver of a `parse::<number>()` whose Ok arm, or of
    an `is_ascii()` whose true edge, dominates the use - a successful numeric parse implies ASCII."""
    base = _str_base(f, pv, recv_op)
    if base is None:
        return False
    for bi, t in f.calls():
        m = method(t)
        if m not in ("parse", "is_ascii", "from_str_radix", "from_str") or not t["args"]:
            continue
        if _str_base(f, pv, t["args"][0]) != base:
            continue
        if m in ("from_str_radix", "from_str") and not re.search(r"core::num::|core::str::traits::FromStr|num::dec2flt", norm(inst_of(t) or def_of(t) or "")):
            continue
        if m == "parse":
            ty = " ".join(f.ty(x)["s"] for x in t["f"].get("targs", []))
            if not re.search(r"\b(f32|f64|u8|u16|u32|u64|u128|usize|i8|i16|i32|i64|i128|isize)\b", ty):
                continue
        if cfg.dominates(bi, use_bb) and bi != use_bb:
            return True
    return False


def _byte_lengths(ck, p, scope=None, what_scope="front-end", floor=8):
    rule = "R-C04-units"
    scope = scope or FRONT
    n_fns = n_sinks = n_src = 0
    bad = []
    for f in sorted(p.fns.values(), key=lambda f: f.name):
        if not scope.match(f.name) or f.get("kind") == "Promoted":
            continue
        if f.name.startswith("harper_core::parsers::markdown::"):
            continue            # decided by the dedicated Markdown rule above (byte ranges, lock-step cursors)
        pv = None
        sinks = []
        for bi, t in f.calls():
            i = norm(inst_of(t) or "")
            if i in SPAN_SINKS:
                sinks += [(t, a, last(i)) for a in t["args"]]
            elif method(t) in ("index", "index_mut", "get") and len(t["args"]) > 1 and "[char]" in f.local_tystr(place_of(t["args"][0])[0] if place_of(t["args"][0]) else 0).replace("Vec<char>", "[char]"):
                sinks.append((t, t["args"][1], "index into the char source"))
        # struct literal Span { start, end }; FoundToken { next_index } (a char count the lexer loop trusts)
        for bi_, b in enumerate(f.blocks):
            for sx in b["s"]:
                if sx["k"] == "assign" and sx["rv"]["k"] == "agg" and sx["rv"].get("name", "").endswith("span::Span"):
                    sinks += [({"ln": sx["ln"], "bb": bi_}, o, "Span{..}") for o in sx["rv"]["ops"]]
                if sx["k"] == "assign" and sx["rv"]["k"] == "agg" and sx["rv"].get("name", "").endswith("lexing::FoundToken"):
                    fl = dict(zip(sx["rv"].get("fields", []), sx["rv"]["ops"]))
                    if "next_index" in fl:
                        sinks.append(({"ln": sx["ln"], "bb": bi_}, fl["next_index"], "FoundToken.next_index"))
        if not sinks:
            continue
        n_fns += 1
        n_sinks += len(sinks)
        pv = Prov(f)
        cfg_ = Cfg(f)

        def tainted(o, depth=0, seen=None):
            seen = set() if seen is None else seen
            if not isinstance(o, tuple) or o in seen or depth > 14:
                return None
            seen.add(o)
            k = o[0]
            if k == "call":
                full = norm(o[3] or o[2] or "")
                nm = last(full)
                if nm in ("count", "chars", "len_utf16", "byte_spans_to_char_spans"):
                    return None
                t = f.blocks[o[1]]["t"]
                if BYTE_SRC.search(full):
                    # the length of an ASCII literal is its char count as well
                    lits = [x for x in flatten(pv.trace_operand(t["args"][0]))] if t["args"] else []
                    if lits and all(x[0] == "const" and all(ord(c) < 128 for c in str(x[1])) for x in lits):
                        return None
                    if t["args"] and _ascii_proved(f, pv, cfg_, t["args"][0], o[1]):
                        return None
                    return "%s at %s" % (nm, f.loc(t["ln"]))
                if nm in PASS:
                    for a in t["args"]:
                        for o2 in pv.trace_operand(a):
                            r = tainted(o2, depth + 1, seen)
                            if r:
                                return r
                return None
            if k == "field":
                return tainted(o[1], depth + 1, seen)
            if k == "index":
                return tainted(o[1], depth + 1, seen)
            if k == "bin":
                for x in list(o[2]) + list(o[3]):
                    r = tainted(x, depth + 1, seen)
                    if r:
                        return r
            if k == "un":
                for x in o[2]:
                    r = tainted(x, depth + 1, seen)
                    if r:
                        return r
            if k == "agg":
                for ops in o[3]:
                    for x in ops:
                        r = tainted(x, depth + 1, seen)
                        if r:
                            return r
            return None
        for t, a, what in sinks:
            for o in pv.trace_operand(a):
                r = tainted(o)
                if r:
                    bad.append((keyname(p, f), f.loc(t["ln"]), what, r))
                    break
        for bi, t in f.calls():
            if BYTE_SRC.search(norm(inst_of(t) or def_of(t) or "")):
                n_src += 1
    ck.floor(rule, "%s functions with char-indexed sinks" % what_scope, n_fns, floor)
    ck.extra["byte_length_sinks"] = n_sinks
    ck.extra["byte_length_sources_seen"] = n_src
    seen_k = set()
    for fn, where, what, src in bad:
        if fn in seen_k:
            continue
        seen_k.add(fn)
        ck.refuted(rule, "bytes-as-chars:%s" % fn, where, "a byte quantity of a str/String (%s) reaches a char-indexed sink (%s) without chars().count(): every non-ASCII character before it displaces the span (and can push it past the end of the text)" % (src, what))
    if not bad:
        ck.proved(rule, "bytes-as-chars", "", ("%d char-indexed sinks in %d " + what_scope + " functions; none receives a str/String byte length or byte position (%d such sources exist in those functions, all converted or unrelated)") % (n_sinks, n_fns, n_src))


def _typst_verbatim(ck, p):
    rule = "R-C04-units"
    tr = [f for f in p.fns.values() if f.name.startswith("harper_typst::typst_translator::")]
    if not ck.anchor(rule, "harper_typst::typst_translator", tr):
        return
    n = 0
    bad = []
    for f in tr:
        pv = None
        for bi, t in f.calls():
            i = inst_of(t)
            is_pe = norm(i).endswith("typst_translator::{impl}::parse_english") or (def_of(t).endswith("parsers::StrParser::parse_str") and not f.name.endswith("::parse_english"))
            if not is_pe or len(t["args"]) < 2:
                continue
            pv = pv or Prov(f)
            n += 1
            # where does the text come from?
            stack = list(pv.trace_operand(t["args"][1]))
            seen = set()
            while stack:
                o = stack.pop()
                if not isinstance(o, tuple) or o in seen:
                    continue
                seen.add(o)
                if o[0] == "call":
                    full = norm(o[3] or o[2] or "")
                    ct = f.blocks[o[1]]["t"]
                    if full.startswith("typst_syntax::ast::") and last(full) == "get":
                        recv = f.local_tystr(place_of(ct["args"][0])[0]) if ct["args"] and place_of(ct["args"][0]) else "?"
                        if "ast::Text" not in recv:
                            bad.append((keyname(p, f), f.loc(t["ln"]), recv))
                        continue
                    for a in ct["args"]:
                        stack += list(pv.trace_operand(a))
                elif o[0] in ("field", "index"):
                    stack.append(o[1])
                elif o[0] == "agg":
                    for ops in o[3]:
                        stack += list(ops)
    ck.floor(rule, "texts handed to the English lexer by the Typst translator", n, 1)
    if bad:
        fn, where, recv = bad[0]
        ck.refuted(rule, "typst-verbatim:%s" % fn, where, "the English lexer receives the *value* of a %s (escapes resolved) but its tokens are placed as if it were the source text: after the first escape every token of the literal sits left of its characters" % recv)
    else:
        ck.proved(rule, "typst-verbatim", "", "%d texts handed to the English lexer: all are verbatim source (ast::Text::get or SyntaxNode::text)" % n)


# ---------------------------------------------------------------------------------------------------
# Literate Haskell: explicit-state check of the line classifier against the literate conventions
LHS_CLASSES = {"BEGIN": "\\begin{code}", "END": "\\end{code}", "BLANK": "", "BIRD": "> x = 1", "TEXT": "some prose"}


def _lhs(ck, p, byk):
    from ..interp import Interp, Stuck
    rule = "R-C04-lhs"
    ck.rule(rule, "Literate Haskell: the masker's per-line state machine is explored exhaustively over abstract lines (\\begin{code}, \\end{code}, blank, bird track, other) with the MIR of create_mask as the transition function (text_only masker), in lock step with the literate conventions (a \\begin{code} block lasts until \\end{code}; a bird block starts at a bird line after a blank line and lasts until a blank line): inside a \\begin{code} block no line is offered as prose, bird lines of a bird block are not prose, and an ordinary line outside any block is offered as prose")
    fs = [f for f in p.fns.values() if f.name.startswith("harper_literate_haskell::masker::") and last(f.name) == "create_mask"]
    if not ck.anchor(rule, "LiterateHaskellMasker::create_mask", fs):
        return
    f = fs[0]
    ck.saw(f)
    cfg = Cfg(f)
    loops = cfg.natural_loops()
    nexts = [(bi, t) for bi, t in f.calls() if method(t) == "next" and "Split" in f.local_tystr(place_of(t["args"][0])[0])]
    if len(nexts) != 1 or not loops:
        ck.refuted(rule, "anchor-missing:line-loop", f.span, "the loop over source.split('\\n') was not found")
        return
    nb, nt = nexts[0]
    head = [h for h, body in loops.items() if nb in body]
    head = max(head, key=lambda h: len(loops[h]))
    body = loops[head]
    # the Some arm of next()
    sw = f.blocks[nt["target"]]["t"]
    some_bb = None
    if sw["k"] == "switch":
        for v, x in sw["targets"]:
            if str(v) == "1":
                some_bb = x
    if some_bb is None:
        ck.refuted(rule, "anchor-missing:line-binding", f.span, "the Some arm of the line iterator was not found")
        return
    names = f.debug_names()
    pv = Prov(f)
    state_locals = sorted(l for l, n in names.items() if f.local_tystr(l) == "bool"
                          and any(b2 in body for (b2, si, k, x) in pv.defs.get(l, []))
                          and any(b2 not in body for (b2, si, k, x) in pv.defs.get(l, [])))
    init = {}
    for l in state_locals:
        ds = [x for (b2, si, k, x) in pv.defs.get(l, []) if b2 not in body and k == "assign"]
        if len(ds) == 1 and ds[0]["rv"]["k"] == "use" and "k" in ds[0]["rv"]["op"]:
            init[l] = ds[0]["rv"]["op"]["k"].get("txt") == "true"
    if len(init) != len(state_locals) or not state_locals:
        ck.undecided(rule, "create_mask:state", f.span, "loop-carried boolean state not recognised: %s" % [names[l] for l in state_locals])
        return

    class Done(Exception):
        pass

    def step(state, cls):
        text = LHS_CLASSES[cls]
        pushed = [False]

        def call(t, args):
            m = method(t)
            full = norm(inst_of(t) or def_of(t) or "")
            if m == "next" and "Split" in (f.local_tystr(place_of(t["args"][0])[0]) if place_of(t["args"][0]) else ""):
                raise Done()
            if m == "eq" and ("core::str::" in full or "cmp::impls" in full):
                consts = []
                for a in t["args"]:
                    c0 = const_str(a)
                    if c0 is None:
                        for o in flatten(pv.trace_operand(a)):
                            if o[0] == "const":
                                m0 = re.match(r'^"(.*)"$', str(o[1]), re.S)
                                if m0:
                                    c0 = m0.group(1)
                    if c0 is not None:
                        consts.append(c0)
                if len(consts) == 1:
                    c = consts[0].replace("\\\\", "\\")
                    return ("bool", text.strip() == c)
                return ("unknown", "eq")
            if m == "is_empty" and "core::str::" in full:
                return ("bool", text.strip() == "")
            if m == "is_some_and":
                return ("bool", text.startswith(">"))
            if full.endswith("mask::{impl}::push_allowed"):
                pushed[0] = True
            return ("unknown", "call " + m)

        def read(pl, env):
            if pl[0] == 1:
                fl = [e[2] for e in pl[1:] if isinstance(e, list) and e[0] == "f"]
                if fl == ["text"]:
                    return ("bool", True)
                if fl == ["code"]:
                    return ("bool", False)
            return None
        env = {l: ("bool", v) for l, v in zip(state_locals, state)}
        it = Interp(f, max_steps=3000)
        try:
            it.run(env, some_bb, 0, {"call": call, "read": read})
            raise Stuck("returned from inside the loop body")
        except Done:
            pass
        out = []
        for l in state_locals:
            v = env.get(l)
            if not v or v[0] != "bool":
                raise Stuck("state variable %s is not a definite boolean after the iteration" % names[l])
            out.append(v[1])
        return tuple(out), pushed[0]

    def ghost_step(g, prev_blank, cls):
        if g == "LATEX":
            return "OUT" if cls == "END" else "LATEX"
        if g == "BIRD":
            return "OUT" if cls in ("BLANK", "END") else "BIRD"
        if cls == "BEGIN":
            return "LATEX"
        if cls == "BIRD" and prev_blank:
            return "BIRD"
        return "OUT"
    start = (tuple(init[l] for l in state_locals), "OUT", False)
    seen = {start: None}
    work = [start]
    viol = []
    n_trans = 0
    try:
        while work:
            cur = work.pop()
            st, g, pb = cur
            for cls in LHS_CLASSES:
                n_trans += 1
                st2, pushed = step(st, cls)
                g2 = ghost_step(g, pb, cls)
                kind = None
                if g == "LATEX" and pushed:
                    kind = "a line inside a \\begin{code} block is offered as prose"
                elif g == "BIRD" and cls == "BIRD" and pushed:
                    kind = "a bird-track line of a bird block is offered as prose"
                elif g == "OUT" and g2 == "OUT" and cls == "TEXT" and not pushed:
                    kind = "an ordinary line outside any code block is not offered as prose"
                if kind:
                    viol.append((kind, cur, cls))
                nxt = (st2, g2, cls == "BLANK")
                if nxt not in seen:
                    seen[nxt] = (cur, cls)
                    work.append(nxt)
    except Stuck as e:
        ck.undecided(rule, "create_mask:state-machine", f.span, "the abstract evaluation of the loop body left the interpreted fragment: %s" % e)
        return
    ck.extra["lhs_states"] = len(seen)
    ck.extra["lhs_transitions"] = n_trans
    if viol:
        kind, cur, cls = viol[0]
        # shortest line sequence leading to the violating configuration
        path = [cls]
        x = cur
        while seen.get(x):
            x, c = seen[x]
            path.append(c)
        path.reverse()
        ck.refuted(rule, "create_mask:state-machine", f.span, "%s; shortest file that shows it, line by line: %s (masker state %s = %s before the last line)" % (
            kind, " / ".join(path), [names[l] for l in state_locals], list(cur[0])), {"lines": path})
    else:
        ck.proved(rule, "create_mask:state-machine", f.span, "%d reachable (masker state, convention state) pairs, %d transitions; the classification agrees with the literate conventions on all of them (state variables: %s)" % (len(seen), n_trans, [names[l] for l in state_locals]))


# ---------------------------------------------------------------------------------------------------
def _scratch(ck, p):
    rule = "R-C04-scratch"
    sites = []
    for f in p.fns.values():
        if not f.name.startswith("harper_tree_sitter::") and not f.name.startswith("harper_comments::") and not f.name.startswith("harper_html::"):
            continue
        for bi, t in f.calls():
            if norm(inst_of(t)).startswith("tree_sitter::{impl}::parse") and method(t) == "parse" and len(t["args"]) >= 3:
                sites.append((f, bi, t))
    ck.floor(rule, "tree_sitter::Parser::parse call sites", len(sites), 1)
    for f, bi, t in sites:
        ck.saw(f)
        pv = Prov(f)
        key = "%s:old-tree" % keyname(p, f)
        old = [o for o in pv.trace_operand(t["args"][2])]
        none = bool(old) and all(o[0] == "agg" and str(o).count("None") for o in old)
        if none:
            ck.proved(rule, key, f.loc(t["ln"]), "Parser::parse(text, None): every text is parsed from scratch")
            continue
        # an old tree is reused: look at how the edit is described
        edits = []
        for g in p.fns.values():
            if not g.name.startswith(f.name.split("::")[0] + "::"):
                continue
            for b in g.blocks:
                for sx in b["s"]:
                    if sx["k"] == "assign" and sx["rv"]["k"] == "agg" and str(sx["rv"].get("name", "")).endswith("InputEdit"):
                        edits.append((g, sx))
        if not edits:
            ck.undecided(rule, key, f.loc(t["ln"]), "an old tree is handed to Parser::parse, no InputEdit is built in this crate: whether the reused tree matches the text is not decided")
            continue
        bad = None
        for g, sx in edits:
            gv = Prov(g)
            ops = sx["rv"]["ops"]
            def counts(op):
                return {o[1] for o in arg_roots(g, gv, op) if o[0] == "call" and method(g.blocks[o[1]]["t"]) == "count"}
            def related(op):
                return any(o[0] == "call" and method(g.blocks[o[1]]["t"]) in ("min", "saturating_sub", "checked_sub", "max", "clamp") for o in arg_roots(g, gv, op))
            start_c = counts(ops[0])
            for k in (1, 2):
                end_c = counts(ops[k])
                if start_c and end_c and not (start_c & end_c) and not related(ops[k]) and not related(ops[0]):
                    bad = (g, sx, k)
        if bad:
            g, sx, k = bad
            ck.refuted(rule, key, g.loc(sx["ln"]), "the old tree is reused with an edit whose start is one run count (the common prefix) and whose %s is a length minus another, independent run count (the common suffix): nothing keeps the two from overlapping, so for a change that repeats its surroundings ('aa' -> 'aaa', a duplicated line) the end lies before the start and tree-sitter keeps node ranges of the old text - code is offered as prose and prose is dropped" % ("old_end_byte" if k == 1 else "new_end_byte"))
        else:
            ck.undecided(rule, key, f.loc(t["ln"]), "an old tree is reused; the edit description is not of a recognised shape, whether it is faithful is not decided")


# ---------------------------------------------------------------------------------------------------
GIT_REVERSE = re.compile(r"::(rev|rposition|rfind|rsplit|rsplitn|rsplit_once|next_back|nth_back|rfold|last|split_last|strip_suffix|trim_end_matches|ends_with)$")
GIT_FORWARD = ("position", "find", "find_map", "take_while", "split", "split_once", "splitn", "split_inclusive", "lines")


def _gitcut(ck, p):
    """git-commit files: everything from git's first comment character on is the template (and, with
    `commit -v`, the diff).  The code's mechanism is a cut of the text at the first '#'; what must not
    happen is (a) no cut at all, (b) a cut that is found from the *end* of the file (it stops at the
    first non-comment line from the bottom and leaves earlier comment blocks - squash templates, the
    verbose diff after the scissors line - in the lintable text)."""
    rule = "R-C04-gitcut"
    ck.rule(rule, "GitCommitParser::parse hands the inner parser a prefix of the file that starts at offset 0 (so offsets stay true) and ends where a forward search for git's comment character '#' first succeeds: not the whole file, and not a cut located by scanning from the end of the file (which leaves every comment block but the last - and, under commit -v, the diff - in the lintable text)")
    byk = fns_by_key(p)
    key = "<GitCommitParser as Parser>::parse"
    fs = byk.get(key)
    if not ck.anchor(rule, key, fs):
        return
    f = fs[0]
    ck.saw(f)
    pv = Prov(f)
    bodies = with_closures(p, f)
    inner = []
    for bi, t in f.calls():
        if method(t) == "parse" and len(t["args"]) == 2 and any(o[0] == "field" or o == ("arg", 1) for o in pv.trace_operand(t["args"][0])):
            inner.append((bi, t))
    ck.floor(rule, "calls of the inner parser in GitCommitParser::parse", len(inner), 1)
    hash_cmp = any("'#'" in str(sx) or "'#'" in str(b["t"]) for g in bodies for b in g.blocks if not b["cleanup"] for sx in b["s"] + [{"t": b["t"]}])
    rev = sorted({last(norm(inst_of(t))) for g in bodies for _, t in g.calls() if GIT_REVERSE.search(norm(inst_of(t)))})
    fwd = sorted({method(t) for g in bodies for _, t in g.calls() if method(t) in GIT_FORWARD})
    for bi, t in inner:
        k = "GitCommitParser::parse:cut"
        direct = pv.trace_operand(t["args"][1])
        if direct and all(o == ("arg", 2) for o in direct):
            ck.refuted(rule, k, f.loc(t["ln"]), "the whole file is handed to the inner parser: git's comment lines (and the diff under commit -v) are offered to the rules")
            continue
        cut = [o for o in direct if o[0] == "call" and last(o[2]) in ("index", "get", "split_at", "get_content", "unwrap", "unwrap_or", "unwrap_or_default", "0")]
        if not cut:
            ck.undecided(rule, k, f.loc(t["ln"]), "the text handed to the inner parser is not a recognised cut of the source (%s)" % sorted(str(o[2]) if o[0] == "call" else str(o[0]) for o in direct)[:4])
            continue
        starts = []
        for o in direct:
            if o[0] != "call":
                continue
            ct = f.blocks[o[1]]["t"]
            if len(ct["args"]) >= 2:
                for r in pv.trace_operand(ct["args"][1]):
                    if r[0] == "agg" and "Range" in str(r[2]) and len(r[3]) == 2:
                        starts.append(r[3][0])
        if starts and not all(st == frozenset({("const", "0")}) for st in starts):
            ck.undecided(rule, k, f.loc(t["ln"]), "the cut does not start at offset 0; whether the inner tokens are re-based is not decided here")
            continue
        if rev:
            ck.refuted(rule, k, f.loc(t["ln"]), "the end of the lintable text is located by scanning from the end of the file (%s): that finds the last block of comment lines only - an earlier comment block (the template of a squash / rebase message) or anything that follows the comment block (the scissors line and the diff of commit -v) stays in the text handed to the inner parser" % ", ".join(rev))
        elif hash_cmp and fwd:
            ck.proved(rule, k, f.loc(t["ln"]), "source[0..end] with end from a forward search (%s) for '#' (whole length if there is none)" % ", ".join(fwd))
        else:
            ck.undecided(rule, k, f.loc(t["ln"]), "the cut is not located by a recognised forward search for '#' (forward searches seen: %s; comparison with '#': %s)" % (fwd, hash_cmp))


# ---------------------------------------------------------------------------------------------------
def _linform(f, pv, op, depth=0):
    """symbolic linear form of a usize operand: ({atom: coeff}, const) or None.  Atoms are locals with several
    definitions (loop variables) or values that are not sums (call results, fields)."""
    from ..util import const_int
    if isinstance(op, dict) and "k" in op:
        c = const_int(op)
        return ({}, c) if c is not None else None
    pl = place_of(op)
    if not pl or depth > 10:
        return None
    if len(pl) == 2 and isinstance(pl[1], list) and pl[1][0] == "f" and pl[1][1] == 0:
        ds = [x for (b, si, kind, x) in pv.defs.get(pl[0], []) if kind == "assign"]
        if len(ds) == 1 and ds[0]["rv"]["k"] == "bin" and ds[0]["rv"]["op"] in ("AddWithOverflow", "SubWithOverflow"):
            a, b = _linform(f, pv, ds[0]["rv"]["a"], depth + 1), _linform(f, pv, ds[0]["rv"]["b"], depth + 1)
            if a is None or b is None:
                return None
            sg = 1 if ds[0]["rv"]["op"].startswith("Add") else -1
            atoms = dict(a[0])
            for k, v in b[0].items():
                atoms[k] = atoms.get(k, 0) + sg * v
            return ({k: v for k, v in atoms.items() if v}, a[1] + sg * b[1])
    if len(pl) != 1:
        return ({("place", str(pl)): 1}, 0)
    ds = [x for (b, si, kind, x) in pv.defs.get(pl[0], [])]
    if len(ds) == 1 and "rv" in ds[0]:
        rv = ds[0]["rv"]
        if rv["k"] == "use":
            return _linform(f, pv, rv["op"], depth + 1)
        if rv["k"] == "bin" and rv["op"] in ("Add", "Sub"):
            a, b = _linform(f, pv, rv["a"], depth + 1), _linform(f, pv, rv["b"], depth + 1)
            if a is None or b is None:
                return None
            sg = 1 if rv["op"] == "Add" else -1
            atoms = dict(a[0])
            for k, v in b[0].items():
                atoms[k] = atoms.get(k, 0) + sg * v
            return ({k: v for k, v in atoms.items() if v}, a[1] + sg * b[1])
    if len(ds) == 1 and ds[0].get("k") == "call" and method(ds[0]) in ("unwrap_or", "unwrap_or_default") and ds[0]["args"]:
        # Option<usize>::unwrap_or(0): the payload, as an atom of its own
        return ({("local", pl[0]): 1}, 0)
    return ({("local", pl[0]): 1}, 0)


def _resume(ck, p):
    """The JSDoc / Javadoc scanner marks `{@tag ...}` Unlintable token by token and goes on behind it.  It has to
    go on exactly behind it: resuming one token further skips the token that follows the closing brace, and when
    that token is the opening brace of the next tag, the second tag is never recognised."""
    rule = "R-C04-resume"
    ck.rule(rule, "the inline-tag scanner of the JSDoc / Javadoc parsers resumes exactly behind what it marked: after tokens[a..b] were made Unlintable the cursor is set to b (not beyond it - the token behind a closing brace can be the opening brace of the next tag, whose contents would then stay lintable)")
    byk = fns_by_key(p)
    fs = byk.get("harper_comments::comment_parsers::jsdoc::mark_inline_tags")
    if not ck.anchor(rule, "jsdoc::mark_inline_tags", fs):
        return
    f = fs[0]
    ck.saw(f)
    cfg = Cfg(f)
    pv = Prov(f)
    # the marked range: Range{a, b} handed to index_mut on the token slice
    ranges = []
    for bi, t in f.calls():
        if method(t) == "index_mut" and len(t["args"]) == 2:
            for o in pv.trace_operand(t["args"][1]):
                if o[0] == "agg" and "Range" in str(o[2]) and len(o[3]) == 2:
                    ranges.append((bi, t))
    if len(ranges) != 1:
        ck.undecided(rule, "mark_inline_tags:resume", f.span, "expected one `tokens[a..b]` that is marked, found %d" % len(ranges))
        return
    rb, rt = ranges[0]
    agg = None
    for b in f.blocks:
        for sx in b["s"]:
            if sx["k"] == "assign" and sx["rv"]["k"] == "agg" and str(sx["rv"].get("name", "")).endswith("range::Range") and place_of(rt["args"][1]) == sx["lhs"]:
                agg = sx
    if agg is None:
        ck.undecided(rule, "mark_inline_tags:resume", f.span, "the range of the marked tokens is not built in place")
        return
    A, B = _linform(f, pv, agg["rv"]["ops"][0]), _linform(f, pv, agg["rv"]["ops"][1])
    # the cursor: the multi-definition usize local the range start is an atom of
    curs = [k[1] for k in (A[0] if A else {}) if k[0] == "local" and len(pv.defs.get(k[1], [])) > 1]
    names = f.debug_names()
    # assignments of a multi-definition usize local that are dominated by the marking
    found = []
    for bi, b in enumerate(f.blocks):
        if b["cleanup"] or not cfg.dominates(rb, bi) or bi == rb:
            continue
        for sx in b["s"]:
            if sx["k"] == "assign" and len(sx["lhs"]) == 1 and len(pv.defs.get(sx["lhs"][0], [])) > 1 and f.local_tystr(sx["lhs"][0]) == "usize" and sx["lhs"][0] in names:
                if sx["rv"]["k"] == "use":
                    E = _linform_stmt(f, pv, sx)
                    found.append((sx, E))
    if not found or A is None or B is None:
        ck.undecided(rule, "mark_inline_tags:resume", f.loc(rt["ln"]), "no assignment of the cursor behind the marking was recognised")
        return
    verdicts = []
    for sx, E in found:
        if E is None:
            verdicts.append(("undecided", sx["ln"], None))
            continue
        diff_atoms = dict(E[0])
        for k, v in B[0].items():
            diff_atoms[k] = diff_atoms.get(k, 0) - v
        diff_atoms = {k: v for k, v in diff_atoms.items() if v}
        dc = E[1] - B[1]
        if not diff_atoms and dc == 0:
            verdicts.append(("ok", sx["ln"], 0))
        elif not diff_atoms:
            verdicts.append(("off", sx["ln"], dc))
        else:
            verdicts.append(("undecided", sx["ln"], None))
    off = [v for v in verdicts if v[0] == "off"]
    if off:
        ck.refuted(rule, "mark_inline_tags:resume", f.loc(off[0][1]), "after marking tokens[a..b] the scan resumes at b%+d: the token right behind the tag is never looked at - when it is the opening brace of another tag (`{@code x()}{@code y()}`), that tag is not recognised and its contents are offered as prose" % off[0][2])
    elif any(v[0] == "undecided" for v in verdicts):
        ck.undecided(rule, "mark_inline_tags:resume", f.loc(rt["ln"]), "the cursor assignment behind the marking is not comparable with the end of the marked range")
    else:
        ck.proved(rule, "mark_inline_tags:resume", f.loc(rt["ln"]), "the cursor is set to the end of the marked range (%d assignment(s))" % len(verdicts))


def _linform_stmt(f, pv, sx):
    """linear form of the right-hand side of `x = <use>` where x has several definitions (so the normaliser must not
    look x itself up as single-definition)"""
    return _linform(f, pv, sx["rv"]["op"])


# ---- leader stripping leaves the inline-tag delimiters alone ---------------------------------------
TAG_DELIMITERS = {"{": "opens an inline tag", "}": "closes an inline tag", "@": "marks a block or inline tag"}


def _leaders(ck, p):
    """Two stages of one pipeline: `without_initiators` strips comment leaders/closers at the edges of a comment,
    then `mark_inline_tags` / `parse_line` recognise `{@tag ..}` and `@tag` by their delimiter tokens.  A delimiter
    that counts as a leader is stripped when it sits at the edge, the tag is not recognised and its contents
    (identifiers, signatures) are offered to the rules as prose."""
    from .c01 import eval_char_pred
    from ..interp import Stuck
    from .. import callgraph
    rule = "R-C04-leaders"
    ck.rule(rule, "the characters that comment-leader stripping (`is_comment_character`, used by `without_initiators` at both edges of a comment) removes include none of the delimiters `{` `}` `@` by which the later stage of the same pipeline (JSDoc / Javadoc `mark_inline_tags`, `parse_line`) recognises tags - otherwise a tag at the edge of a comment loses a delimiter and its contents stay lintable (the predicate is evaluated on each delimiter over its MIR)")
    byk = fns_by_key(p)
    fs = byk.get("harper_comments::comment_parsers::is_comment_character")
    wi = byk.get("harper_comments::comment_parsers::without_initiators")
    mk = byk.get("harper_comments::comment_parsers::jsdoc::mark_inline_tags")
    if not (ck.anchor(rule, "comment_parsers::without_initiators", wi) and ck.anchor(rule, "jsdoc::mark_inline_tags", mk)):
        return
    # the predicates the two scans of without_initiators apply: its closures (and what they call)
    preds = [c for c in p.closures_of(wi[0].name)]
    ck.saw(wi[0])
    if not preds:
        ck.undecided(rule, "without_initiators:delimiters", wi[0].span, "no scan predicate found in without_initiators")
        return
    # both stages on one path: a parser that calls without_initiators and mark_inline_tags (directly or through parse_line)
    users = []
    for f in p.fns.values():
        if not f.name.startswith("harper_comments::comment_parsers::") or f.get("kind") in ("Closure", "Promoted"):
            continue
        names = {last(norm(inst_of(t))) for _, t in f.calls()}
        if "without_initiators" in names and ({"mark_inline_tags", "parse_line"} & names):
            users.append(f)
    if not users:
        ck.proved(rule, "without_initiators:delimiters", wi[0].span, "no comment parser applies both leader stripping and the inline-tag scanner")
        return
    bad = []
    try:
        for ch, why in sorted(TAG_DELIMITERS.items()):
            for c in preds:
                kept = eval_char_pred(p, c, ord(ch))        # the scans look for the first character that is KEPT
                if not kept:
                    bad.append((ch, why))
                    break
    except Stuck as e:
        ck.undecided(rule, "without_initiators:delimiters", wi[0].span, "the scan predicate is beyond the evaluator (%s)" % e)
        return
    if bad:
        ck.refuted(rule, "without_initiators:delimiters", wi[0].span, "leader stripping removes %s at the edge of a comment, but %s (%s call both stages): a Javadoc / JSDoc comment that begins or ends with an inline tag such as `{@link Foo#bar(int)}` loses the brace, the tag is not recognised and its contents are offered to the rules as prose"
                   % (", ".join("`%s`" % c for c, _ in bad), "; ".join("`%s` %s" % b for b in bad), ", ".join(sorted(keyname(p, u) for u in users))))
    else:
        ck.proved(rule, "without_initiators:delimiters", wi[0].span, "both scan predicates keep `{`, `}` and `@` (evaluated over the MIR of %d closure(s) and is_comment_character); stages combined in: %s" % (len(preds), ", ".join(sorted(keyname(p, u) for u in users))))
