"""C16 — the JavaScript-facing linter API is self-consistent (pipeline / same-source / serde clauses)."""
import re

from .. import facts, serde_audit
from ..cfg import Cfg, bool_edges
from ..common import place_field_names, arg_fields, arg_roots, calls_to, def_of, inst_of, method, target_of, blocks_assigning_field, gate_for
from ..prov import Prov, flatten, field_names
from ..util import fns_by_key, keyname, place_of, norm, last, with_closures

LEVEL = "other"


def wasm_fn(ck, byk, rule, key):
    fs = [f for f in byk.get(key, []) if f.name.startswith("harper_wasm::")]
    if not ck.anchor(rule, "harper_wasm " + key, fs):
        return None
    ck.saw(fs[0])
    return fs[0]


def one(f, pred):
    c = [(bi, t) for bi, t in f.calls() if pred(t)]
    return c[0] if len(c) == 1 else None


def result_of(f, pv, op, bb):
    """does the operand derive (through borrows/clones and call arguments) from the call in block bb?"""
    return any(o[0] == "call" and o[1] == bb for o in arg_roots(f, pv, op))


class _AsOverlap:
    """runs the C13 rules under R-C16-overlap (keys keep the C13 rule name as prefix)"""
    def __init__(self, ck):
        self.ck = ck
        self.assumptions, self.not_decided, self.notes = [], [], ck.notes
        self.extra = {}

    def rule(self, *a):
        pass

    def anchor(self, rule, what, obj):
        return self.ck.anchor("R-C16-overlap", what, obj)

    def saw(self, f):
        self.ck.saw(f)

    def floor(self, rule, what, found, floor):
        self.ck.floor("R-C16-overlap", what, found, floor)

    def _k(self, rule, key):
        return "%s:%s" % (rule.replace("R-C13-", "C13-"), key)

    def decide(self, rule, key, ok, where="", detail="", facts=None):
        return self.ck.decide("R-C16-overlap", self._k(rule, key), ok, where, detail, facts)

    def ob(self, rule, key, verdict, where="", detail="", facts=None):
        return self.ck.ob("R-C16-overlap", self._k(rule, key), verdict, where, detail, facts)

    def refuted(self, rule, key, where="", detail="", facts=None):
        return self.ck.refuted("R-C16-overlap", self._k(rule, key), where, detail, facts)

    def proved(self, rule, key, where="", detail="", facts=None):
        return self.ck.proved("R-C16-overlap", self._k(rule, key), where, detail, facts)

    def undecided(self, rule, key, where="", detail="", facts=None):
        return self.ck.undecided("R-C16-overlap", self._k(rule, key), where, detail, facts)


def run(ck, tier):
    ck.rule("R-C16-verbatim", "spans and problem texts are expressed in the text JavaScript handed over: lint, ignore_lint and apply_suggestion build their Document from that text by chars().collect() and copies only (no stripping of a byte-order mark, no trimming, no folding of line endings)")
    try:
        from . import c08
        c08.verbatim_source(ck, facts.load(), "R-C16-verbatim", lambda g: g.name.startswith("harper_wasm::"), "Documents built by the wasm Linter", 2)
    except Exception as e:
        import traceback
        ck.refuted("R-C16-verbatim", "internal:%s" % type(e).__name__, "", "rule could not run: %s" % traceback.format_exc()[-600:])
    ck.rule("R-C16-overlap", "the lints the JavaScript-facing linter returns do not overlap: harper_core::remove_overlaps keeps a non-overlapping subset (sorted by span start, swept with a running end, elements only dropped) and Linter::lint passes every lint through it before anything else consumes the vector (rule instances of R-C13-subset / -sorted / -sweep / -placement)")
    try:
        from . import c13
        c13.run(_AsOverlap(ck), tier)
    except Exception as e:
        import traceback
        ck.refuted("R-C16-overlap", "internal:%s" % type(e).__name__, "", "rule could not run: %s" % traceback.format_exc()[-600:])
    ck.rule("R-C16-pipeline", "harper_wasm::Linter::lint: Document::new_from_vec(source, parser(language), self.dictionary) -> overlay -> LintGroup::lint(&document) -> restore -> remove_overlaps -> remove_ignored(.., &document) -> problem_text = span.get_content_string(&source) of the same source vector, in this order")
    ck.rule("R-C16-samedoc", "ignore_lint / apply_suggestion build their Document from lint.language.create_parser() and self.dictionary; apply_suggestion applies suggestion.inner at lint.inner.span to the chars of the supplied text and returns them; clear_ignored_lints replaces the set; import_words -> extend_words -> synchronize_lint_dict (unguarded, or guarded by 'some imported spelling is not in the user dictionary yet' - not by 'the count grew': a word can replace an entry that differs only by case); synchronize_lint_dict rebuilds dictionary and lint_group and re-merges the saved config")
    ck.rule("R-C16-serde", "wasm Lint/Suggestion/Span and the core types under them derive Serialize+Deserialize without asymmetric attributes; to_json/from_json use serde_json::to_string/from_str")
    ck.not_decided += ["returned lints lie inside the text (values; non-overlap is decided through the C13 rules, R-C16-overlap)", "behavioural equality after export/import", "Suggestion::apply splice result (see C03)"]
    p = facts.load()
    byk = fns_by_key(p)
    _pipeline(ck, p, byk)
    _samedoc(ck, p, byk)
    # exporting and importing the ignore list restores the same behaviour: the list's lookup invariant survives append (C14)
    from . import c14, c05
    ck.rule("R-C16-ignorelist", "ignore_lint / is_ignored / append of the ignore list agree on one representation (rule instances of R-C14-agree, including the keeps-sorted invariant when the list is a sorted vector)")
    c14._agree(c05._Sub(ck, "R-C16-ignorelist", ""), p)
    for root in ("harper_wasm::Lint", "harper_wasm::Suggestion", "harper_wasm::Span"):
        serde_audit.audit(ck, p, "R-C16-serde", root, last(root))
    # to_json / from_json
    n = 0
    for f in p.fns.values():
        if not f.name.startswith("harper_wasm::"):
            continue
        k = keyname(p, f)
        m = re.match(r"^(Lint|Suggestion|Span)::(to_json|from_json)$", k)
        if not m:
            continue
        n += 1
        ck.saw(f)
        names = sorted({inst_of(t) for _, t in f.calls() if inst_of(t).startswith("serde_json::")})
        want = ["serde_json::ser::to_string"] if m.group(2) == "to_json" else ["serde_json::de::from_str"]
        ck.decide("R-C16-serde", "wasm:%s" % k, names == want, f.span, "serde_json calls %s" % names)
    ck.floor("R-C16-serde", "to_json/from_json functions", n, 6)


def _pipeline(ck, p, byk):
    rule = "R-C16-pipeline"
    f = wasm_fn(ck, byk, rule, "Linter::lint")
    if f is None:
        return
    cfg = Cfg(f)
    pv = Prov(f)
    st = {}
    st["doc"] = one(f, lambda t: inst_of(t).endswith("document::{impl}::new_from_vec"))
    st["overlay"] = one(f, lambda t: inst_of(t).endswith("::fill_with_curated"))
    st["lint"] = one(f, lambda t: def_of(t) == "harper_core::linting::Linter::lint")
    st["overlaps"] = one(f, lambda t: inst_of(t) == "harper_core::remove_overlaps")
    st["ignored"] = one(f, lambda t: inst_of(t).endswith("::remove_ignored"))
    missing = [k for k, v in st.items() if v is None]
    if missing:
        ck.refuted(rule, "Linter::lint:stages", f.span, "pipeline stage(s) missing or duplicated: %s" % missing)
        return
    restores = [rb for rb, si, s in blocks_assigning_field(f, "config")]
    order = ["doc", "overlay", "lint", "overlaps", "ignored"]
    chain_ok = all(cfg.dominates(st[a][0], st[b][0]) and st[a][0] != st[b][0] for a, b in zip(order, order[1:]))
    restore_ok = any(cfg.dominates(st["lint"][0], r) and cfg.dominates(r, st["overlaps"][0]) for r in restores)
    ck.decide(rule, "Linter::lint:order", chain_ok and restore_ok, f.span, "new_from_vec -> fill_with_curated -> lint -> restore -> remove_overlaps -> remove_ignored dominate each other in this order: %s (restore between lint and remove_overlaps: %s)" % (chain_ok, restore_ok))
    # no shortcut: every path to a return has gone through the whole pipeline (a memoised or early
    # answer would not have been filtered by the *current* ignore list / dictionary / configuration)
    ib = st["ignored"][0]
    bypass = []
    n_defs = 0
    for bi, b in enumerate(f.blocks):
        if b["cleanup"]:
            continue
        defs = [sx["rv"] for sx in b["s"] if sx["k"] == "assign" and sx["lhs"] == [0]]
        t = b["t"]
        if t["k"] == "call" and t.get("dest") == [0]:
            defs.append({"k": "call", "t": t})
        for rv in defs:
            n_defs += 1
            if cfg.dominates(ib, bi) and bi != ib:
                continue
            # an answer produced without the pipeline is fine only if it is the empty list
            roots = arg_roots(f, pv, rv["op"]) if rv["k"] == "use" else ({("call", bi, def_of(rv["t"]), inst_of(rv["t"]))} if rv["k"] == "call" else set())
            empties = {o for o in roots if o[0] == "call" and re.search(r"vec::\{impl\}::(new|with_capacity)$|default::Default::default$", norm(o[3] or o[2] or ""))}
            if rv["k"] == "call" and re.search(r"vec::\{impl\}::(new|with_capacity)$|default::Default::default$", norm(inst_of(rv["t"]) or def_of(rv["t"]))):
                continue
            if roots and roots == empties:
                continue
            bypass.append(f.loc((rv.get("t") or {}).get("ln") or b["s"][0]["ln"] if b["s"] else f.span))
    ok_all = not bypass and n_defs >= 1
    ck.decide(rule, "Linter::lint:every-return", ok_all, f.span, "every value returned by lint() is produced after remove_ignored (and hence, by the dominance chain, after the stages before it) or is an empty list: %s (%d return value definitions)%s" % (ok_all, n_defs, "" if ok_all else " — a non-empty answer is produced without the pipeline at %s: it has not been filtered by the current ignore list" % bypass))
    # the only state lint() leaves behind is the restored configuration
    writes = set()
    for bi, b in enumerate(f.blocks):
        if b["cleanup"]:
            continue
        for sx in b["s"]:
            if sx["k"] == "assign" and len(sx["lhs"]) > 1 and sx["lhs"][0] == 1:
                writes.add(".".join(e[2] for e in sx["lhs"][1:] if isinstance(e, list) and e[0] == "f"))
    for bi, b in enumerate(f.blocks):
        if b["cleanup"]:
            continue
        for sx in b["s"]:
            if sx["k"] == "assign" and sx["rv"]["k"] == "ref" and sx["rv"].get("mut") and sx["rv"]["place"][0] == 1 and len(sx["rv"]["place"]) > 1:
                path = ".".join(e[2] for e in sx["rv"]["place"][1:] if isinstance(e, list) and e[0] == "f")
                if path:
                    writes.add(path + "(&mut)")
    extra_w = sorted(w for w in writes if w and not (w.startswith("lint_group.config") or w.startswith("lint_group(") or w == "lint_group"))
    ck.decide(rule, "Linter::lint:self-writes", not extra_w, f.span, "fields of self written or mutably borrowed in lint(): %s; allowed: lint_group (the overlay and its restore, LintGroup::lint)%s" % (sorted(writes), "" if not extra_w else " — lint() leaves state behind in %s, so a later call can depend on an earlier one" % extra_w))
    # same document
    db = st["doc"][0]
    same_doc = result_of(f, pv, st["lint"][1]["args"][1], db) and result_of(f, pv, st["ignored"][1]["args"][2], db)
    lints_flow = result_of(f, pv, st["overlaps"][1]["args"][0], st["lint"][0]) and result_of(f, pv, st["ignored"][1]["args"][1], st["lint"][0])
    ck.decide(rule, "Linter::lint:same-document", same_doc and lints_flow, f.span, "lint and remove_ignored receive the Document built at the top=%s; remove_overlaps/remove_ignored operate on the vector LintGroup::lint returned=%s" % (same_doc, lints_flow))
    # document built from parser(language) and self.dictionary
    dt = st["doc"][1]
    parser_ok = any(o[0] == "call" and last(norm(o[3] or "")) == "create_parser" for o in arg_roots(f, pv, dt["args"][1]))
    dict_ok = "dictionary" in arg_fields(pv, dt["args"][2])
    ck.decide(rule, "Linter::lint:document-inputs", parser_ok and dict_ok, f.loc(dt["ln"]), "parser from language.create_parser()=%s, dictionary=self.dictionary=%s" % (parser_ok, dict_ok))
    # problem text from the same source vector
    src_origin = {o for o in flatten(pv.trace_operand(dt["args"][0])) if o[0] == "call"}
    clos = [c for c in p.closures_of(f.name)]
    ok = False
    detail = "closures: %d" % len(clos)
    for c in clos:
        gc = [(bi, t) for bi, t in c.calls() if inst_of(t).endswith("span::{impl}::get_content_string")]
        if not gc:
            continue
        ck.saw(c)
        cpv = Prov(c)
        # argument 1 of get_content_string is an upvar of the closure
        up = [e for e in _upvar_fields(c, cpv, gc[0][1]["args"][1])]
        # in the parent: the closure aggregate operand for that upvar
        for b in f.blocks:
            for s in b["s"]:
                if s["k"] == "assign" and s["rv"]["k"] == "agg" and s["rv"].get("agg") == "closure" and s["rv"].get("name") == c.name:
                    for idx in up:
                        if idx < len(s["rv"]["ops"]):
                            o2 = {o for o in flatten(pv.trace_operand(s["rv"]["ops"][idx])) if o[0] == "call"}
                            if o2 and o2 == src_origin:
                                ok = True
                            detail = "get_content_string(&source): closure upvar %s origin %s vs Document source origin %s" % (idx, sorted(map(str, o2)), sorted(map(str, src_origin)))
        # span is the lint's own span
        span_ok = any("span" in str(o) for o in cpv.trace_operand(gc[0][1]["args"][0])) or "span" in arg_fields(cpv, gc[0][1]["args"][0])
        ok = ok and span_ok
    if not ok:
        # the same computation written as a loop in lint() itself
        gc = [(bi, t) for bi, t in f.calls() if inst_of(t).endswith("span::{impl}::get_content_string")]
        for bi, t in gc:
            o2 = {o for o in flatten(pv.trace_operand(t["args"][1])) if o[0] == "call"}
            span_ok = "span" in arg_fields(pv, t["args"][0]) or any("span" in str(o) for o in pv.trace_operand(t["args"][0]))
            if o2 and o2 == src_origin and span_ok:
                ok = True
                detail = "get_content_string(&source) in lint() itself on the lint's own span, source origin %s" % sorted(map(str, o2))
        if not ok and not gc and not any((bi, t) for c in clos for bi, t in c.calls() if inst_of(t).endswith("span::{impl}::get_content_string")):
            ck.undecided(rule, "Linter::lint:problem-text", f.span, "no get_content_string call found in lint() or its closures: how the problem text is produced is not of a recognised form")
            return
    ck.decide(rule, "Linter::lint:problem-text", ok, f.span, detail)


def _upvar_fields(c, cpv, op):
    out = set()
    for o in cpv.trace_operand(op):
        x = o
        while isinstance(x, tuple) and x[0] == "field":
            if x[1] == ("arg", 1):
                out.add(x[2])
            x = x[1]
    pl = place_of(op)
    if pl and pl[0] == 1:
        for e in pl[1:]:
            if isinstance(e, list) and e[0] == "f":
                out.add(e[1])
                break
    return out


def import_words_sync(ck, byk, rule):
    """Linter::import_words: the words go into self.user_dictionary and, guarded at most by 'the
    dictionary grew', synchronize_lint_dict rebuilds the merged dictionary and the LintGroup (also an
    instance of R-C05-rebuild: a long-lived linter answers like a fresh one over the same words)."""
    f = wasm_fn(ck, byk, rule, "Linter::import_words")
    p = facts.load()
    if f is not None:
        cfg = Cfg(f)
        pv = Prov(f)
        ext = one(f, lambda t: inst_of(t).endswith("::extend_words"))
        syn = one(f, lambda t: inst_of(t).endswith("::synchronize_lint_dict"))
        ok = bool(ext and syn) and cfg.dominates(ext[0], syn[0]) and "user_dictionary" in arg_fields(pv, ext[1]["args"][0])
        detail = "extend_words on self.user_dictionary then synchronize_lint_dict: %s" % ok
        if ok:
            # only guard: a comparison of word_count() values
            guards = []
            for bi, b in enumerate(f.blocks):
                t = b["t"]
                if t["k"] == "switch" and cfg.dominates(bi, syn[0]) and cfg.dominates(ext[0], bi):
                    guards.append(bi)
            good = True
            why = []
            for g in guards:
                d = f.blocks[g]["t"]["discr"]
                roots = arg_roots(f, pv, d)
                names = {last(norm(o[3] or o[2] or "")) for o in roots if o[0] == "call"}
                # the flag may be computed in a closure (`words.iter().any(|w| !dict.contains_exact_word_str(w))`)
                for o in roots:
                    if o[0] == "call":
                        for a in f.blocks[o[1]]["t"]["args"]:
                            for x in pv.trace_operand(a):
                                if x[0] == "agg" and x[1] == "closure" and x[2] in p.fns:
                                    names |= {method(t3) for c3 in with_closures(p, p.fns[x[2]]) for _, t3 in c3.calls()}
                exact = names & {"contains_exact_word_str", "contains_exact_word"}
                if exact:
                    why.append("exact-spelling test (%s)" % ", ".join(sorted(exact)))
                elif "word_count" in names:
                    good = False
                    why.append("word_count() comparison: an imported word that replaces an entry differing only by case changes the dictionary without making it grow, and the linter keeps answering from the old one")
                else:
                    good = False
                    why.append("a test through %s: whether it notices every change of the dictionary is not established (a case-folding look-up does not)" % (sorted(names)[:4] or "?"))
            ok = good and len(guards) <= 1
            detail += "; guards between them: %d (%s)" % (len(guards), "; ".join(why) or "none")
        ck.decide(rule, "Linter::import_words", ok, f.span, detail)


def _samedoc(ck, p, byk):
    rule = "R-C16-samedoc"
    for name in ("Linter::ignore_lint", "Linter::apply_suggestion"):
        f = wasm_fn(ck, byk, rule, name)
        if f is None:
            continue
        pv = Prov(f)
        ctors = [(bi, t) for bi, t in f.calls() if re.search(r"document::\{impl\}::new\w*$", norm(inst_of(t)))]
        with_dict = [(bi, t) for bi, t in ctors if last(norm(inst_of(t))) in ("new", "new_from_vec") and len(t["args"]) == 3]
        if len(ctors) != 1 or len(with_dict) != 1:
            what = sorted(last(norm(inst_of(t))) for _, t in ctors)
            ck.refuted(rule, name + ":document", f.span, "the Document must be built by one constructor that takes the dictionary explicitly (Document::new / new_from_vec); found %s - a curated-only constructor parses against another dictionary than Linter::lint does, so word metadata (and with it the ignore hash) differs for user words" % what)
            continue
        d = with_dict[0]
        dt = d[1]
        pr = [o for o in arg_roots(f, pv, dt["args"][1]) if o[0] == "call" and last(norm(o[3] or "")) == "create_parser"]
        parser_ok = False
        for o in pr:
            t = f.blocks[o[1]]["t"]
            parser_ok = parser_ok or "language" in arg_fields(pv, t["args"][0])
        dict_ok = "dictionary" in arg_fields(pv, dt["args"][2])
        text_param = 2
        src_ok = ("arg", text_param) in arg_roots(f, pv, dt["args"][0])
        ck.decide(rule, name + ":document", parser_ok and dict_ok and src_ok, f.loc(dt["ln"]), "parser=lint.language.create_parser() %s; dictionary=self.dictionary %s; source=chars of the supplied text %s" % (parser_ok, dict_ok, src_ok))
        if name.endswith("ignore_lint"):
            ig = one(f, lambda t: inst_of(t).endswith("ignored_lints::{impl}::ignore_lint"))
            ok = bool(ig) and "inner" in arg_fields(pv, ig[1]["args"][1]) and result_of(f, pv, ig[1]["args"][2], d[0]) and "ignored_lints" in arg_fields(pv, ig[1]["args"][0])
            ck.decide(rule, name + ":ignore", ok, f.span, "self.ignored_lints.ignore_lint(&lint.inner, &document) on the document just built")
        else:
            ap = one(f, lambda t: inst_of(t).endswith("suggestion::{impl}::apply"))
            ok = False
            detail = "Suggestion::apply call not found"
            if ap:
                t = ap[1]
                recv = "inner" in arg_fields(pv, t["args"][0]) and ("arg", 4) in arg_roots(f, pv, t["args"][0])
                span = {"inner", "span"} <= arg_fields(pv, t["args"][1]) and ("arg", 3) in arg_roots(f, pv, t["args"][1])
                src_local = pv.mut_base.get(place_of(t["args"][2])[0]) if place_of(t["args"][2]) else None
                src = src_local is not None and ("arg", 2) in arg_roots(f, pv, {"c": [src_local]})
                ret = src_local is not None and any(_mentions_local(f, pv, 0, src_local) for _ in [0])
                ok = recv and span and src and ret
                detail = "suggestion.inner.apply(lint.inner.span, &mut source): receiver=%s span=%s source=chars(source_text)=%s; returned string built from that buffer=%s" % (recv, span, src, ret)
            ck.decide(rule, name + ":apply", ok, f.span, detail)
    f = wasm_fn(ck, byk, rule, "Linter::clear_ignored_lints")
    if f is not None:
        pv = Prov(f)
        asg = blocks_assigning_field(f, "ignored_lints")
        ok = len(asg) == 1 and asg[0][2]["rv"]["k"] == "use" and any(o[0] == "call" and last(norm(o[3] or "")) in ("new", "default") for o in flatten(pv.trace_operand(asg[0][2]["rv"]["op"])))
        ck.decide(rule, "Linter::clear_ignored_lints", ok, f.span, "self.ignored_lints = IgnoredLints::new()")
    import_words_sync(ck, byk, rule)
    f = wasm_fn(ck, byk, rule, "Linter::synchronize_lint_dict")
    if f is not None:
        cfg = Cfg(f)
        pv = Prov(f, opaque=["core::clone::Clone::clone"])
        save = [(bi, t) for bi, t in f.calls() if method(t) == "clone" and "config" in arg_fields(pv, t["args"][0])]
        # ... or the old configuration is moved out instead of copied (the group is replaced anyway)
        save = save or [(bi, t) for bi, t in f.calls() if last(norm(inst_of(t) or "")) in ("take", "replace") and "mem" in norm(inst_of(t) or "") and t["args"] and "config" in arg_fields(pv, t["args"][0])]
        cmd = one(f, lambda t: inst_of(t).endswith("::construct_merged_dict"))
        new = one(f, lambda t: inst_of(t).endswith("::new_curated_empty_config") or inst_of(t).endswith("::new_curated"))
        mrg = one(f, lambda t: inst_of(t).endswith("lint_group::{impl}::merge_from"))
        a_dict = blocks_assigning_field(f, "dictionary")
        a_lg = blocks_assigning_field(f, "lint_group")
        ok = bool(save and cmd and new and mrg and a_dict and a_lg)
        detail = "clone(config)=%d construct_merged_dict=%s new LintGroup=%s merge_from=%s assigns dictionary=%d lint_group=%d" % (len(save), bool(cmd), bool(new), bool(mrg), len(a_dict), len(a_lg))
        if ok:
            from_user = any("user_dictionary" in arg_fields(pv, f.blocks[o[1]]["t"]["args"][0]) for o in arg_roots(f, pv, cmd[1]["args"][0]) if o[0] == "call") or "user_dictionary" in arg_fields(pv, cmd[1]["args"][0])
            dict_assigned = any(result_of(f, pv, s["rv"]["op"], cmd[0]) for _, _, s in a_dict if s["rv"]["k"] == "use")
            lg_from_dict = "dictionary" in arg_fields(pv, new[1]["args"][0]) or any("dictionary" in arg_fields(pv, f.blocks[o[1]]["t"]["args"][0]) for o in arg_roots(f, pv, new[1]["args"][0]) if o[0] == "call")
            # ... or from the very value construct_merged_dict returned (stored into self.dictionary as well)
            lg_from_dict = lg_from_dict or (dict_assigned and any(o[0] == "call" and o[1] == cmd[0] for o in arg_roots(f, pv, new[1]["args"][0])))
            lg_assigned = any(result_of(f, pv, s["rv"]["op"], new[0]) for _, _, s in a_lg if s["rv"]["k"] == "use")
            saved_local = save[0][1]["dest"][0]
            merged_saved = pv.mut_base.get(place_of(mrg[1]["args"][1])[0]) == saved_local if place_of(mrg[1]["args"][1]) else False
            merge_target = {"lint_group", "config"} <= arg_fields(pv, mrg[1]["args"][0])
            if not merge_target and "config" in arg_fields(pv, mrg[1]["args"][0]):
                # merged into the new group while it is still a local that is stored into self.lint_group afterwards
                recv = pv.mut_base.get(place_of(mrg[1]["args"][0])[0]) if place_of(mrg[1]["args"][0]) else None
                stored = {place_of(s_["rv"]["op"])[0] for _, _, s_ in a_lg if s_["rv"]["k"] == "use" and place_of(s_["rv"]["op"])}
                grew = True
                while grew:         # _17 = move _7; self.lint_group = move _17
                    grew = False
                    for b_ in f.blocks:
                        for s2 in b_["s"]:
                            if s2["k"] == "assign" and len(s2["lhs"]) == 1 and s2["lhs"][0] in stored and s2["rv"]["k"] == "use" and place_of(s2["rv"]["op"]) and place_of(s2["rv"]["op"])[0] not in stored:
                                stored.add(place_of(s2["rv"]["op"])[0])
                                grew = True
                merge_target = recv is not None and recv in stored
            order = cfg.dominates(save[0][0], a_lg[0][0]) and (cfg.dominates(a_lg[0][0], mrg[0]) or (cfg.dominates(new[0], mrg[0]) and cfg.dominates(mrg[0], a_lg[0][0])))
            ok = from_user and dict_assigned and lg_from_dict and lg_assigned and merged_saved and merge_target and order
            detail = "dictionary rebuilt from user_dictionary=%s and stored=%s; lint_group rebuilt from it=%s and stored=%s; saved config re-merged into the new group=%s/%s; config saved before the group is replaced=%s" % (from_user, dict_assigned, lg_from_dict, lg_assigned, merged_saved, merge_target, order)
        ck.decide(rule, "Linter::synchronize_lint_dict", ok, f.span, detail)


def _mentions_local(f, pv, target, local, depth=0):
    """does local `target`'s value derive from `local` (through call arguments)?"""
    seen = set()

    def walk(l, d):
        if l == local:
            return True
        if (l, d) in seen or d > 8:
            return False
        seen.add((l, d))
        for (bi, si, kind, x) in pv.defs.get(l, []):
            ops = []
            if kind == "assign":
                rv = x["rv"]
                for k in ("op", "a", "b"):
                    if isinstance(rv.get(k), dict):
                        ops.append(rv[k])
                if "place" in rv:
                    ops.append({"c": rv["place"]})
                ops += rv.get("ops", [])
            elif kind in ("call", "mutcall"):
                ops += x["args"]
            for o in ops:
                pl = place_of(o)
                if pl and walk(pl[0], d + 1):
                    return True
        return False
    return walk(target, 0)
