"""C11 — rule switches do exactly what they say.

Structural argument (DESIGN.md section 3, C11): gate + independence + aggregation + complete
cache key, plus overlay/merge/serde clauses.  All rules are exact (two-valued) structural rules.
"""
import re

from .. import facts, serde_audit
from ..cfg import Cfg, bool_edges
from ..common import (arg_fields, arg_roots, calls_to, def_of, gate_for, inst_of, method, target_of,
                      blocks_assigning_field, place_field_names)
from ..prov import Prov, flatten, field_names
from ..tygraph import TyGraph
from ..util import fns_by_key, keyname, last, with_closures, calls, place_of, norm

LEVEL = "proof"

VEC_OK = {"new", "with_capacity", "extend", "append", "push", "clone", "into_iter", "iter_mut", "iter", "next", "deref", "deref_mut",
          "as_mut_slice", "as_slice", "len", "is_empty", "put", "drop", "extend_from_slice", "reserve", "as_mut", "as_ref", "index", "index_mut",
          "into", "from"}
VEC_BAD = {"retain", "retain_mut", "sort", "sort_by", "sort_by_key", "sort_unstable", "sort_unstable_by", "sort_unstable_by_key", "sort_by_cached_key", "dedup", "dedup_by", "dedup_by_key",
           "remove", "swap_remove", "truncate", "drain", "clear", "pop", "insert", "split_off", "reverse", "swap", "rotate_left", "rotate_right", "resize", "splice", "extract_if", "fill"}


def run(ck, tier):
    ck.rule("R-C11-gate", "guarded-by: in LintGroup::lint every Linter::lint call and every run_on_chunk call is dominated by the true edge of self.config.is_rule_enabled(key) with key and linter taken from the same map entry; is_rule_enabled is false for absent/None entries")
    ck.rule("R-C11-indep", "independence: Linter::lint receives &Document and Document's type graph contains no interior mutability")
    ck.rule("R-C11-aggregate", "effects: LintGroup::lint applies only new/extend/append/push/clone/iteration to its result vectors (no retain/sort/dedup/remove/truncate) and only Span::pull_by/push_by to their elements")
    ck.rule("R-C11-key", "the chunk-cache key contains hash_one(&self.config) and Hash for LintGroupConfig feeds the key and the value of every entry")
    ck.rule("R-C11-overlay", "must-pass-through: every caller that overlays curated defaults (fill_with_curated) around a lint call restores the saved configuration on every path")
    ck.rule("R-C11-merge", "merge_from inserts only Some values; fill_with_curated merges the user's map over the curated one; set_rule_enabled_if_unset inserts only under !contains_key")
    ck.rule("R-C11-serde", "LintGroupConfig is serde(transparent) over BTreeMap<String, Option<bool>> with derived Serialize+Deserialize and no asymmetric attribute")
    ck.not_decided += ["no configuration value is executed; the claim is the structural lemma chain of DESIGN.md C11", "rule-internal state is covered under C05 (R-C05-stateless / R-C05-statics)"]
    p = facts.load()
    byk = fns_by_key(p)
    _gate(ck, p, byk)
    _indep(ck, p)
    _aggregate(ck, p, byk)
    _key(ck, p, byk)
    _overlay(ck, p, byk)
    _merge(ck, p, byk)
    n = serde_audit.audit(ck, p, "R-C11-serde", "harper_core::linting::lint_group::LintGroupConfig", "LintGroupConfig")
    _transparent(ck, p)
    if tier == "thorough":
        _witness(ck)


def _witness(ck):
    """type-level part of the independence lemma: programs that would let a rule mutate the shared
    document / a pattern mutate itself must fail to compile (with a compiling twin each)"""
    rule = "R-C11-indep"
    try:
        res = facts.run_witness()
    except facts.FactsError as e:
        ck.refuted(rule, "witness:run", "witness/src/lib.rs", "the compile-fail witnesses could not be built against this tree: %s" % e)
        return
    fails = [r for r in res if r[1] == "compile fail"]
    twins = [r for r in res if r[1] == "compile"]
    ck.floor(rule, "compile-fail witnesses", len(fails), 2)
    ck.floor(rule, "compiling twins", len(twins), 2)
    for name, kind, ok in res:
        ck.decide(rule, "witness:%s:%s" % (name, kind.replace(" ", "-")), ok, "witness/src/lib.rs",
                  ("the violating program is rejected by rustc with the expected error code" if kind == "compile fail" else "the twin that differs only in the offending line compiles") + (": %s" % ok))


def lint_fn(ck, byk, rule):
    fs = byk.get("<LintGroup as Linter>::lint")
    if not ck.anchor(rule, "<LintGroup as Linter>::lint", fs):
        return None
    ck.saw(fs[0])
    return fs[0]


# ---------------------------------------------------------------------------------------------------
def _gate(ck, p, byk):
    rule = "R-C11-gate"
    f = lint_fn(ck, byk, rule)
    if f is None:
        return
    cfg = Cfg(f)
    pv = Prov(f)
    sites = []
    n_closure_sites = [0]
    for bi, t in f.calls():
        if def_of(t) == "harper_core::linting::Linter::lint":
            sites.append((bi, t, "Linter::lint", t["args"][0]))
        elif inst_of(t) == "harper_core::linting::pattern_linter::run_on_chunk":
            sites.append((bi, t, "run_on_chunk", t["args"][0]))
    # a rule invocation inside a closure of an adaptor chain: linters.iter_mut().filter(gate).flat_map(|(_, l)| l.lint(doc))
    for c in p.closures_of(f.name):
        for cb, ct in c.calls():
            what = "Linter::lint" if def_of(ct) == "harper_core::linting::Linter::lint" else ("run_on_chunk" if inst_of(ct) == "harper_core::linting::pattern_linter::run_on_chunk" else None)
            if what is None:
                continue
            key = "LintGroup::lint:%s" % what
            ck.callsites += 1
            n_closure_sites[0] += 1
            gated = False
            for pb, pt in f.calls():
                if method(pt) in ("flat_map", "map", "for_each", "filter_map") and any(x[0] == "agg" and x[1] == "closure" and x[2] == c.name for x in pv.trace_operand(pt["args"][-1])):
                    for o in arg_roots(f, pv, pt["args"][0]):
                        if o[0] == "call" and method_of(o) == "filter":
                            ft = f.blocks[o[1]]["t"]
                            for x in pv.trace_operand(ft["args"][-1]):
                                if x[0] == "agg" and x[1] == "closure" and x[2] in p.fns:
                                    fc = p.fns[x[2]]
                                    fpv = Prov(fc)
                                    gs = [(gb, gt) for gb, gt in fc.calls() if inst_of(gt) == "harper_core::linting::lint_group::{impl}::is_rule_enabled"]
                                    if gs and any(o2[0] == "call" and any(o2[1] == gb for gb, _ in gs) for o2 in flatten(fpv.trace_local(0))) and any(any(y[0] == "arg" and y[1] == 2 for y in arg_roots(fc, fpv, gt["args"][1])) for _, gt in gs):
                                        gated = True
            if gated:
                ck.proved(rule, key, c.loc(ct["ln"]), "%s runs in an adaptor closure over the rules that passed filter(|(key, _)| config.is_rule_enabled(key))" % what)
            else:
                ck.undecided(rule, key, c.loc(ct["ln"]), "%s runs in a closure of an adaptor chain; no filter by is_rule_enabled(key) recognised in front of it" % what)
    ck.callsites += len(sites)
    ck.floor(rule, "rule invocations in LintGroup::lint", len(sites) + n_closure_sites[0], 2)
    is_gate = lambda t: inst_of(t) == "harper_core::linting::lint_group::{impl}::is_rule_enabled"
    for bi, t, what, lin in sites:
        key = "LintGroup::lint:%s" % what
        gates = gate_for(f, cfg, bi, is_gate, want=True)
        if not gates:
            _other_gate(ck, p, f, cfg, pv, rule, key, bi, t, what)
            continue
        lin_calls = {o for o in arg_roots(f, pv, lin) if o[0] == "call" and method_of(o) == "next"}
        ok = False
        detail = ""
        for gb, gt in gates:
            on_config = "config" in arg_fields(pv, gt["args"][0]) and ("arg", 1) in flatten(pv.trace_operand(gt["args"][0]))
            key_calls = {o for o in arg_roots(f, pv, gt["args"][1]) if o[0] == "call" and method_of(o) == "next"}
            same = bool(lin_calls) and lin_calls == key_calls
            detail = "gate at %s: on self.config=%s, key and linter from the same map entry=%s" % (f.loc(gt["ln"]), on_config, same)
            if on_config and same:
                ok = True
        ck.decide(rule, key, ok, f.loc(t["ln"]), detail)
        # ... and nothing else that reads the switches decides whether this rule runs: a second condition
        # that asks for ANOTHER rule's switch makes one rule's output depend on toggling another
        loops = cfg.natural_loops()
        inner = [(h, body) for h, body in loops.items() if bi in body]
        if inner:
            h, body = min(inner, key=lambda x: len(x[1]))
            foreign = []
            for gb in body:
                sw = f.blocks[gb]["t"]
                if sw["k"] != "switch" or not cfg.dominates(gb, bi) or gb == bi:
                    continue
                arms = [x for _, x in sw["targets"]] + ([sw["otherwise"]] if sw.get("otherwise") is not None else [])
                if all(bi in cfg.reachable_from([a], avoid=[h]) or a == bi for a in arms):
                    continue          # not a gate of the call
                roots = arg_roots(f, pv, sw["discr"])
                for o in roots:
                    if o[0] != "call":
                        continue
                    ct2 = f.blocks[o[1]]["t"]
                    if is_gate(ct2):
                        kc = {o2 for o2 in arg_roots(f, pv, ct2["args"][1]) if o2[0] == "call" and method_of(o2) == "next"}
                        if not (lin_calls and kc == lin_calls):
                            foreign.append((f.loc(ct2["ln"]), "is_rule_enabled with another key"))
                    for a in ct2["args"]:
                        for x in pv.trace_operand(a):
                            if x[0] == "agg" and x[1] == "closure" and x[2] in p.fns:
                                for c2 in with_closures(p, p.fns[x[2]]):
                                    if any(is_gate(t3) for _, t3 in c2.calls()):
                                        foreign.append((c2.loc(c2.blocks[0]["t"].get("ln", 0)) if c2.blocks else "", "a closure that asks is_rule_enabled"))
            if foreign:
                ck.refuted(rule, key + ":own-switch-only", foreign[0][0] or f.loc(t["ln"]), "whether %s runs for a rule also depends on %s (besides the rule's own switch): an enabled rule can be silenced - or revived - by toggling a different rule, so the lints are no longer the combination of what each enabled rule produces on its own" % (what, foreign[0][1]))
            else:
                ck.proved(rule, key + ":own-switch-only", f.loc(t["ln"]), "inside the loop no other condition on the way to %s reads a rule switch" % what)
    # is_rule_enabled: get(key).cloned().flatten().unwrap_or(false)
    fs = byk.get("LintGroupConfig::is_rule_enabled")
    if ck.anchor(rule, "LintGroupConfig::is_rule_enabled", fs):
        g = fs[0]
        ck.saw(g)
        table = _enabled_table(g)
        if table is not None:
            want = {"absent": False, "unset": False, "off": False, "on": True}
            ck.decide(rule, "LintGroupConfig::is_rule_enabled", table == want, g.span, "decision table over the entry of the rule in self.inner (absent / unset / off / on): %s (required %s)" % (table, want))
            fs = None
    if fs:
        g = fs[0]
        pv = Prov(g)
        ret = flatten(pv.trace_local(0))
        ok = False
        detail = "return value origins %s" % sorted(map(str, ret))
        if len(ret) == 1 and list(ret)[0][0] == "call":
            o = list(ret)[0]
            t = g.blocks[o[1]]["t"]
            if method(t) == "unwrap_or":
                d = t["args"][1].get("k", {})
                default_false = d.get("int") == "0"
                chain = []
                cur = t
                while True:
                    src = [x for x in flatten(pv.trace_operand(cur["args"][0])) if x[0] == "call"]
                    if len(src) != 1:
                        break
                    cur = g.blocks[src[0][1]]["t"]
                    chain.append(method(cur))
                    if method(cur) == "get":
                        break
                on_inner = chain and chain[-1] == "get" and "inner" in arg_fields(pv, cur["args"][0])
                ok = default_false and on_inner and set(chain) <= {"get", "cloned", "copied", "flatten"}
                detail = "unwrap_or(default false=%s) over chain %s on self.inner=%s" % (default_false, list(reversed(chain)), bool(on_inner))
        ck.decide(rule, "LintGroupConfig::is_rule_enabled", ok, g.span, detail)


def method_of(o):
    return last(norm(o[3] or o[2] or ""))


CONSUMING = {"find", "find_map", "position", "skip_while", "take_while", "map_while", "any", "all", "nth", "last", "count"}


def _consuming_cursor(g):
    """calls in g that run a consuming search on `by_ref()` of an iterator (and no peek in g)"""
    pv = Prov(g)
    if any(method(t) in ("peek", "peek_mut", "next_if", "next_if_eq", "peekable") for _, t in g.calls()):
        return []
    out = []
    for bi, t in g.calls():
        if method(t) in CONSUMING and t["args"]:
            roots = arg_roots(g, pv, t["args"][0])
            if any(o[0] == "call" and method_of(o) == "by_ref" for o in roots):
                out.append((t["ln"], method(t)))
    return out


def _other_gate(ck, p, f, cfg, pv, rule, key, bi, t, what):
    """the rule invocation is not behind is_rule_enabled: ungated -> REFUTED; behind a switch read from a cursor shared
    between rules and advanced by a consuming search -> REFUTED; any other config-derived gate -> UNDECIDED"""
    loops = [body for body in cfg.natural_loops().values() if bi in body]
    body = min(loops, key=len) if loops else set(range(len(f.blocks)))
    # the same gate as an adaptor: the map of rules is filtered by is_rule_enabled(key) before the loop runs the survivors
    lin = t["args"][0]
    for o in arg_roots(f, pv, lin):
        if o[0] != "call" or method_of(o) != "filter":
            continue
        ft = f.blocks[o[1]]["t"]
        for x in pv.trace_operand(ft["args"][-1]):
            if x[0] == "agg" and x[1] == "closure" and x[2] in p.fns:
                c = p.fns[x[2]]
                cpv = Prov(c)
                gates = [(cb, ct) for cb, ct in c.calls() if inst_of(ct) == "harper_core::linting::lint_group::{impl}::is_rule_enabled"]
                ret_is_gate = any(o2[0] == "call" and any(o2[1] == cb for cb, _ in gates) for o2 in flatten(cpv.trace_local(0)))
                key_is_item = any(any(y[0] == "arg" and y[1] == 2 for y in arg_roots(c, cpv, ct["args"][1])) for _, ct in gates)
                if gates and ret_is_gate and key_is_item:
                    ck.proved(rule, key, f.loc(t["ln"]), "%s runs over the rules that passed filter(|(key, _)| config.is_rule_enabled(key)): the same gate as an iterator adaptor" % what)
                    return
    gating = []
    for sb in body:
        tt = f.blocks[sb]["t"]
        if tt["k"] != "switch" or not cfg.dominates(sb, bi):
            continue
        succs = f.succs(sb)
        into = [x for x in succs if cfg.dominates(x, bi) and len(cfg.pred[x]) == 1]
        if into and len(into) < len(set(succs)):
            # the loop's own `match iter.next()` is not a per-rule test
            srcs = [o for o in flatten(pv.trace_operand(tt["discr"]))]
            if srcs and all((o[0] == "discr" and any(x[0] == "call" and method_of(x) == "next" for x in flatten(o[1]))) or (o[0] == "call" and method_of(o) == "next") for o in srcs):
                continue
            gating.append((sb, tt))
    if not gating:
        ck.refuted(rule, key, f.loc(t["ln"]), "%s call is not behind any per-rule test inside its loop: a switched-off rule still runs" % what)
        return
    notes = []
    for sb, tt in gating:
        for o in arg_roots(f, pv, tt["discr"]):
            if o[0] != "call":
                continue
            ct = f.blocks[o[1]]["t"]
            want = norm(inst_of(ct))
            cands = [h for h in p.fns.values() if norm(h.name) == want]
            for h in cands:
                hit = _consuming_cursor(h)
                if hit:
                    ck.refuted(rule, key, f.loc(t["ln"]), "%s runs behind a switch that %s reads from a cursor shared between rules and advanced by a consuming search (%s on by_ref(), line %d, no peek): the entry that ends one rule's search is gone for the next rule, so a rule without an entry of its own takes its neighbour's and that neighbour is treated as switched off" % (what, keyname(p, h), hit[0][1], hit[0][0]))
                    return
            notes.append(last(norm(inst_of(ct))) or "?")
    hit = _consuming_cursor(f)
    if hit:
        ck.refuted(rule, key, f.loc(t["ln"]), "%s runs behind a switch read from a cursor advanced by a consuming search (%s on by_ref(), line %d, no peek)" % (what, hit[0][1], hit[0][0]))
        return
    ck.undecided(rule, key, f.loc(t["ln"]), "%s runs behind a per-rule test that is not config.is_rule_enabled(key) (derived from: %s); whether it reads this rule's own switch is not decided" % (what, sorted(set(notes)) or "non-call values"))


# ---------------------------------------------------------------------------------------------------
def _indep(ck, p):
    rule = "R-C11-indep"
    tg = TyGraph(p)
    root = tg.find_type("harper_core::document::Document")
    if not ck.anchor(rule, "harper_core::document::Document", root):
        return
    im = tg.interior_mutable_nodes(*root)
    n = sum(1 for _ in tg.walk(*root))
    ck.decide(rule, "Document:deep-freeze", not im, p.adts["harper_core::document::Document"]["span"],
              "%d types reachable from Document; interior-mutable nodes: %s" % (n, im[:3]))
    fr = tg.ty(*root).get("freeze")
    ck.decide(rule, "Document:rustc-freeze", fr is True, "", "rustc: Document: Freeze = %s" % fr)
    impls = p.impls_of_method("harper_core::linting::Linter::lint")
    ck.floor(rule, "impls of Linter::lint", len(impls), 15)
    bad = []
    for f in impls:
        ck.saw(f)
        t = f.local_ty(2)
        if not (t["k"] == "ref" and not t["mut"] and f.ty(t["in"])["s"].endswith("Document")):
            bad.append((f, t["s"]))
    ck.decide(rule, "Linter::lint:signature", not bad, "", "%d impls take the document as a shared reference (&Document)%s" % (len(impls), "" if not bad else "; exceptions: %s" % [(keyname(p, f), s) for f, s in bad]))


# ---------------------------------------------------------------------------------------------------
def _vec_lint_locals(f):
    out = []
    for i, (tid, _) in enumerate(f["locals"]):
        s = f.ty(tid)["s"]
        if re.match(r"^(std::vec::|alloc::vec::)?Vec<(harper_core::)?(linting::)?(lint::)?Lint>$", s):
            out.append(i)
    return out


def _aggregate(ck, p, byk):
    rule = "R-C11-aggregate"
    f = lint_fn(ck, byk, rule)
    if f is None:
        return
    pv = Prov(f)
    vecs = set(_vec_lint_locals(f))
    named = {l: n for l, n in f.debug_names().items() if l in vecs}
    ck.floor(rule, "named Vec<Lint> result vectors in LintGroup::lint", len(named), 2)
    ops = {}
    for bi, t in f.calls():
        for ai, a in enumerate(t["args"]):
            pl = place_of(a)
            if not pl:
                continue
            base = None
            if pl[0] in vecs:
                base = pl[0]
            elif pl[0] in pv.mut_base and pv.mut_base[pl[0]] in vecs:
                base = pv.mut_base[pl[0]]
            else:
                # shared borrows / copies of a vector local
                for o in flatten(pv.trace_operand(a)):
                    pass
            if base is None:
                # &vec / &*vec temporaries
                src = _borrow_base(f, pl[0])
                if src in vecs:
                    base = src
            if base is not None:
                ops.setdefault(base, []).append((method(t), bi, t))
    bad, unknown = [], []
    for l, lst in ops.items():
        for m, bi, t in lst:
            if inst_of(t) == "harper_core::remove_overlaps":
                ck.refuted(rule, "LintGroup::lint:remove_overlaps", f.loc(t["ln"]), "the lints of several rules are put through remove_overlaps inside the group (vector `%s`): a lint of one rule is dropped because a lint of another rule covers it, so switching that other rule off makes it appear - toggling one rule changes another rule's output" % named.get(l, "_%d" % l))
            elif m in VEC_BAD:
                bad.append((l, m, t))
            elif m not in VEC_OK and not m.startswith("{closure"):
                unknown.append((l, m, t))
    for l, m, t in bad:
        ck.refuted(rule, "LintGroup::lint:%s" % m, f.loc(t["ln"]), "result vector `%s` is passed to Vec::%s: the group may drop, reorder or merge lints of different rules" % (named.get(l, "_%d" % l), m))
    for l, m, t in unknown:
        ck.undecided(rule, "LintGroup::lint:%s" % m, f.loc(t["ln"]), "operation %s on result vector `%s` is outside the classified vocabulary" % (target_of(t), named.get(l, "_%d" % l)))
    if not bad:
        ck.proved(rule, "LintGroup::lint:vector-ops", f.span, "operations applied to Vec<Lint> locals: %s" % sorted({m for lst in ops.values() for m, _, _ in lst}))
    # element mutation: only Span::pull_by / push_by
    elem = []
    for bi, t in f.calls():
        n = inst_of(t)
        pl0 = place_of(t["args"][0]) if t["args"] else None
        if n.startswith("harper_core::span::{impl}::") and pl0 and len(pl0) == 1:
            lt = f.local_ty(pl0[0])
            if lt["k"] == "ref" and lt["mut"]:
                elem.append((last(n), t))
    for c in p.closures_of(f.name):
        for _, t in c.calls():
            n = inst_of(t)
            if n.startswith("harper_core::span::{impl}::") and last(n) in ("pull_by", "push_by", "set_len", "with_len", "expand", "extend"):
                elem.append((last(n), t))
    names = sorted({m for m, _ in elem})
    ck.decide(rule, "LintGroup::lint:element-ops", set(names) <= {"pull_by", "push_by"} and len(names) == 2, f.span, "mutating Span operations on lint elements: %s" % names)


def _borrow_base(f, local):
    """local = &X / &*X / copy chains: return X"""
    seen = set()
    cur = local
    for _ in range(6):
        if cur in seen:
            break
        seen.add(cur)
        nxt = None
        for b in f.blocks:
            for s in b["s"]:
                if s["k"] == "assign" and s["lhs"] == [cur]:
                    rv = s["rv"]
                    if rv["k"] == "ref":
                        nxt = rv["place"][0]
                    elif rv["k"] == "use":
                        pl = place_of(rv["op"])
                        if pl:
                            nxt = pl[0]
        if nxt is None:
            return cur
        cur = nxt
    return cur


# ---------------------------------------------------------------------------------------------------
def _key(ck, p, byk):
    rule = "R-C11-key"
    f = lint_fn(ck, byk, rule)
    if f is None:
        return
    pv = Prov(f)
    lookups = [(bi, t) for bi, t in f.calls() if inst_of(t).startswith("lru::{impl}::") and method(t) in ("get", "put", "get_mut", "peek", "get_or_insert", "push")]
    ck.floor(rule, "chunk cache accesses (get/put)", len(lookups), 2)
    for bi, t in lookups:
        roots = arg_roots(f, pv, t["args"][1])
        hcalls = [o for o in roots if o[0] == "call" and method_of(o) == "hash_one"]
        ok = False
        detail = "no hash_one(..) in the key"
        fin = [o for o in roots if o[0] == "call" and method_of(o) == "finish"]
        if fin and not hcalls:
            # hasher form: let mut h = build_hasher(); self.config.hash(&mut h); ..; h.finish()
            fed = [(hb, ht) for hb, ht in f.calls() if (def_of(ht) or "").endswith("hash::Hash::hash") and "config" in arg_fields(pv, ht["args"][0]) and ("arg", 1) in flatten(pv.trace_operand(ht["args"][0]))]
            same_hasher = False
            from .c13 import _base_local
            for o in fin:
                hl = _base_local(f, pv, f.blocks[o[1]]["t"]["args"][0])
                for hb, ht in fed:
                    h2 = _base_local(f, pv, ht["args"][1])
                    if hl is not None and hl == h2:
                        same_hasher = True
            if fed and same_hasher:
                ok = True
                detail = "key contains finish() of a hasher that self.config was hashed into"
        for o in hcalls:
            ht = f.blocks[o[1]]["t"]
            if "config" in arg_fields(pv, ht["args"][1]) and ("arg", 1) in flatten(pv.trace_operand(ht["args"][1])):
                ok = True
                detail = "key contains hash_one(&self.config)"
        ck.decide(rule, "LintGroup::lint:cache-%s" % method(t), ok, f.loc(t["ln"]), detail)
    # Hash for LintGroupConfig
    hs = byk.get("<LintGroupConfig as Hash>::hash")
    if not ck.anchor(rule, "<LintGroupConfig as Hash>::hash", hs):
        return
    h = hs[0]
    ck.saw(h)
    pv = Prov(h)
    cfg = Cfg(h)
    nexts = [(bi, t) for bi, t in h.calls() if method(t) == "next"]
    over_inner = any("inner" in arg_fields(pv, t["args"][0]) for bi, t in h.calls() if method(t) in ("into_iter", "iter"))
    writes = [(bi, t) for bi, t in h.calls() if def_of(t).startswith("core::hash::Hasher::write")]
    key_w = [(bi, t) for bi, t in writes if method(t) == "write" and _from_entry(h, pv, t["args"][1], 0)]
    val_w = [(bi, t) for bi, t in writes if _from_entry(h, pv, t["args"][1], 1)]
    const_w = [(bi, t) for bi, t in writes if "k" in t["args"][1]]
    loops = cfg.natural_loops()
    in_loop = lambda b: any(b in body for body in loops.values())
    # every loop iteration writes the key, and then reaches a value write (Some arm) or constant marker (None arm)
    ok = bool(nexts) and over_inner and bool(key_w) and all(in_loop(b) for b, _ in key_w) and bool(val_w)
    detail = "iterates self.inner=%s, key bytes written per entry=%d site(s), value-derived writes=%d, constant markers=%d" % (over_inner, len(key_w), len(val_w), len(const_w))
    if ok:
        # both arms of the Option<bool> value write something distinguishing: from the key write every
        # path back to the loop head passes a write_u8
        for kb, _ in key_w:
            u8s = [b for b, t in writes if method(t) == "write_u8"]
            heads = list(loops.keys())
            good, wit = cfg.every_path_passes(kb, u8s, to=heads)
            if not good:
                ok = False
                detail += "; a path from the key write back to the loop head writes no value byte: %s" % wit
        # what is written for the three states of a switch: unset, off, on - evaluated on the loop body
        table = _hash_states(h, nexts)
        if table is None:
            consts = {t["args"][1]["k"].get("int") for _, t in const_w if "int" in t["args"][1].get("k", {})}
            if len(consts) < 2:
                ck.undecided(rule, "<LintGroupConfig as Hash>::hash", h.span, detail + "; the bytes written for unset / off / on could not be evaluated and no two constant markers are visible")
                return
        else:
            detail += "; bytes written after the name for unset/off/on: %s" % ({k: v for k, v in table.items()})
            if len({tuple(v) for v in table.values()}) < 3:
                ok = False
                detail += " - two states of a switch hash alike, so a cached clause is served under a configuration that differs in that rule"
    ck.decide(rule, "<LintGroupConfig as Hash>::hash", ok, h.span, detail)


def _enabled_table(g):
    """is_rule_enabled evaluated for the four possible entries of the rule; None if the body is beyond the evaluator"""
    from ..interp import Interp, Stuck
    pv = Prov(g)
    closures = {c.name: c for c in facts.load().closures_of(g.name)}
    some = lambda x: ("variant", "Option", 1, "Some", [x], 1)
    none = ("variant", "Option", 0, "None", [], 0)
    states = {"absent": none, "unset": some(none), "off": some(some(("bool", False))), "on": some(some(("bool", True)))}
    out = {}
    for name, entry in states.items():
        def call(t, a):
            m = method(t)
            if m in ("get", "get_mut") and t["args"] and "inner" in arg_fields(pv, t["args"][0]):
                return entry
            if m in ("cloned", "copied", "clone", "as_ref", "as_deref", "deref", "borrow", "into", "from", "as_str", "as_mut"):
                return a[0]
            if m == "flatten" and a and a[0][0] == "variant":
                return a[0][4][0] if a[0][3] == "Some" and a[0][4] and a[0][4][0][0] == "variant" else none
            if m in ("unwrap_or", "unwrap_or_default", "is_some_and") and a and a[0][0] == "variant":
                if m == "unwrap_or":
                    return a[0][4][0] if a[0][3] == "Some" else a[1]
                if m == "unwrap_or_default":
                    return a[0][4][0] if a[0][3] == "Some" else ("bool", False)
            if m in ("is_some", "is_none") and a and a[0][0] == "variant":
                return ("bool", (a[0][3] == "Some") == (m == "is_some"))
            if m in ("is_some_and", "map_or", "map_or_else", "is_none_or", "map", "and_then", "filter") and a and a[0][0] == "variant":
                some_ = a[0][3] == "Some"
                if not some_:
                    if m == "is_some_and":
                        return ("bool", False)
                    if m == "is_none_or":
                        return ("bool", True)
                    if m == "map_or":
                        return a[1]
                    if m in ("map", "and_then", "filter"):
                        return none
                    raise Stuck("call to %s on None" % m)
                cl = [x for x in pv.trace_operand(t["args"][-1]) if x[0] == "agg" and x[1] == "closure"]
                c = closures.get(cl[0][2]) if len(cl) == 1 else None
                if c is None:
                    raise Stuck("closure of %s not found" % m)
                r, _ = Interp(c, max_steps=200).run({2: a[0][4][0]}, hooks={"call": call})
                if m in ("is_some_and", "is_none_or", "map_or"):
                    return r
                if m == "map":
                    return some(r)
                if m == "and_then":
                    return r
                if m == "filter":
                    return a[0] if r == ("bool", True) else none
            if m in ("eq", "ne") and len(a) == 2 and a[0][0] == a[1][0] == "variant":
                return ("bool", (a[0] == a[1]) == (m == "eq"))
            raise Stuck("call to %s" % m)
        try:
            r, _ = Interp(g, max_steps=400).run({}, hooks={"call": call})
        except Stuck:
            return None
        if r[0] != "bool":
            return None
        out[name] = r[1]
    return out


def _hash_states(h, nexts):
    """bytes written by one iteration of the loop for value = None / Some(false) / Some(true); None if not evaluable"""
    from ..interp import Interp, Stuck
    if len(nexts) != 1 or nexts[0][1].get("target") is None or not nexts[0][1].get("dest"):
        return None
    nb, nt = nexts[0]

    class Done(Exception):
        pass
    out = {}
    for name, val in (("unset", ("variant", "Option", 0, "None", [], 0)), ("off", ("variant", "Option", 1, "Some", [("bool", False)], 1)), ("on", ("variant", "Option", 1, "Some", [("bool", True)], 1))):
        written = []

        def call(t, a):
            m = method(t)
            if m == "next":
                raise Done()
            if def_of(t).startswith("core::hash::Hasher::write"):
                v = a[1] if len(a) > 1 else ("unknown", "")
                if m != "write":
                    if v[0] not in ("int", "bool"):
                        raise Stuck("value byte is not a constant")
                    written.append(int(v[1]))
                return ("tuple", [])
            if m in ("as_bytes", "as_str", "deref", "as_ref", "borrow", "len"):
                return ("unknown", "key bytes")
            raise Stuck("call to %s" % m)
        entry = ("variant", "Option", 1, "Some", [("tuple", [("unknown", "key"), val])], 1)
        env = {nt["dest"][0]: entry}
        try:
            Interp(h, max_steps=600).run(env, nt["target"], 0, {"call": call})
            return None         # left the function: not the loop body
        except Done:
            out[name] = list(written)
        except Stuck:
            return None
    return out


def _from_entry(h, pv, op, idx):
    """does the operand derive from component idx (0 key, 1 value) of the map entry returned by next()?"""
    def has(o, depth=0):
        if depth > 12 or not isinstance(o, tuple):
            return False
        if o[0] == "field":
            inner = o[1]
            if o[2] == idx and isinstance(inner, tuple) and inner[0] == "field" and isinstance(inner[1], tuple) and inner[1][0] == "call" and method_of(inner[1]) == "next":
                return True
            return has(inner, depth + 1)
        if o[0] == "call":
            t = h.blocks[o[1]]["t"]
            return any(any(has(x, depth + 1) for x in pv.trace_operand(a)) for a in t["args"])
        if o[0] in ("un",):
            return any(has(x, depth + 1) for x in o[2])
        if o[0] == "bin":
            return any(has(x, depth + 1) for x in o[2]) or any(has(x, depth + 1) for x in o[3])
        return False
    return any(has(o) for o in pv.trace_operand(op))


# ---------------------------------------------------------------------------------------------------
def _overlay(ck, p, byk):
    rule = "R-C11-overlay"
    sites = []
    for f in p.fns.values():
        for bi, t in f.calls():
            if inst_of(t) == "harper_core::linting::lint_group::{impl}::fill_with_curated" and not f.name.startswith("harper_core::linting::lint_group::"):
                sites.append((f, bi, t))
    ck.floor(rule, "overlay sites (fill_with_curated callers outside lint_group.rs)", len(sites), 1)
    for f, bi, t in sites:
        ck.saw(f)
        key = keyname(p, f)
        if f.name.startswith("harper_cli::"):
            ck.proved(rule, key, f.loc(t["ln"]), "one-shot command-line use: the overlaid configuration is not reused")
            continue
        cfg = Cfg(f)
        pv = Prov(f, opaque=["core::clone::Clone::clone"])
        if "config" not in arg_fields(pv, t["args"][0]):
            # the defaults are filled into a *copy*, which is then swapped in: mem::replace(&mut self..config, copy)
            # hands back the user's configuration, and that is what has to be assigned back after the lint call
            swaps = [(sb, st) for sb, st in f.calls() if last(norm(inst_of(st) or def_of(st) or "")) in ("replace", "swap", "take") and "mem" in norm(inst_of(st) or def_of(st) or "") and st["args"] and "config" in arg_fields(pv, st["args"][0]) and cfg.dominates(bi, sb)]
            if len(swaps) != 1 or last(norm(inst_of(swaps[0][1]) or "")) != "replace":
                ck.undecided(rule, key, f.loc(t["ln"]), "fill_with_curated() is applied to a copy of the configuration; how the copy is put in place and the user's configuration kept is not of a recognised form")
                continue
            sb, st = swaps[0]
            restores = []
            for rb, si, s2 in blocks_assigning_field(f, "config"):
                if s2["rv"]["k"] != "use":
                    continue
                src = flatten(pv.trace_operand(s2["rv"]["op"]))
                if any(o[0] == "call" and o[1] == sb for o in src):
                    restores.append(rb)
            if not restores:
                ck.refuted(rule, key, f.loc(st["ln"]), "the configuration that mem::replace hands back when the filled copy is put in place is never assigned back")
                continue
            ok, wit = cfg.every_path_passes(sb, restores)
            lint_between = [lb for lb, lt in f.calls() if def_of(lt) == "harper_core::linting::Linter::lint" and cfg.dominates(sb, lb) and any(cfg.dominates(lb, r) for r in restores)]
            ck.decide(rule, key, ok and bool(lint_between), f.loc(t["ln"]),
                      "defaults filled into a copy, copy swapped in by mem::replace at bb%s, the configuration it hands back restored at bb%s on every path to return=%s%s, lint call between=%s" % (sb, restores, ok, "" if ok else " (path %s)" % wit, bool(lint_between)))
            continue
        # saved copy: a clone of the same `config` place that dominates the overlay
        clones = [(cb, ct) for cb, ct in f.calls() if method(ct) == "clone" and "config" in arg_fields(pv, ct["args"][0]) and cfg.dominates(cb, bi)]
        if not clones:
            ck.refuted(rule, key, f.loc(t["ln"]), "fill_with_curated() overlays the user's configuration but no saved copy of it is taken before")
            continue
        restores = []
        for rb, si, s in blocks_assigning_field(f, "config"):
            if s["rv"]["k"] != "use":
                continue
            src = flatten(pv.trace_operand(s["rv"]["op"]))
            if any(o[0] == "call" and o[1] in [cb for cb, _ in clones] for o in src):
                restores.append(rb)
        if not restores:
            ck.refuted(rule, key, f.loc(t["ln"]), "the configuration saved before fill_with_curated() is never assigned back")
            continue
        ok, wit = cfg.every_path_passes(bi, restores)
        # the lint call lies between overlay and restore
        lint_between = [lb for lb, lt in f.calls() if def_of(lt) == "harper_core::linting::Linter::lint" and cfg.dominates(bi, lb) and any(cfg.dominates(lb, r) for r in restores)]
        ck.decide(rule, key, ok and bool(lint_between), f.loc(t["ln"]),
                  "saved clone at bb%s, restore at bb%s on every path to return=%s%s, lint call between=%s" % ([c for c, _ in clones], restores, ok, "" if ok else " (path %s)" % wit, bool(lint_between)))


# ---------------------------------------------------------------------------------------------------
def _merge(ck, p, byk):
    rule = "R-C11-merge"
    fs = byk.get("LintGroupConfig::merge_from")
    if ck.anchor(rule, "LintGroupConfig::merge_from", fs):
        f = fs[0]
        ck.saw(f)
        cfg = Cfg(f)
        pv = Prov(f)
        ins = [(bi, t) for bi, t in f.calls() if method(t) == "insert" and "inner" in arg_fields(pv, t["args"][0])]
        if not ins:
            # other forms of the same copy: self.inner.extend(other.inner.iter().filter(|(_, v)| v.is_some()) ..)
            ext = [(bi, t) for bi, t in f.calls() if method(t) == "extend" and "inner" in arg_fields(pv, t["args"][0])]
            if len(ext) == 1:
                roots = arg_roots(f, pv, ext[0][1]["args"][1])
                filt = [o for o in roots if o[0] == "call" and method_of(o) in ("filter", "filter_map")]
                tests = False
                for o in filt:
                    ft = f.blocks[o[1]]["t"]
                    for x in pv.trace_operand(ft["args"][-1]):
                        if x[0] == "agg" and x[1] == "closure" and x[2] in p.fns:
                            c = p.fns[x[2]]
                            names = {method(tt) for _, tt in c.calls()}
                            has_discr = any(sx["k"] == "assign" and sx["rv"]["k"] == "discr" for b in c.blocks for sx in b["s"])
                            others = names - {"is_some", "is_none", "deref", "as_ref", "clone", "cloned", "copied", "map", "then", "then_some"}
                            if (names & {"is_some", "is_none"} or has_discr) and not others:
                                tests = True
                if filt and tests:
                    ck.proved(rule, "LintGroupConfig::merge_from", f.span, "self.inner.extend(..) over the other configuration's entries filtered by `val` being set only")
                elif not filt:
                    ck.refuted(rule, "LintGroupConfig::merge_from", f.span, "self.inner.extend(..) copies every entry of the other configuration, unset ones included: they overwrite explicit choices")
                else:
                    ck.undecided(rule, "LintGroupConfig::merge_from", f.span, "self.inner.extend(..) behind a filter that is not recognisably a test of `val` being set")
            else:
                ck.undecided(rule, "LintGroupConfig::merge_from", f.span, "neither an insert in a loop over the other configuration nor a single extend of self.inner: the copy is not of a recognised form")
            ins = None
    if fs and ins is not None:
        ok = len(ins) == 1
        detail = "insert sites=%d" % len(ins)
        loops = cfg.natural_loops()
        for bi, t in ins:
            inside = [h for h, body in loops.items() if bi in body]
            if not inside:
                ok = False
                detail += "; the insert is not inside the loop over the other configuration"
                continue
            head = max(inside, key=lambda h: len(loops[h]))
            body = loops[head]
            entry = _entry_call(f, pv, t["args"][2])
            if not entry:
                ok = False
                detail += "; the inserted value is not the entry of the other configuration"
                continue
            # every branch inside the loop that can route an entry around the insert must be a test of
            # `val` being Some / None - nothing else may decide whether an explicit entry is copied
            extra = []
            n_tests = 0
            for b2 in sorted(body):
                t2 = f.blocks[b2]["t"]
                if t2["k"] != "switch" or b2 == head or not cfg.reaches(b2, [bi], avoid=[head]):
                    continue
                succs = [x for _, x in t2["targets"]] + ([t2["otherwise"]] if t2.get("otherwise") is not None else [])
                skips = [x for x in succs if x in body and x != bi and not cfg.reaches(x, [bi], avoid=[head])]
                if not skips:
                    continue
                # what is switched on?
                dl = place_of(t2["discr"])[0] if place_of(t2["discr"]) else None
                kind = None
                for (b3, si, k3, x3) in pv.defs.get(dl, []):
                    if k3 == "assign" and x3["rv"]["k"] == "discr":
                        src = x3["rv"]["place"]
                        if _entry_call(f, pv, {"c": [src[0]]}) and f.local_tystr(src[0]).replace("&", "").strip().startswith(("std::option::Option<bool>", "core::option::Option<bool>")) and not [e for e in src[1:] if e != "*"]:
                            kind = "option-discriminant"
                    elif k3 == "call" and method(x3) in ("is_none", "is_some") and _entry_call(f, pv, x3["args"][0]):
                        kind = "is_none/is_some"
                if kind is None:
                    for (b3, si, k3, x3) in pv.defs.get(dl, []):
                        if k3 == "assign" and x3["rv"]["k"] == "use" and place_of(x3["rv"]["op"]):
                            for (b4, s4, k4, x4) in pv.defs.get(place_of(x3["rv"]["op"])[0], []):
                                if k4 == "call" and method(x4) in ("is_none", "is_some") and _entry_call(f, pv, x4["args"][0]):
                                    kind = "is_none/is_some"
                if kind:
                    n_tests += 1
                else:
                    extra.append(f.loc(t2.get("ln") or t["ln"]))
            if extra:
                ok = False
                detail += "; besides `val` being set, another condition (at %s) decides whether an explicit entry of the other configuration is copied: an explicit choice can be dropped" % ", ".join(sorted(set(extra)))
            elif n_tests == 0:
                ok = False
                detail += "; no test of `val` being set guards the insert: unset entries overwrite explicit ones"
            else:
                detail += "; the insert is skipped only when `val` is None (%d test(s)), every set entry is copied" % n_tests
        ck.decide(rule, "LintGroupConfig::merge_from", ok, f.span, detail)
    fs = byk.get("LintGroupConfig::fill_with_curated")
    if ck.anchor(rule, "LintGroupConfig::fill_with_curated", fs):
        f = fs[0]
        ck.saw(f)
        cfg = Cfg(f)
        pv = Prov(f)
        cur = calls_to(f, "::new_curated")
        swp = calls_to(f, "mem::swap")
        mrg = calls_to(f, "::merge_from")
        rpl = calls_to(f, "mem::replace")
        if len(mrg) == 1:
            # the defaults are filled in on every path: no way round the merge that leaves self untouched
            ok_all, wit = cfg.every_path_passes(0, {mrg[0][0]})
            if 0 == mrg[0][0] or ok_all:
                ck.proved(rule, "LintGroupConfig::fill_with_curated:always", f.span, "every path through fill_with_curated passes the merge")
            else:
                path = [0] + list(wit or [])
                writes = False
                for bi2 in path:
                    b2 = f.blocks[bi2]
                    for sx in b2["s"]:
                        if sx["k"] == "assign" and sx["lhs"][:2] == [1, "*"]:
                            writes = True
                        if sx["k"] == "assign" and sx["rv"]["k"] == "ref" and sx["rv"].get("mut") and sx["rv"]["place"][:1] == [1]:
                            writes = True
                side = cfg.reachable_from([0], avoid=[mrg[0][0]])
                looks = sorted({method(f.blocks[b3]["t"]) for b3 in side if f.blocks[b3]["t"]["k"] == "call" and method(f.blocks[b3]["t"]) in ("contains_key", "get", "get_mut", "keys", "iter", "entry", "eq", "ne", "into_iter", "is_subset", "is_superset")})
                if writes:
                    ck.undecided(rule, "LintGroupConfig::fill_with_curated:always", f.span, "a path leaves fill_with_curated without passing the merge but writes to self on the way: not of a recognised form")
                elif looks:
                    ck.undecided(rule, "LintGroupConfig::fill_with_curated:always", f.span, "a path leaves fill_with_curated without passing the merge; the test that selects it looks at individual entries (%s): whether it holds only for configurations that name every curated rule is not decided" % ", ".join(looks))
                else:
                    ln = f.blocks[path[-1]]["t"].get("ln") or f.blocks[path[-2]]["t"].get("ln") if len(path) > 1 else 0
                    ck.refuted(rule, "LintGroupConfig::fill_with_curated:always", f.span, "a path leaves fill_with_curated without merging the curated defaults and without writing to self at all (blocks %s), and the test that selects that path looks at no rule name (no lookup by key, no walk over the entries - sizes and values only): a configuration with as many entries as there are curated rules, one of them under a stale name, takes it and keeps its gap - the rule it does not mention stays without an entry and reads as switched off" % path[:8])
        if len(cur) == 1 and not swp and not rpl and len(mrg) == 1:
            # let mut curated = new_curated(); curated.merge_from(self); *self = curated
            (cb, ct), (mb, mt) = cur[0], mrg[0]
            curated = ct["dest"][0]
            recv = pv.mut_base.get(place_of(mt["args"][0])[0]) if place_of(mt["args"][0]) else None
            other_self = ("arg", 1) in flatten(pv.trace_operand(mt["args"][1]))
            stored = False
            for bi2, b2 in enumerate(f.blocks):
                for sx in b2["s"]:
                    if sx["k"] == "assign" and sx["lhs"][:2] == [1, "*"] and len(sx["lhs"]) == 2 and sx["rv"]["k"] == "use" and place_of(sx["rv"]["op"]):
                        src = place_of(sx["rv"]["op"])[0]
                        if (src == curated or any(x["rv"]["k"] == "use" and place_of(x["rv"]["op"]) and place_of(x["rv"]["op"])[0] == curated for (_, _, k_, x) in pv.defs.get(src, []) if k_ == "assign")) and cfg.dominates(mb, bi2):
                            stored = True
            if recv == curated and other_self:
                ck.decide(rule, "LintGroupConfig::fill_with_curated", stored, f.span, "curated = new_curated(); curated.merge_from(self); *self = curated (stored after the merge: %s)" % stored)
                fs = None
        if len(cur) == 1 and not swp and len(rpl) == 1 and len(mrg) == 1:
            # let mut user = mem::replace(self, new_curated()); self.merge_from(&mut user)
            (cb, ct), (rb, rt), (mb, mt) = cur[0], rpl[0], mrg[0]
            repl_self = ("arg", 1) in flatten(pv.trace_operand(rt["args"][0]))
            repl_new = any(o[0] == "call" and o[1] == cb for o in flatten(pv.trace_operand(rt["args"][1])))
            old_local = rt["dest"][0]
            merge_recv_self = ("arg", 1) in flatten(pv.trace_operand(mt["args"][0]))
            merge_other_old = (pv.mut_base.get(place_of(mt["args"][1])[0]) == old_local) if place_of(mt["args"][1]) else False
            order = cfg.dominates(rb, mb)
            ck.decide(rule, "LintGroupConfig::fill_with_curated", repl_self and repl_new and merge_recv_self and merge_other_old and order, f.span,
                      "old=replace(self, new_curated())=%s; self.merge_from(&mut old)=%s; in this order=%s" % (repl_self and repl_new, merge_recv_self and merge_other_old, order))
            fs = None
    if fs:
        ok = len(cur) == 1 and len(swp) == 1 and len(mrg) == 1
        detail = "new_curated=%d swap=%d merge_from=%d" % (len(cur), len(swp), len(mrg))
        if not ok and (len(cur) != 1 or len(mrg) != 1):
            ck.undecided(rule, "LintGroupConfig::fill_with_curated", f.span, detail + ": not of a recognised form (swap / replace with the curated defaults, then merge the user's choices back)")
            ok = None
        if ok:
            (cb, ct), (sb, st), (mb, mt) = cur[0], swp[0], mrg[0]
            temp = ct["dest"][0]
            swap_args = [pv.mut_base.get(place_of(a)[0]) if place_of(a) else None for a in st["args"]]
            swap_self = any(("arg", 1) in flatten(pv.trace_operand(a)) for a in st["args"])
            swap_temp = temp in swap_args
            merge_recv_self = ("arg", 1) in flatten(pv.trace_operand(mt["args"][0]))
            merge_other_temp = pv.mut_base.get(place_of(mt["args"][1])[0]) == temp if place_of(mt["args"][1]) else False
            order = cfg.dominates(cb, sb) and cfg.dominates(sb, mb)
            ok = swap_self and swap_temp and merge_recv_self and merge_other_temp and order
            detail = "temp=new_curated(); swap(self,temp)=%s; self.merge_from(&mut temp)=%s; in this order=%s" % (swap_self and swap_temp, merge_recv_self and merge_other_temp, order)
        if ok is not None:
            ck.decide(rule, "LintGroupConfig::fill_with_curated", ok, f.span, detail)
    fs = byk.get("LintGroupConfig::set_rule_enabled_if_unset")
    if ck.anchor(rule, "LintGroupConfig::set_rule_enabled_if_unset", fs):
        f = fs[0]
        ck.saw(f)
        cfg = Cfg(f)
        sets = [(bi, t) for bi, t in f.calls() if method(t) in ("set_rule_enabled", "insert")]
        ors = [(bi, t) for bi, t in f.calls() if method(t) in ("or_insert", "or_insert_with", "or_default")]
        if not sets and ors and any(method(t) == "entry" for _, t in f.calls()):
            ck.proved(rule, "LintGroupConfig::set_rule_enabled_if_unset", f.span, "inner.entry(key).or_insert(..): an existing entry is left alone")
            return
        if not sets:
            ck.undecided(rule, "LintGroupConfig::set_rule_enabled_if_unset", f.span, "no insert / set_rule_enabled / entry().or_insert() found: form not recognised")
            return
        ok = bool(sets)
        for bi, t in sets:
            g = gate_for(f, cfg, bi, lambda x: method(x) == "contains_key", want=False)
            ok = ok and bool(g)
        ck.decide(rule, "LintGroupConfig::set_rule_enabled_if_unset", ok, f.span, "%d insertion site(s), each dominated by the false edge of contains_key(key)" % len(sets))


def _entry_call(f, pv, op):
    return {o for o in arg_roots(f, pv, op) if o[0] == "call" and method_of(o) == "next"}


def _transparent(ck, p):
    rule = "R-C11-serde"
    d = p.adts.get("harper_core::linting::lint_group::LintGroupConfig")
    if not ck.anchor(rule, "LintGroupConfig", d):
        return
    rec = p.serde_of(d)
    fields = d["variants"][0]["fields"]
    tys = [p.tys[d["crate"]][f["ty"]]["s"] for f in fields]
    ok = rec is not None and "transparent" in " ".join(rec["serde"]) and len(fields) == 1 and "BTreeMap<std::string::String, std::option::Option<bool>>" in tys[0].replace("alloc::", "std::")
    ck.decide(rule, "LintGroupConfig:transparent-map", ok, d["span"], "serde attrs %s over field types %s" % (rec["serde"] if rec else None, tys))
