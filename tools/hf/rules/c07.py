"""C07 — added words are accepted from then on and never lost (pipeline + crash-atomic save)."""
import re

from .. import facts
from ..cfg import Cfg
from ..common import (arg_fields, arg_roots, arm_blocks, awaited, calls_to, def_of, inst_of, method, str_guards, target_of)
from ..prov import Prov, flatten
from ..util import fns_by_key, keyname, place_of, norm, last, const_str, with_closures

LEVEL = "other"
BACKEND = "harper_ls::backend::{impl}::"


from . import c05


def run(ck, tier):
    ck.rule("R-C07-pipeline", "execute_command, arms HarperAddToUserDict / HarperAddToFileDict: load -> append_word(first argument) -> save of the same dictionary value -> document refresh -> publish_diagnostics(file_url), each awaited, in this order on every path after the word is appended; load/save of the file dictionary use get_file_dict_path of the same url")
    ck.rule("R-C07-atomic", "save_dict never truncates the destination in place: it either does not open it for truncation, or writes another path and renames it over the destination after flushing")
    ck.rule("R-C07-format", "writer and reader of the dictionary file agree on the delimiter: write_word_list writes each word followed by one '\\n'; dict_from_word_list splits with str::lines")
    ck.rule("R-C07-adopt", "the reloaded dictionary is adopted by open documents: harper-ls swaps dictionary and linter when `doc_state.dict != dict` (R-C05-rebuild); MergedDictionary equality compares the per-child hashes; add_dictionary records hash_dictionary(d) next to d; hash_dictionary feeds a hasher from words_iter() and reaches no case/apostrophe normaliser on the way, so two dictionaries that differ in a stored spelling never compare equal by construction")
    ck.not_decided += ["words containing a line break or differing only in case from an earlier word (value-level)", "multi-process races on the dictionary file", "harper-wasm import path is decided under C16 (R-C16-samedoc)"]
    ck.rule("R-C07-first", "all other lints are unchanged by an added word: wherever harper-ls and harper-wasm build the merged dictionary, the curated dictionary is added before any user or file dictionary (the first part that knows a word's letters supplies its entry, so a user entry in front would replace the curated part-of-speech data of every case variant of the added word)")
    ck.rule("R-C07-reload", "the user and file dictionaries are answered from their files every time: every dictionary load_user_dictionary / load_file_dictionary returns is the result of load_dict (or a new empty dictionary when there is none) - an in-memory copy that outlives the call does not see words another harper-ls process or a hand edit put into the file, and the next save deletes them")
    p = facts.load()
    byk = fns_by_key(p)
    _pipeline(ck, p, byk)
    _atomic(ck, p, byk)
    _format(ck, p, byk)
    _adopt(ck, p, byk)
    _reload(ck, p)
    _curated_first(ck, p)
    _filekey(ck, p)
    from . import c06
    ck.rule("R-C07-accept", "an added word is accepted as written: the exact-spelling test compares like with like (rule instance of R-C06-exact) and the entry whose dialect the spell checker tests is not an earlier part's (rule instance of R-C06-union dialect); membership in the merged dictionary is the union over all parts, so a spelling held by a later part (the user's) is found even when an earlier part knows the same letters in another capitalisation (rule instances of R-C06-union)")
    sub = c05._Sub(ck, "R-C07-accept", "")
    c06.like_with_like(sub, p, byk, "R-C07-accept")
    c06.dialect_first_wins(sub, p, byk, "R-C07-accept")
    # the user's spelling sits in a later part of the merged dictionary: it is accepted only if membership is the
    # union over ALL parts (rule instances of R-C15-merged / R-C06-union)
    from . import c15
    c15._merged(sub, p, c15.dictionary_impls(p), rule="R-C07-accept", only=["contains_word", "contains_exact_word"])


def _find(f, arm, suffix):
    return [(bi, t) for bi, t in f.calls() if bi in arm and inst_of(t) == BACKEND + suffix]


def _pipeline(ck, p, byk):
    rule = "R-C07-pipeline"
    f = p.fns.get("harper_ls::backend::{impl#1}::execute_command::{closure#0}")
    if not ck.anchor(rule, "Backend::execute_command", f):
        return
    ck.saw(f)
    cfg = Cfg(f)
    pv = Prov(f)
    guards = {lit: (gb, tb) for lit, gb, tb, fb in str_guards(f)}
    arms = (("HarperAddToUserDict", "load_user_dictionary", "save_user_dictionary"), ("HarperAddToFileDict", "load_file_dictionary", "save_file_dictionary"))
    for lit, load_n, save_n in arms:
        if lit not in guards:
            ck.refuted(rule, "anchor-missing:%s" % lit, f.span, "no comparison of the command with \"%s\"" % lit)
            continue
        gb, tb = guards[lit]
        arm = arm_blocks(cfg, tb)
        load = _find(f, arm, load_n)
        save = _find(f, arm, save_n)
        upd = _find(f, arm, "update_document_from_file") + _find(f, arm, "update_document") + _find(f, arm, "refresh_document")
        pub = _find(f, arm, "publish_diagnostics")
        app = [(bi, t) for bi, t in f.calls() if bi in arm and inst_of(t).endswith("mutable_dictionary::{impl}::append_word")]
        via_helper = None
        if not upd and not pub:
            # refresh + publish extracted into one awaited async helper (new since the reference tree)
            from ..common import new_async_helper, helper_stage_calls
            for hb, ht in f.calls():
                if hb not in arm:
                    continue
                body = new_async_helper(p, ht)
                if body is None or not awaited(f, hb):
                    continue
                st_ = helper_stage_calls(p, body, ("refresh_document", "update_document", "update_document_from_file", "publish_diagnostics"))
                names = [x[0] for x in st_]
                if len(names) == 2 and names[0] != "publish_diagnostics" and names[1] == "publish_diagnostics":
                    hpv = Prov(body)
                    same_url = all("url" in str(arg_fields(hpv, x[2]["args"][1])) or ("arg", 1) in flatten(hpv.trace_operand(x[2]["args"][1])) for x in st_)
                    if same_url:
                        via_helper = (hb, ht, names[0])
            if via_helper:
                upd = [(via_helper[0], via_helper[1])]
                pub = [(via_helper[0], via_helper[1])]
        stages = [("load", load), ("append_word", app), ("save", save), ("refresh", upd), ("publish", pub)]
        bad = [n for n, c in stages if len(c) != 1]
        if bad:
            ck.refuted(rule, "%s:stages" % lit, f.span, "expected exactly one call of each stage in the arm; off: %s" % {n: len(c) for n, c in stages})
            continue
        (lb, lt), (ab, at), (sb, st), (ub, ut), (pb, pt) = load[0], app[0], save[0], upd[0], pub[0]
        ck.callsites += 5
        # order + awaited
        seq = [lb, ab, sb, ub, pb] if not via_helper else [lb, ab, sb, ub]
        order = all(cfg.dominates(a, b) and a != b for a, b in zip(seq, seq[1:]))
        polls = {n: [x for x in awaited(f, b) if x in arm] for n, b in (("load", lb), ("save", sb), ("refresh", ub), ("publish", pb))}
        aw = all(polls.values())
        # each await completes before the next stage starts: the poll site dominates the next stage
        aw_order = aw and cfg.dominates(polls["load"][0], ab) and cfg.dominates(polls["save"][0], ub) and (via_helper is not None or cfg.dominates(polls["refresh"][0], pb))
        ck.decide(rule, "%s:order" % lit, order and aw_order, f.loc(lt["ln"]), "load -> append_word -> save -> refresh -> publish dominate each other=%s; every async stage is awaited before the next begins=%s" % (order, aw_order))
        # after the word is appended nothing can skip save / refresh / publish
        skip = []
        for n, b in (("save", sb), ("refresh", ub), ("publish", pb)):
            ok, wit = cfg.every_path_passes(ab, [b])
            if not ok:
                skip.append((n, wit))
        ck.decide(rule, "%s:no-skip" % lit, not skip, f.loc(at["ln"]), "from append_word every path to a return passes save, refresh and publish%s" % ("" if not skip else "; skipped: %s" % skip))
        # data flow
        dict_local = pv.mut_base.get(place_of(at["args"][0])[0]) if place_of(at["args"][0]) else None
        loaded = dict_local is not None and any(o[0] == "call" and o[1] in polls["load"] for o in arg_roots(f, pv, {"c": [dict_local]}))
        sarg = st["args"][-1]
        saved_same = place_of(sarg) is not None and (place_of(sarg)[0] == dict_local or dict_local in _move_sources(f, place_of(sarg)[0]))
        nexts_out = _next_sources(f, pv, at["args"][1])
        # the word is (derived from) an argument taken off the command's argument list before the arms split; inside the
        # arm only conversions of it (chars(), a helper's own iterators) may call next()
        outside = [o for o in nexts_out if o[1] not in arm]
        word_first = bool(outside)
        ck.decide(rule, "%s:dataflow" % lit, loaded and saved_same and word_first, f.loc(at["ln"]),
                  "append_word mutates the loaded dictionary=%s; the word derives from the first command argument=%s; save receives that same dictionary value=%s" % (loaded, word_first, saved_same))
        # same url for refresh and publish (and for file-dictionary load/save)
        urls = [ut["args"][1], pt["args"][1]]
        if "file" in load_n:
            urls += [lt["args"][1], st["args"][1]]
        bases = {_ref_base(f, pv, u) for u in urls}
        ck.decide(rule, "%s:same-url" % lit, len(bases) == 1 and None not in bases, f.loc(pt["ln"]), "refresh/publish%s refer to one url value: %s" % ("/load/save" if "file" in load_n else "", sorted(map(str, bases))))
    # load_file_dictionary and save_file_dictionary resolve the path the same way
    for n in ("load_file_dictionary", "save_file_dictionary"):
        g = p.fns.get("harper_ls::backend::{impl#0}::%s::{closure#0}" % n)
        if not ck.anchor(rule, "Backend::" + n, g):
            continue
        ck.saw(g)
        gpv = Prov(g)
        gp = [(bi, t) for bi, t in g.calls() if inst_of(t) == BACKEND + "get_file_dict_path"]
        io = [(bi, t) for bi, t in g.calls() if inst_of(t) in ("harper_ls::dictionary_io::load_dict", "harper_ls::dictionary_io::save_dict")]
        ok = len(gp) == 1 and len(io) == 1
        detail = "get_file_dict_path calls=%d, load_dict/save_dict calls=%d" % (len(gp), len(io))
        if ok:
            url_param = any(o[0] == "field" and o[3] == "url" or o[0] == "upvar" for o in gpv.trace_operand(gp[0][1]["args"][1])) or "url" in arg_fields(gpv, gp[0][1]["args"][1])
            path_from = any(o[0] == "call" and norm(o[3] or "").startswith("harper_ls::backend::{impl}::get_file_dict_path") for o in arg_roots(g, gpv, io[0][1]["args"][0]))
            ok = url_param and path_from
            detail += "; path = get_file_dict_path(url parameter)=%s/%s" % (url_param, path_from)
        ck.decide(rule, "Backend::%s:path" % n, ok, g.span, detail)


def _next_sources(f, pv, op, depth=0, seen=None):
    """the iterator `next()` calls the operand's value comes from (not looking inside next's own arguments)"""
    seen = set() if seen is None else seen
    out = []
    for o in flatten(pv.trace_operand(op)):
        if o in seen or o[0] != "call":
            continue
        seen.add(o)
        if last(norm(o[3] or o[2] or "")) == "next":
            out.append(o)
        elif depth < 8:
            for a in f.blocks[o[1]]["t"]["args"]:
                out += _next_sources(f, pv, a, depth + 1, seen)
    return out


def _move_sources(f, local):
    out = set()
    work = [local]
    while work:
        l = work.pop()
        for b in f.blocks:
            for s in b["s"]:
                if s["k"] == "assign" and s["lhs"] == [l] and s["rv"]["k"] == "use":
                    pl = place_of(s["rv"]["op"])
                    if pl and len(pl) == 1 and pl[0] not in out:
                        out.add(pl[0])
                        work.append(pl[0])
    return out


def _ref_base(f, pv, op):
    """the local a `&x` / `&*x` operand refers to"""
    pl = place_of(op)
    if not pl:
        return None
    l = pl[0]
    for _ in range(6):
        nxt = None
        for (bi, si, kind, x) in pv.defs.get(l, []):
            if kind == "assign" and len(x["lhs"]) == 1:
                rv = x["rv"]
                if rv["k"] == "ref":
                    nxt = rv["place"][0]
                elif rv["k"] == "use" and place_of(rv["op"]):
                    nxt = place_of(rv["op"])[0]
        if nxt is None:
            break
        l = nxt
    return l


TRUNCATING = re.compile(r"(fs::file::\{impl\}::create(_new)?$|fs::\{impl\}::create(_new)?$|fs::write::write$|fs::write$)")


def _atomic(ck, p, byk):
    rule = "R-C07-atomic"
    f = p.fns.get("harper_ls::dictionary_io::save_dict::{closure#0}")
    if not ck.anchor(rule, "dictionary_io::save_dict", f):
        return
    ck.saw(f)
    cfg = Cfg(f)
    pv = Prov(f)
    creators = [(bi, t) for bi, t in f.calls() if TRUNCATING.search(inst_of(t)) or (method(t) == "open" and "OpenOptions" in (t["f"].get("pretty") or ""))]
    renames = [(bi, t) for bi, t in f.calls() if inst_of(t).endswith("fs::rename::rename") or inst_of(t).endswith("fs::rename")]
    ck.floor(rule, "file-creating calls in save_dict", len(creators), 1)
    for bi, t in creators:
        dest_direct = _is_param_path(f, pv, t["args"][0])
        if dest_direct:
            ck.refuted(rule, "save_dict:in-place-truncate", f.loc(t["ln"]),
                       "%s opens the destination itself for truncation: a crash while the word list is being written leaves an empty or partial dictionary (every earlier word lost)" % (t["f"].get("pretty")))
            continue
        # temp-file protocol: every path from the create to a return that is not an error return passes a rename(tmp, dest)
        ok = False
        detail = "no rename onto the destination"
        for rb, rt in renames:
            to_dest = _is_param_path(f, pv, rt["args"][1])
            from_tmp = _same_path_value(f, pv, rt["args"][0], t["args"][0])
            flushes = [fb for fb, ft in f.calls() if method(ft) in ("flush", "sync_all", "sync_data") and cfg.dominates(fb, rb) and cfg.dominates(bi, fb)]
            if to_dest and from_tmp and flushes and cfg.dominates(bi, rb):
                ok = True
                detail = "writes %s, flushes, then renames it over the destination" % "a temporary path"
        ck.decide(rule, "save_dict:temp-then-rename", ok, f.loc(t["ln"]), detail)


def _is_param_path(f, pv, op):
    """the operand is the destination parameter `path` itself (through as_ref / borrows), not a path computed from it"""
    for o in arg_roots(f, pv, op, through_calls=True):
        if o[0] == "call":
            n = last(norm(o[3] or o[2] or ""))
            if n not in ("as_ref", "deref", "borrow", "as_path", "clone", "to_path_buf", "to_owned", "into"):
                return False
    from ..prov import field_names
    return "path" in field_names(pv.trace_operand(op))


def _names(f, leaves):
    out = set()
    for o in leaves:
        x = o
        while isinstance(x, tuple) and x[0] in ("field",):
            if x[3]:
                out.add(x[3])
            x = x[1]
        if isinstance(x, tuple) and x[0] == "call":
            pass
    # upvars of the coroutine are fields of _1 named like the parameters
    return out | {n for n, pl in f["debug"] if False}


def _same_path_value(f, pv, a, b):
    ra = {o for o in flatten(pv.trace_operand(a)) if o[0] == "call"}
    rb = {o for o in flatten(pv.trace_operand(b)) if o[0] == "call"}
    return bool(ra) and ra == rb


def _format(ck, p, byk):
    rule = "R-C07-format"
    w = p.fns.get("harper_ls::dictionary_io::write_word_list::{closure#0}")
    r = p.fns.get("harper_ls::dictionary_io::dict_from_word_list::{closure#0}")
    if ck.anchor(rule, "dictionary_io::write_word_list", w):
        ck.saw(w)
        cfg = Cfg(w)
        pv = Prov(w)
        loops = cfg.natural_loops()
        writes = [(bi, t) for bi, t in w.calls() if method(t) == "write_all"]
        nl = [(bi, t) for bi, t in writes if any(o[0] == "const" and re.match(r'^b?"\\n"$', o[1]) for o in flatten(pv.trace_operand(t["args"][1])))]
        word_w = [(bi, t) for bi, t in writes if (bi, t) not in nl]
        ok = len(nl) == 1 and len(word_w) == 1 and cfg.dominates(word_w[0][0], nl[0][0]) and any(nl[0][0] in body for body in loops.values())
        ck.decide(rule, "write_word_list", ok, w.span, "per word: write_all(word) then write_all(b\"\\n\") inside the loop: word writes=%d newline writes=%d" % (len(word_w), len(nl)))
    if ck.anchor(rule, "dictionary_io::dict_from_word_list", r):
        ck.saw(r)
        # the reader and everything defined inside it (nested fns, closures)
        bodies = [g for g in p.fns.values() if g.name.startswith("harper_ls::dictionary_io::dict_from_word_list") and g.get("kind") != "Promoted"]
        LINE = re.compile(r"(core::str::\{impl\}::lines$|io::BufRead::lines$|io::BufRead::read_line$|AsyncBufReadExt::lines$|AsyncBufReadExt::read_line$|::next_line$)")
        ls = [t for g in bodies for bi, t in g.calls() if LINE.search(norm(inst_of(t) or def_of(t) or ""))]
        other = [t for g in bodies for bi, t in g.calls() if method(t) in ("split", "split_whitespace", "split_terminator", "splitn", "split_ascii_whitespace", "split_inclusive")]
        # bytes -> text must be strict: a lossy decode of a partial buffer turns the multi-byte character that
        # lies across the buffer boundary into replacement characters, i.e. another word
        lossy = [t for g in bodies for bi, t in g.calls() if re.search(r"(from_utf8_lossy|from_utf8_unchecked|from_utf16_lossy)$", norm(inst_of(t) or def_of(t) or ""))]
        ok = len(ls) >= 1 and not other and not lossy
        ck.decide(rule, "dict_from_word_list", ok, (r.loc(lossy[0]["ln"]) if lossy else r.span),
                  "reader splits the text into lines (%d line-splitting call(s)), other splitters: %d, lossy byte-to-text conversions: %d%s" % (
                      len(ls), len(other), len(lossy), "" if not lossy else " - a word whose multi-byte character crosses a read-buffer boundary is loaded as a different word, flagged again, and written back on the next save"))


# a function that forgets part of a word's spelling (case, apostrophe style, surrounding blanks)
NORMALISER = re.compile(r"(::to_lowercase$|::to_uppercase$|::to_ascii_lowercase$|::to_ascii_uppercase$|::make_ascii_lowercase$|::make_ascii_uppercase$|"
                        r"::to_lower$|::normalized$|::from_word_chars$|::from_word_str$|::trim(_\w+)?$|::eq_ignore_ascii_case$|unicode_normalization::)")


def _adopt(ck, p, byk):
    from .. import callgraph
    from .c05 import _rebuild, _Sub
    rule = "R-C07-adopt"
    _rebuild(_Sub(ck, rule, ""), p)
    MD = "harper_core::spell::merged_dictionary::"
    eqs = [f for f in p.fns.values() if f.name.startswith(MD) and last(f.name) == "eq" and "PartialEq" in (f.get("impl_trait") or keyname(p, f))]
    if ck.anchor(rule, "MergedDictionary::eq", eqs):
        f = eqs[0]
        ck.saw(f)
        pv = Prov(f)
        cmps = [(bi, t) for bi, t in f.calls() if def_of(t).endswith("cmp::PartialEq::eq") or def_of(t).endswith("cmp::PartialEq::ne")]
        ok = len(cmps) == 1 and all("child_hashes" in arg_fields(pv, a) for a in cmps[0][1]["args"]) and \
            {r for a in cmps[0][1]["args"] for r in arg_roots(f, pv, a) if r[0] == "arg"} == {("arg", 1), ("arg", 2)}
        ck.decide(rule, "MergedDictionary::eq", ok, f.span, "equality is self.child_hashes == other.child_hashes: %s" % ok)
    fs = byk.get("MergedDictionary::add_dictionary")
    if ck.anchor(rule, "MergedDictionary::add_dictionary", fs):
        f = fs[0]
        ck.saw(f)
        pv = Prov(f)
        pushes = [(bi, t) for bi, t in f.calls() if method(t) == "push"]
        hp = [t for _, t in pushes if "child_hashes" in arg_fields(pv, t["args"][0])]
        cp = [t for _, t in pushes if "children" in arg_fields(pv, t["args"][0])]
        ok = len(hp) == 1 and len(cp) == 1
        if ok:
            hroots = arg_roots(f, pv, hp[0]["args"][1])
            hashed = [o for o in hroots if o[0] == "call" and (o[3] or "").endswith("::hash_dictionary")]
            ok = bool(hashed) and ("arg", 2) in hroots and ("arg", 2) in arg_roots(f, pv, cp[0]["args"][1])
        ck.decide(rule, "MergedDictionary::add_dictionary", ok, f.span, "child_hashes.push(hash_dictionary(d)) and children.push(d) for the same d: %s" % ok)
    fs = byk.get("MergedDictionary::hash_dictionary")
    if ck.anchor(rule, "MergedDictionary::hash_dictionary", fs):
        f = fs[0]
        ck.saw(f)
        bodies = [f]
        todo = [f]
        while todo:
            x = todo.pop()
            for c in p.closures_of(x.name):
                bodies.append(c)
                todo.append(c)
        feeds = [(b, t) for b in bodies for _, t in b.calls() if re.search(r"hash::Hasher::write|hash::Hash::hash|::write_(u|i)(8|16|32|64|128|size)$|::write$|::hash_one$|::hash_slice$", def_of(t) or inst_of(t))]
        iters = [(b, t) for b in bodies for _, t in b.calls() if def_of(t).endswith("Dictionary::words_iter") or inst_of(t).endswith("::words_iter")]
        g = callgraph.CallGraph(p.snap)
        roots = [b.name for b in bodies]
        blocked = [q for q in list(g.funcs) + list(g.ext_names) if q.endswith("::words_iter") or norm(q).endswith("fst_dictionary::{impl}::curated")]
        par = g.reach(roots, blocked)
        lossy = sorted(q for q in par if NORMALISER.search(q))
        ck.extra["hash_dictionary_reach"] = len(par)
        if not feeds or not iters:
            ck.refuted(rule, "MergedDictionary::hash_dictionary", f.span, "no hasher is fed from words_iter() (hasher feeds: %d, words_iter calls: %d)" % (len(feeds), len(iters)))
        elif lossy:
            best = min((g.path(par, q) for q in lossy), key=len)
            path = " -> ".join(g.pretty(q) for q in best)
            ck.refuted(rule, "MergedDictionary::hash_dictionary", f.span,
                       "the per-child hash goes through a normaliser (%s): two dictionaries that differ only in what it forgets (letter case, apostrophe style) compare equal, so harper-ls keeps the old dictionary and linter after the add" % path, {"path": path})
        else:
            ck.proved(rule, "MergedDictionary::hash_dictionary", f.span, "%d hasher feed(s) from words_iter(); %d functions reachable from the hashing code, none forgets part of a spelling" % (len(feeds), len(par)))


# ---------------------------------------------------------------------------------------------------
VALUE_PLUMBING = {"map_err", "unwrap_or", "unwrap_or_else", "unwrap_or_default", "or", "or_else", "ok", "unwrap", "expect", "branch",
                  "context", "with_context", "poll", "into_future", "new_unchecked", "get_context", "clone", "deref", "as_ref", "into", "from", "map", "and_then",
                  "filter", "take", "cloned", "copied", "borrow", "deref_mut", "as_mut", "read", "write", "lock", "get", "get_mut"}
WRAPPERS = {"alloc::sync::{impl}::new", "alloc::boxed::{impl}::new", "alloc::rc::{impl}::new"}


def _value_sources(p, f, pv, op, depth=0, seen=None):
    """where a returned value comes from: follow receivers (and fallback arguments) through plumbing down to the calls
    that produced it.  Returns [(name, term)]"""
    seen = set() if seen is None else seen
    out = []
    for o in flatten(pv.trace_operand(op)):
        stack = [o]
        while stack:
            o = stack.pop()
            if o in seen:
                continue
            seen.add(o)
            if o[0] == "agg":
                continue
            if o[0] != "call":
                if o[0] in ("arg", "upvar", "static"):
                    out.append(("state reachable from self (%s)" % (o,), None))
                continue
            t = f.blocks[o[1]]["t"]
            inst = norm(inst_of(t))
            m = last(inst)
            if m == "from_residual":
                continue                # an error on its way out, not an answer
            if m.startswith("{closure"):
                m = last(inst.rsplit("::", 1)[0])
                inst = inst.rsplit("::", 1)[0]
            if inst in WRAPPERS or (m in VALUE_PLUMBING and not inst.startswith("harper_")):
                if depth < 14 and t["args"]:
                    out += _value_sources(p, f, pv, t["args"][0], depth + 1, seen)
                    if m in ("unwrap_or", "or") and len(t["args"]) > 1:
                        out += _value_sources(p, f, pv, t["args"][1], depth + 1, seen)
                continue
            out.append((inst, t))
    return out


def _reload(ck, p):
    rule = "R-C07-reload"
    for fname in ("load_user_dictionary", "load_file_dictionary"):
        f = p.fns.get("harper_ls::backend::{impl#0}::%s::{closure#0}" % fname)
        if not ck.anchor(rule, "Backend::%s" % fname, f):
            continue
        ck.saw(f)
        pv = Prov(f)
        srcs = []
        n = 0
        for bi, b in enumerate(f.blocks):
            if b["cleanup"]:
                continue
            for sx in b["s"]:
                if sx["k"] == "assign" and sx["lhs"] == [0]:
                    n += 1
                    rv = sx["rv"]
                    ops = [rv["op"]] if rv["k"] in ("use", "cast") else list(rv.get("ops", []))
                    for o_ in ops:
                        srcs += _value_sources(p, f, pv, o_)
            t = b["t"]
            if t["k"] == "call" and t.get("dest") == [0]:
                n += 1
                srcs += _value_sources(p, f, pv, {"m": [0]}) if False else []
                inst = norm(inst_of(t))
                m = last(inst)
                if m == "from_residual":
                    continue
                if inst in WRAPPERS or (m in VALUE_PLUMBING and not inst.startswith("harper_")):
                    srcs += _value_sources(p, f, pv, t["args"][0])
                    if m in ("unwrap_or", "or") and len(t["args"]) > 1:
                        srcs += _value_sources(p, f, pv, t["args"][1])
                else:
                    srcs.append((inst, t))
        names = sorted({i for i, _ in srcs})
        ok_names = {"harper_ls::dictionary_io::load_dict", "harper_core::spell::mutable_dictionary::{impl}::new"}
        other = [(i, t) for i, t in srcs if i not in ok_names]
        key = "Backend::%s" % fname
        if n == 0 or not any(i == "harper_ls::dictionary_io::load_dict" for i, _ in srcs):
            ck.undecided(rule, key, f.span, "no load_dict result found among the sources of the returned dictionary (%s)" % names)
        elif other:
            watches = any(method(t) in ("metadata", "modified", "symlink_metadata") and "fs::" in norm(inst_of(t)) for h in with_closures(p, f) for _, t in h.calls())
            where = other[0][1]["ln"] if other[0][1] else 0
            msg = "a dictionary returned by %s comes from %s%s, not from load_dict: a copy kept in memory does not see words that another harper-ls process or a hand edit wrote to the file, keeps flagging them, and the next save rewrites the file without them" % (fname, other[0][0], " (line %d)" % where if where else "")
            if watches:
                ck.undecided(rule, key, f.span, msg + " - unless the modification-time check in the function invalidates the copy (not decided)")
            else:
                ck.refuted(rule, key, f.loc(where) if where else f.span, msg)
        else:
            ck.proved(rule, key, f.span, "every returned dictionary is load_dict(path) of this call, or a new empty dictionary")


def _curated_first(ck, p):
    rule = "R-C07-first"
    n = 0
    for f in sorted(p.fns.values(), key=lambda f: f.name):
        if not (f.name.startswith("harper_ls::") or f.name.startswith("harper_wasm::")) or f.get("kind") == "Promoted":
            continue
        news = [bi for bi, t in f.calls() if norm(inst_of(t)) == "harper_core::spell::merged_dictionary::{impl}::new"]
        adds = [(bi, t) for bi, t in f.calls() if norm(inst_of(t)) == "harper_core::spell::merged_dictionary::{impl}::add_dictionary"]
        if not news or not adds:
            continue
        n += 1
        ck.saw(f)
        cfg = Cfg(f)
        pv = Prov(f)

        def is_curated(t):
            return any(o[0] == "call" and last(norm(o[3] or o[2] or "")) == "curated" for o in arg_roots(f, pv, t["args"][1]))
        cur = [(bi, t) for bi, t in adds if is_curated(t)]
        key = "%s:curated-first" % keyname(p, f)
        if not cur:
            ck.undecided(rule, key, f.span, "a merged dictionary is built here without the curated dictionary among the parts added in this function")
            continue
        late = [(bi, t) for bi, t in adds if not is_curated(t) and not any(cfg.dominates(cb, bi) for cb, _ in cur)]
        if late:
            ck.refuted(rule, key, f.loc(late[0][1]["ln"]), "a user/file dictionary is added to the merged dictionary before the curated one: the first part that knows a word's letters supplies its entry, so once a word is added (monday, english, colour) every case variant of it in later texts loses the curated part-of-speech data and lints that depend on it change or disappear")
        else:
            ck.proved(rule, key, f.span, "the curated dictionary is added first (%d further part(s) after it)" % (len(adds) - len(cur)))
    ck.floor(rule, "functions that build a merged dictionary", n, 1)


# ---------------------------------------------------------------------------------------------------
SHRINK = {"drain", "truncate", "pop", "remove", "replace_range", "clear", "split_off", "retain", "swap_remove", "dedup", "trim", "trim_end", "trim_start", "split_at", "get", "take", "skip", "rev", "chars"}


def _filekey(ck, p):
    """A file dictionary belongs to one document: its file name is derived from the document's path, and two
    documents share a dictionary exactly when that derivation maps them to one name.  The name may therefore
    only be built up from the whole path (per-component copying, separators replaced); nothing of it may be cut
    away again."""
    from .c13 import ops_on
    rule = "R-C07-filekey"
    ck.rule(rule, "a file-dictionary word affects only its file: dictionary_io::file_dict_name builds the file name from every component of the document's path and only ever appends to it - no truncation, draining or slicing of the name (distinct documents whose paths agree in the part that is kept would share one dictionary file)")
    from ..util import fns_by_key
    fs = fns_by_key(p).get("harper_ls::dictionary_io::file_dict_name")
    if not ck.anchor(rule, "dictionary_io::file_dict_name", fs):
        return
    f = fs[0]
    ck.saw(f)
    pv = Prov(f)
    strs = [l for l in range(len(f.d.get("locals", []))) if (f.local_tystr(l) or "") in ("std::string::String", "String", "alloc::string::String")]
    names = f.debug_names()
    shrunk = []
    grown = []
    for l in strs:
        if l not in names:
            continue
        try:
            ops = ops_on(f, pv, l)
        except Exception:
            ops = []
        for m, bi, t in ops:
            if m in SHRINK:
                shrunk.append((names[l], m, t["ln"]))
            if m in ("push", "push_str", "extend", "add_assign", "write_str", "write_fmt"):
                grown.append(m)
    key = "file_dict_name:whole-path"
    if shrunk:
        nm, m, ln = shrunk[0]
        ck.refuted(rule, key, f.loc(ln), "the name built from the path is cut again (`%s.%s`): two documents whose paths differ only in the part that is dropped get the same dictionary file, so a word added for one file is accepted in the other - and stays so across restarts" % (nm, m))
    elif grown:
        ck.proved(rule, key, f.span, "the name is only appended to (%s)" % ", ".join(sorted(set(grown))))
    else:
        ck.undecided(rule, key, f.span, "how the file name is assembled from the path is not of a recognised form")
