"""C15 — dictionary back-ends agree (agreement-by-delegation clauses).

siblings-agree: every `*_str` query of every `Dictionary` impl reaches the same-named
char-slice query of the same receiver and no other query; every exact query of FstDictionary
delegates to the same-named method of its inner dictionary; every MergedDictionary query folds
the same-named child query.  Levenshtein/ordering/caps clauses are value-level: not decided.
"""
from .. import facts
from ..prov import Prov, flatten, field_names
from ..util import keyname, calls, last, with_closures, norm, place_of, fns_by_key
from ..common import arg_roots, inst_of, def_of, method

LEVEL = "other"
TRAIT = "harper_core::spell::dictionary::Dictionary"
PAIRS = ["contains_word", "contains_exact_word", "fuzzy_match", "get_word_metadata"]
QUERIES = set(PAIRS) | {p + "_str" for p in PAIRS} | {"get_correct_capitalization_of", "get_word_from_id", "word_count", "words_iter"}
EXACT = ["contains_word", "contains_word_str", "contains_exact_word", "contains_exact_word_str", "get_word_metadata",
         "get_word_metadata_str", "get_correct_capitalization_of", "get_word_from_id", "word_count", "words_iter"]
MERGED = ["contains_word", "contains_exact_word", "get_word_metadata", "get_correct_capitalization_of", "fuzzy_match",
          "fuzzy_match_str", "word_count", "get_word_from_id", "words_iter"]


def dict_calls(p, fn):
    """[(body, bb, term, method name)] for calls to Dictionary trait methods"""
    out = []
    for body, bi, t in calls(p, fn):
        d = t["f"].get("def") or ""
        if d.startswith(TRAIT + "::"):
            out.append((body, bi, t, last(d)))
    return out


def receiver_roots(body, t):
    pv = Prov(body)
    o = pv.trace_operand(t["args"][0])
    return flatten(o), field_names(o) | set(_place_fields(t["args"][0]))


def _place_fields(op):
    pl = op.get("c") or op.get("m") or []
    return [e[2] for e in pl[1:] if isinstance(e, list) and e[0] == "f"]


PLUMBING = {"chars", "collect", "as_ref", "as_slice", "deref", "as_str", "iter", "into_iter", "from_iter", "to_vec", "to_smallvec", "clone", "cloned", "copied", "into", "from", "borrow",
            "as_deref", "map", "unwrap_or", "unwrap_or_default", "to_string", "to_owned"}


def answer_sources(p, f, allowed):
    """every definition of the return value must be the (plumbed) result of a call whose name is in
    `allowed`; returns a list of offending descriptions (empty = the answer comes only from there)"""
    from ..common import arg_roots as _roots, method as _m
    pv = Prov(f)
    bad = []
    n = 0
    for bi, b in enumerate(f.blocks):
        if b["cleanup"]:
            continue
        for sx in b["s"]:
            if sx["k"] == "assign" and sx["lhs"] == [0]:
                n += 1
                rv = sx["rv"]
                if rv["k"] == "use" and "k" in rv["op"]:
                    bad.append("a constant answer (%s) at line %s" % (rv["op"]["k"].get("txt") or rv["op"]["k"].get("const") or "?", sx["ln"]))
                    continue
                ops = [rv["op"]] if rv["k"] in ("use", "cast") else list(rv.get("ops", []))
                if rv["k"] not in ("use", "agg", "cast"):
                    bad.append("a computed answer (%s) at line %s" % (rv["k"], sx["ln"]))
                    continue
                names = set()
                for o_ in ops:
                    names |= {last(norm(o[3] or o[2] or "")) for o in _roots(f, pv, o_) if o[0] == "call"}
                if not (names & set(allowed)) or names - set(allowed) - PLUMBING:
                    bad.append("an answer built from %s at line %s" % (sorted(names - PLUMBING) or "no query", sx["ln"]))
        t = b["t"]
        if t["k"] == "call" and t.get("dest") == [0]:
            n += 1
            nm = _m(t)
            if nm in allowed:
                continue
            names = set()
            for a in t["args"]:
                names |= {last(norm(o[3] or o[2] or "")) for o in _roots(f, pv, a) if o[0] == "call"}
            if nm not in PLUMBING or not (names & set(allowed)) or names - set(allowed) - PLUMBING:
                bad.append("the result of %s at line %s" % (nm, t["ln"]))
    if n == 0:
        bad.append("no definition of the return value found")
    return bad


def run(ck, tier):
    _run(ck, tier)
    add_always(ck, facts.load(), "R-C15-merged")
    _twin_automata(ck, facts.load())
    ck.rule("R-C15-bound", "every fuzzy result lies within the requested bound: the Levenshtein automaton the FST back-end runs is built for exactly the requested distance - the per-thread cache of automaton builders is looked up by equality with it, never by 'large enough'")
    from . import c05
    c05.builders_keyed(ck, facts.load(), "R-C15-bound")


def _run(ck, tier):
    ck.rule("R-C15-str", "siblings-agree: in every impl of Dictionary, m_str calls exactly the queries {m, m_str} (on self or its delegate) and no other query method")
    ck.rule("R-C15-fst", "delegation: every exact query of FstDictionary calls the same-named query on self.full_dict and nothing else of the query set; FstDictionary::new builds full_dict and the FST from the same vector")
    ck.rule("R-C15-merged", "union fold: every MergedDictionary query calls the same-named query on elements of self.children")
    ck.rule("R-C15-distance", "the edit distance that bounds MutableDictionary's fuzzy results is the Wagner-Fischer table and nothing else: in edit_distance_min_alloc every return value is either the saturation constant of the length guard or a cell read out of a row vector at index len(source); the cell update inside the inner loop is built from two `min` and three additions over cells of the two rows and a cost that is 0 or 1 depending on one character comparison")
    ck.not_decided += ["Levenshtein distance: equivalence of the recurrence with the mathematical definition (the shape is checked, not proved)", "completeness/order/cap of fuzzy results", "positional zip of the two DFA streams in FstDictionary::fuzzy_match for queries with upper-case letters (for lower-case queries its premise - both automata built from the same normalised string - is R-C15-twin)"]
    p = facts.load()
    impls = {}
    for f in p.fns.values():
        ti = f.get("trait_item") or ""
        if ti.startswith(TRAIT + "::"):
            impls.setdefault(f.get("impl_self_head"), {})[last(ti)] = f
    ck.floor("R-C15-str", "impls of Dictionary", len(impls), 3)
    npairs = 0
    for head, methods in sorted(impls.items()):
        short = last(head)
        for m in PAIRS:
            ms = m + "_str"
            f = methods.get(ms)
            if f is None:
                ck.refuted("R-C15-str", "anchor-missing:%s::%s" % (short, ms), "", "impl lacks %s" % ms)
                continue
            npairs += 1
            ck.saw(f)
            dc = dict_calls(p, f)
            ck.callsites += len(dc)
            names = [n for (_, _, _, n) in dc if n in QUERIES]
            key = "%s::%s" % (short, ms)
            wrong = sorted(set(n for n in names if n not in (m, ms)))
            if wrong:
                site = [(b, t) for (b, _, t, n) in dc if n in wrong][0]
                ck.refuted("R-C15-str", key, site[0].loc(site[1]["ln"]),
                           "%s answers through %s instead of %s: the str and char-slice variants of this query can disagree" % (ms, wrong, m))
            elif not names:
                ck.undecided("R-C15-str", key, f.span, "%s calls no Dictionary query; agreement with %s is not visible structurally" % (ms, m))
            else:
                # receiver: self (directly, through a field, or a closure parameter iterating a field of self)
                ok = True
                for (b, _, t, n) in dc:
                    if n not in (m, ms):
                        continue
                    roots, _ = receiver_roots(b, t)
                    if b is f and not any(r == ("arg", 1) for r in roots):
                        ok = False
                extra = answer_sources(p, f, (m, ms)) if f.get("kind") != "Closure" else []
                if p.closures_of(f.name):       # answers that pass through closures are not followed: keep only what is certain
                    extra = [x for x in extra if x.startswith("a constant answer")]
                if extra:
                    ck.refuted("R-C15-str", key, f.span, "%s has another source of answers besides %s: %s - the str and char-slice variants of this query can disagree" % (ms, m, "; ".join(extra[:2])))
                else:
                    ck.decide("R-C15-str", key, ok, f.span, "%s delegates to %s on its own receiver and answers with nothing else" % (ms, sorted(set(names))))
    ck.floor("R-C15-str", "(m, m_str) pairs", npairs, 16)

    # ---- FstDictionary delegates exact queries -------------------------------------------
    fst = impls.get("harper_core::spell::fst_dictionary::FstDictionary", {})
    n = 0
    for m in EXACT:
        f = fst.get(m)
        if f is None:
            ck.refuted("R-C15-fst", "anchor-missing:FstDictionary::%s" % m, "", "method missing")
            continue
        n += 1
        ck.saw(f)
        dc = dict_calls(p, f)
        names = [x[3] for x in dc if x[3] in QUERIES]
        key = "FstDictionary::%s" % m
        if names != [m]:
            ck.refuted("R-C15-fst", key, f.span, "expected exactly one delegated call to %s, found %s" % (m, names))
            continue
        b, bi, t, _ = [x for x in dc if x[3] == m][0]
        roots, fields = receiver_roots(b, t)
        extra = answer_sources(p, f, (m,))
        if p.closures_of(f.name):
            extra = [x for x in extra if x.startswith("a constant answer")]
        if extra:
            ck.refuted("R-C15-fst", key, f.span, "FstDictionary::%s has another source of answers besides full_dict.%s: %s - the FST back-end can answer differently from the word map it wraps" % (m, m, "; ".join(extra[:2])))
            continue
        ck.decide("R-C15-fst", key, "full_dict" in fields and ("arg", 1) in roots, f.loc(t["ln"]),
                  "delegates to full_dict.%s and answers with nothing else (receiver fields %s)" % (m, sorted(fields)))
    ck.floor("R-C15-fst", "exact-query methods of FstDictionary", n, 6)
    # FstDictionary::new: full_dict and the fst are built from the same (sorted, deduplicated) vector
    newf = [f for f in p.fns.values() if keyname(p, f) == "FstDictionary::new"]
    if ck.anchor("R-C15-fst", "FstDictionary::new", newf):
        f = newf[0]
        ck.saw(f)
        pv = Prov(f)
        # the struct aggregate: fields full_dict, word_map, words
        aggs = [s for b in f.blocks if not b["cleanup"] for s in b["s"] if s["k"] == "assign" and s["rv"]["k"] == "agg" and s["rv"].get("name", "").endswith("::FstDictionary")]
        if not aggs:
            ck.undecided("R-C15-fst", "FstDictionary::new:same-source", f.span, "struct construction not found")
        else:
            rv = aggs[0]["rv"]
            src = {}
            for fname, opnd in zip(rv["fields"], rv["ops"]):
                src[fname] = _param_roots(f, pv, opnd)
            ok = all(("arg", 1) in src.get(k, set()) for k in ("full_dict", "word_map", "words"))
            ck.decide("R-C15-fst", "FstDictionary::new:same-source", ok, f.loc(aggs[0]["ln"]),
                      "full_dict, word_map and words all derive from the `words` parameter: %s" % {k: sorted(map(str, v)) for k, v in src.items()})

    _distance(ck, p)
    _merged(ck, p, impls)


def dictionary_impls(p):
    impls = {}
    for f in p.fns.values():
        ti = f.get("trait_item") or ""
        if ti.startswith(TRAIT + "::"):
            impls.setdefault(f.get("impl_self_head"), {})[last(ti)] = f
    return impls


def _merged(ck, p, impls, rule="R-C15-merged", only=None):
    # ---- MergedDictionary folds the same-named child query -----------------------------------
    mer = impls.get("harper_core::spell::merged_dictionary::MergedDictionary", {})
    n = 0
    for m in (only or MERGED):
        f = mer.get(m)
        if f is None:
            ck.refuted(rule, "anchor-missing:MergedDictionary::%s" % m, "", "method missing")
            continue
        n += 1
        ck.saw(f)
        dc = dict_calls(p, f)
        names = sorted(set(x[3] for x in dc if x[3] in QUERIES))
        key = "MergedDictionary::%s" % m
        if m.endswith("_str") and names == [m[:-4]]:
            # delegation to the slice variant on self (what the other _str methods do): the fold is decided there
            on_self = all(("arg", 1) in receiver_roots(b, t)[0] for (b, _, t, n2) in dc if n2 == m[:-4])
            ck.decide(rule, key, on_self, f.span, "delegates to self.%s(chars): %s" % (m[:-4], on_self))
            continue
        if names != [m]:
            ck.refuted(rule, key, f.span, "expected only child calls to %s, found %s" % (m, names))
            continue
        # the receiver is an element of self.children (loop over the field, or closure parameter of an
        # iterator chain that starts at self.children)
        reads_children = any("children" in _fields_read(b) for b in with_closures(p, f))
        # the receiver is never `self` itself (that would be recursion, not a fold over the parts)
        on_self = False
        for (b, _, t, n2) in dc:
            if n2 == m and b is f:
                roots, fields = receiver_roots(b, t)
                if ("arg", 1) in roots and "children" not in fields:
                    on_self = True
        ck.decide(rule, key, reads_children and not on_self, f.span, "folds children[..].%s (iterates self.children=%s, receiver is self=%s)" % (m, reads_children, on_self))
        if m.startswith("fuzzy_match"):
            # every part is searched with the caller's own bound: the union of "within d of the query" over the parts
            for (b, _, t, n2) in dc:
                if n2 != m or len(t["args"]) < 3:
                    continue
                bpv = Prov(b)
                dist = flatten(bpv.trace_operand(t["args"][2]))
                from ..common import arg_fields as _af
                if b is f:
                    own = dist == {("arg", 3)}
                else:       # inside a closure of the method: the captured parameter, read through the environment
                    own = dist == {("arg", 1)} and any("max_distance" in str(x) for x in _af(bpv, t["args"][2])) or all(o[0] == "upvar" and "max_distance" in str(o) for o in dist) and bool(dist)
                if own:
                    ck.proved(rule, key + ":bound", b.loc(t["ln"]), "each part is searched with the caller's max_distance")
                else:
                    ck.refuted(rule, key + ":bound", b.loc(t["ln"]), "a part is searched with a distance bound that is not the caller's (%s): a word within the caller's bound that only a later part holds is dropped when an earlier part already answered with closer words - the merged dictionary no longer returns the union of its parts' matches" % sorted(map(str, dist))[:3])
    ck.floor(rule, "query methods of MergedDictionary", n, 9 if only is None else len(only))



def _fields_read(body):
    out = set()
    for b in body.blocks:
        if b["cleanup"]:
            continue
        for s in b["s"]:
            if s["k"] != "assign":
                continue
            rv = s["rv"]
            for k in ("place",):
                if k in rv:
                    out.update(e[2] for e in rv[k][1:] if isinstance(e, list) and e[0] == "f")
            for k in ("op", "a", "b"):
                o = rv.get(k)
                if isinstance(o, dict):
                    pl = o.get("c") or o.get("m")
                    if pl:
                        out.update(e[2] for e in pl[1:] if isinstance(e, list) and e[0] == "f")
    return out


def _param_roots(fn, pv, operand, depth=0, seen=None):
    """parameters the operand's value is computed from, looking through call arguments"""
    seen = set() if seen is None else seen
    out = set()
    for o in flatten(pv.trace_operand(operand)):
        if o in seen:
            continue
        seen.add(o)
        if o[0] == "arg":
            out.add(o)
        elif o[0] == "call" and depth < 8:
            t = fn.blocks[o[1]]["t"]
            for a in t["args"]:
                out |= _param_roots(fn, pv, a, depth + 1, seen)
    return out


def _distance(ck, p):
    from ..cfg import Cfg
    from ..common import arg_roots, method as _m
    rule = "R-C15-distance"
    f = p.fns.get("harper_core::edit_distance::edit_distance_min_alloc")
    if not ck.anchor(rule, "edit_distance::edit_distance_min_alloc", f):
        return
    ck.saw(f)
    pv = Prov(f)
    cfg = Cfg(f)
    bad = []
    n_ret = 0
    for bi, b in enumerate(f.blocks):
        if b["cleanup"]:
            continue
        for sx in b["s"]:
            if sx["k"] == "assign" and sx["lhs"] == [0]:
                n_ret += 1
                rv = sx["rv"]
                if rv["k"] == "use" and "k" in rv["op"]:
                    kk = rv["op"]["k"]
                    if str(kk.get("int")) != "255" and "u8>::MAX" not in str(kk.get("const", "")) and "u8::MAX" not in str(kk.get("txt", "")):
                        bad.append((sx["ln"], "a constant other than the saturation value"))
                    continue
                if rv["k"] == "use" and place_of(rv["op"]):
                    pl = place_of(rv["op"])
                    # a cell of a row: (*row)[idx] directly, or a copy of such a load
                    def is_cell(pl_, depth=0):
                        if any(isinstance(e, list) and e[0] == "i" for e in pl_[1:]):
                            return "u8" in f.local_tystr(pl_[0]) or "Vec<u8>" in f.local_tystr(pl_[0]) or True
                        if len(pl_) == 2 and pl_[1] == "*":
                            pl_ = [pl_[0]]
                        if len(pl_) == 1 and depth < 4:
                            ds = [x for (b2, si, k, x) in pv.defs.get(pl_[0], []) if k == "assign"]
                            cs = [x for (b2, si, k, x) in pv.defs.get(pl_[0], []) if k == "call"]
                            if len(ds) == 1 and not cs and ds[0]["rv"]["k"] == "use" and place_of(ds[0]["rv"]["op"]):
                                return is_cell(place_of(ds[0]["rv"]["op"]), depth + 1)
                            if len(cs) == 1 and not ds and _m(cs[0]) in ("index", "deref"):
                                return True
                        return False
                    if is_cell(pl):
                        continue
                    bad.append((sx["ln"], "a value that is not read out of the table"))
                    continue
                bad.append((sx["ln"], "a computed value (%s)" % rv["k"]))
        t = b["t"]
        if t["k"] == "call" and t.get("dest") == [0]:
            n_ret += 1
            if _m(t) not in ("index",):
                bad.append((t["ln"], "the result of %s" % _m(t)))
    # the recurrence: inner-loop store into a row built from min/min and +1/+1/+cost
    mins = [t for _, t in f.calls() if _m(t) == "min"]
    eqs = [sx for b in f.blocks if not b["cleanup"] for sx in b["s"] if sx["k"] == "assign" and sx["rv"]["k"] == "bin" and sx["rv"]["op"] in ("Eq", "Ne")]
    # (`a == b` on references to chars is a call to PartialEq::eq, on chars a primitive comparison)
    eq_calls = [t for _, t in f.calls() if _m(t) in ("eq", "ne") and any("char" in f.ty(x)["s"] for x in t["f"].get("targs", []) if isinstance(x, int))]
    eqs = eqs + eq_calls
    shape = len(mins) == 2 and len(eqs) >= 1
    if bad:
        ck.refuted(rule, "edit_distance_min_alloc:returns", f.loc(bad[0][0]), "a return value of the distance function is %s: for some pairs of words the reported distance is not the Levenshtein distance, so MutableDictionary's fuzzy search drops words that are within the bound (or admits words beyond it) and disagrees with the FST back-end" % bad[0][1])
    else:
        ck.proved(rule, "edit_distance_min_alloc:returns", f.span, "%d return value definitions: the saturation constant or a cell of the table" % n_ret)
    ck.decide(rule, "edit_distance_min_alloc:recurrence-shape", shape, f.span, "cell update uses %d min() and %d character comparison(s) (expected 2 and >= 1)" % (len(mins), len(eqs)))


def add_always(ck, p, rule):
    """MergedDictionary::add_dictionary keeps every child it is given: children.push(d) on every path.  A skip decided by
    comparing hashes is refuted (a 64-bit hash of the words is not the word list); any other condition is undecided."""
    from ..cfg import Cfg
    from ..common import arg_fields, method, arg_roots
    from ..util import fns_by_key
    fs = fns_by_key(p).get("MergedDictionary::add_dictionary")
    if not ck.anchor(rule, "MergedDictionary::add_dictionary", fs):
        return
    f = fs[0]
    ck.saw(f)
    cfg = Cfg(f)
    pv = Prov(f)
    key = "MergedDictionary::add_dictionary:always-adds"
    cp = [bi for bi, t in f.calls() if method(t) == "push" and "children" in arg_fields(pv, t["args"][0])]
    if not cp:
        ck.refuted(rule, key, f.span, "no children.push(..) in add_dictionary")
        return
    rets = [bi for bi, b in enumerate(f.blocks) if b["t"]["k"] == "return" and not b["cleanup"]]
    ok, wit = cfg.every_path_passes(0, cp, to=rets)
    if ok:
        ck.proved(rule, key, f.span, "every path through add_dictionary pushes the child")
        return
    # which test lets a path skip the push?
    why = []
    for bi, b in enumerate(f.blocks):
        t = b["t"]
        if t["k"] != "switch" or b["cleanup"]:
            continue
        succs = f.succs(bi)
        skipping = [x for x in succs if not cfg.every_path_passes(x, cp, to=rets)[0]]
        if skipping and len(skipping) < len(set(succs)) or (skipping and bi == 0):
            for o in arg_roots(f, pv, t["discr"]):
                if o[0] == "call":
                    ct = f.blocks[o[1]]["t"]
                    why.append((method(ct), sorted(arg_fields(pv, ct["args"][0])) if ct["args"] else [], ct["ln"]))
    on_hash = [w for w in why if "child_hashes" in w[1] or w[0] == "hash_dictionary"]
    if on_hash:
        ck.refuted(rule, key, f.loc(on_hash[0][2]), "a child is skipped when its hash is already among child_hashes (%s, line %d): equal 64-bit hashes do not mean equal word lists (hash_dictionary feeds the characters of all words back to back), so a different dictionary can be dropped and its words vanish from every query of the merged dictionary" % (on_hash[0][0], on_hash[0][2]))
    else:
        ck.undecided(rule, key, f.span, "a path through add_dictionary does not push the child (tests: %s); whether the skipped child is really one already held is not decided" % (why[:3] or wit))


# ---------------------------------------------------------------------------------------------------
def _twin_automata(ck, p):
    """FstDictionary::fuzzy_match runs two Levenshtein automata over the word map - one for the query,
    one for its lower-case form - and merges the two result streams *positionally* (zip).  That is only
    sound when the two streams enumerate the same words, which for a lower-case query they do because
    the two automata are then built from the same string.  Both strings must therefore come from the
    same normalised query; the lower-case one may differ by the case conversion only."""
    rule = "R-C15-twin"
    ck.rule(rule, "FstDictionary::fuzzy_match builds its two Levenshtein automata from one and the same normalised query string (the second through a case conversion of the first, nothing else): their result streams are merged position by position, so for a lower-case query both have to enumerate the same words")
    byk = fns_by_key(p)
    fs = [f for f in byk.get("<FstDictionary as Dictionary>::fuzzy_match", [])]
    if not ck.anchor(rule, "<FstDictionary as Dictionary>::fuzzy_match", fs):
        return
    f = fs[0]
    ck.saw(f)
    pv = Prov(f)
    dfas = [(bi, t) for bi, t in f.calls() if last(norm(inst_of(t) or def_of(t) or "")) in ("build_dfa", "build_prefix_dfa") or "levenshtein" in norm(inst_of(t) or "").lower() and method(t) in ("build_dfa", "build_prefix_dfa")]
    key = "FstDictionary::fuzzy_match:queries"
    if len(dfas) < 2:
        ck.proved(rule, key, f.span, "%d automaton is built: no positional merge of two streams to keep consistent" % len(dfas))
        return
    srcs = []
    for bi, t in dfas:
        qs = t["args"][-1]
        names = {last(norm(o[3] or o[2] or "")) for o in arg_roots(f, pv, qs) if o[0] == "call"}
        srcs.append((names, t["ln"]))
    norm_in = ["normalized" in n for n, _ in srcs]
    if all(norm_in):
        extra = sorted(set.union(*[n for n, _ in srcs]) - set.intersection(*[n for n, _ in srcs]))
        ck.proved(rule, key, f.loc(srcs[0][1]), "all %d automata are built from the normalised query (differences between their derivations: %s)" % (len(dfas), extra or "none"))
    elif any(norm_in):
        i = norm_in.index(False)
        ck.refuted(rule, key, f.loc(srcs[i][1]), "one automaton is built from the normalised query, another from a string that did not pass normalisation (derived through %s): for a lower-case query that normalisation changes - a typographic apostrophe, as in can\u2019t - the two automata accept different words, the two result streams are no longer aligned, and the positional merge drops words within the bound and reports distances to the other string" % sorted(srcs[i][0])[:5])
    else:
        ck.undecided(rule, key, f.loc(srcs[0][1]), "neither automaton's query is recognisably derived from the normalised query; whether the two result streams stay aligned is not decided")
