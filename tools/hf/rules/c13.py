"""C13 — overlap resolution returns a sub-list; placement in the JS and CLI paths.

Decided: the result is a sub-multiset with unaltered elements (effects), the removal queue is
ascending (provenance), overlap removal sits between linting and any consumption of the lints in
harper-wasm and harper-cli (dominance).  Pairwise disjointness of the kept lints is a statement
about the sort key and the sweep, i.e. about values: not decided.
"""
from .. import facts
from ..cfg import Cfg
from ..common import arg_roots, calls_to, def_of, inst_of, method, target_of
from ..prov import Prov, flatten
from ..util import fns_by_key, keyname, place_of, with_closures, calls, norm, last

LEVEL = "other"

READ_ONLY = {"len", "is_empty", "iter", "deref", "as_slice", "first", "last", "get", "index", "clone"}
REORDER = {"sort", "sort_by", "sort_by_key", "sort_unstable", "sort_unstable_by", "sort_unstable_by_key", "sort_by_cached_key", "reverse"}


def _base_local(f, pv, op):
    pl = place_of(op)
    if not pl:
        return None
    l = pl[0]
    if l in pv.mut_base:
        return pv.mut_base[l]
    # shared borrow chains
    seen = set()
    for _ in range(8):
        if l in seen:
            break
        seen.add(l)
        nxt = None
        for (bi, si, kind, x) in pv.defs.get(l, []):
            if kind == "assign" and len(x["lhs"]) == 1:
                rv = x["rv"]
                if rv["k"] == "ref":
                    nxt = rv["place"][0]
                elif rv["k"] == "use" and place_of(rv["op"]):
                    nxt = place_of(rv["op"])[0]
                elif rv["k"] == "cast" and place_of(rv["op"]):
                    nxt = place_of(rv["op"])[0]
            elif kind == "call" and method(x) in ("deref", "deref_mut", "as_ref", "as_mut", "borrow", "borrow_mut") and place_of(x["args"][0]):
                nxt = place_of(x["args"][0])[0]
        if nxt is None:
            return l
        l = nxt
    return l


def ops_on(f, pv, local):
    out = []
    for bi, t in f.calls():
        for a in t["args"]:
            if _base_local(f, pv, a) == local:
                out.append((method(t), bi, t))
                break
    return out


def run(ck, tier):
    ck.rule("R-C13-subset", "effects: remove_overlaps applies to the lint vector only length queries, a sort, read-only iteration and VecExt::remove_indices; remove_indices applies only Vec::retain with a closure that ignores its element")
    ck.rule("R-C13-sorted", "provenance: the removal queue is filled only by push_back of the counter of an ascending enumerate() over the same vector")
    ck.rule("R-C13-placement", "dominance: in harper_wasm::Linter::lint and harper-cli's lint command every consumption of the lint vector is dominated by remove_overlaps on that vector")
    ck.not_decided += ["kept lints are pairwise disjoint", "every dropped lint starts inside a kept one (sort key and sweep arithmetic)"]
    p = facts.load()
    byk = fns_by_key(p)
    fs = byk.get("harper_core::remove_overlaps")
    if ck.anchor("R-C13-subset", "harper_core::remove_overlaps", fs):
        f = fs[0]
        ck.saw(f)
        pv = Prov(f)
        ops = ops_on(f, pv, 1)
        names = sorted({m for m, _, _ in ops})
        allowed = READ_ONLY | REORDER | {"remove_indices", "deref_mut", "as_mut_slice", "as_mut"}
        bad = [(m, t) for m, _, t in ops if m not in allowed]
        for m, t in bad:
            ck.refuted("R-C13-subset", "remove_overlaps:%s" % m, f.loc(t["ln"]), "the lint vector is passed to %s: elements may be invented or altered" % target_of(t))
        if not bad:
            ck.proved("R-C13-subset", "remove_overlaps:ops", f.span, "operations on `lints`: %s" % names)
        ck.decide("R-C13-subset", "remove_overlaps:removes-via-remove_indices", "remove_indices" in names, f.span, "elements are dropped only through VecExt::remove_indices")
        # closures (the sort key) take the element by shared reference: nothing to check beyond types
        # ---- sorted queue
        cfg = Cfg(f)
        rem = [(bi, t) for bi, t in f.calls() if method(t) == "remove_indices"]
        if rem:
            qlocal = _base_local(f, pv, rem[0][1]["args"][1])
            qops = ops_on(f, pv, qlocal)
            qnames = sorted({m for m, _, _ in qops})
            ok = set(qnames) <= {"push_back", "remove_indices", "new", "with_capacity"}
            detail = "operations on the removal queue: %s" % qnames
            for m, bi, t in qops:
                if m != "push_back":
                    continue
                roots = arg_roots(f, pv, t["args"][1])
                nexts = [o for o in roots if o[0] == "call" and last(norm(o[3] or "")) == "next"]
                enum = [o for o in nexts if "enumerate" in (o[3] or "").lower()]
                over_lints = False
                for o in roots:
                    if o[0] == "call" and last(norm(o[3] or o[2] or "")) == "enumerate":
                        et = f.blocks[o[1]]["t"]
                        over_lints = ("arg", 1) in {x for x in arg_roots(f, pv, et["args"][0])}
                idx0 = _is_enum_index(f, pv, t["args"][1])
                if not (enum and over_lints and idx0):
                    ok = False
                    detail += "; push_back at %s does not push the enumerate() counter of the lint vector" % f.loc(t["ln"])
            ck.decide("R-C13-sorted", "remove_overlaps:queue", ok, f.span, detail)
    fs = byk.get("<Vec as VecExt>::remove_indices")
    if ck.anchor("R-C13-subset", "<Vec as VecExt>::remove_indices", fs):
        f = fs[0]
        ck.saw(f)
        pv = Prov(f)
        ops = ops_on(f, pv, 1)
        names = sorted({m for m, _, _ in ops})
        ok = names == ["retain"]
        clos = p.closures_of(f.name)
        detail = "operations on self: %s; closures: %d" % (names, len(clos))
        if ok and len(clos) == 1:
            c = clos[0]
            ck.saw(c)
            used = _local_used(c, 2)
            ok = not used
            detail += "; retain closure %s its element parameter" % ("uses" if used else "ignores")
        else:
            ok = False
        ck.decide("R-C13-subset", "VecExt::remove_indices", ok, f.span, detail)

    # ---- placement
    for key, what in (("Linter::lint", "harper-wasm Linter::lint"), ("harper_cli::main", "harper-cli main")):
        cands = [f for f in byk.get(key, []) if f.name.startswith("harper_wasm::") or f.name.startswith("harper_cli::")]
        if not ck.anchor("R-C13-placement", what, cands):
            continue
        f = cands[0]
        ck.saw(f)
        cfg = Cfg(f)
        pv = Prov(f)
        lint_calls = [(bi, t) for bi, t in f.calls() if def_of(t) == "harper_core::linting::Linter::lint"]
        if not lint_calls:
            ck.refuted("R-C13-placement", "anchor-missing:%s:lint-call" % key, f.span, "no Linter::lint call found")
            continue
        for lb, lt in lint_calls:
            L = lt["dest"][0]
            # the result may be moved into a named local
            Ls = {L}
            for b in f.blocks:
                for s in b["s"]:
                    if s["k"] == "assign" and len(s["lhs"]) == 1 and s["rv"]["k"] == "use" and place_of(s["rv"]["op"]) == [L]:
                        Ls.add(s["lhs"][0])
            ops = []
            for l in Ls:
                ops += ops_on(f, pv, l)
            ro = [(bi, t) for m, bi, t in ops if inst_of(t) == "harper_core::remove_overlaps"]
            uses = [(m, bi, t) for m, bi, t in ops if m not in ("len", "is_empty") and inst_of(t) != "harper_core::remove_overlaps"]
            bad = [(m, bi, t) for m, bi, t in uses if not any(cfg.dominates(rb, bi) and rb != bi for rb, _ in ro)]
            if not ro:
                ck.refuted("R-C13-placement", keyname(p, f), f.loc(lt["ln"]), "the lints returned by LintGroup::lint are never passed to remove_overlaps")
            elif bad:
                m, bi, t = bad[0]
                ck.refuted("R-C13-placement", keyname(p, f), f.loc(t["ln"]), "the lint vector is consumed by %s before / without remove_overlaps" % target_of(t))
            else:
                ck.proved("R-C13-placement", keyname(p, f), f.loc(ro[0][1]["ln"]), "remove_overlaps dominates all %d consuming uses (%s)" % (len(uses), sorted({m for m, _, _ in uses})))


def _is_enum_index(f, pv, op):
    """operand = ((next() as Some).0).0 — the counter component of an Enumerate item"""
    for o in pv.trace_operand(op):
        x = o
        if x[0] == "field" and x[2] == 0:
            y = x[1]
            if y[0] == "field" and y[2] == 0 and y[1][0] == "call" and "enumerate" in (y[1][3] or "").lower():
                return True
    return False


def _local_used(fn, local):
    def in_place(pl):
        return bool(pl) and (pl[0] == local or any(isinstance(e, list) and e[0] == "i" and e[1] == local for e in pl[1:]))
    for b in fn.blocks:
        if b["cleanup"]:
            continue
        for s in b["s"]:
            if s["k"] != "assign":
                continue
            rv = s["rv"]
            if "place" in rv and in_place(rv["place"]):
                return True
            for k in ("op", "a", "b"):
                o = rv.get(k)
                if isinstance(o, dict) and in_place(place_of(o)):
                    return True
            for o in rv.get("ops", []):
                if in_place(place_of(o)):
                    return True
        t = b["t"]
        if t["k"] == "call":
            for a in t["args"]:
                if in_place(place_of(a)):
                    return True
        elif t["k"] == "switch" and in_place(place_of(t["discr"])):
            return True
    return False
