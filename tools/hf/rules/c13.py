"""C13 — overlap resolution returns a conflict-free sub-list; placement in the JS and CLI paths.

Decided: the result is a sub-multiset with unaltered elements (effects), the removal queue is
ascending (provenance), the sweep arithmetic (prover: sorted by start; drop => start < running end,
keep => start >= running end and the running end becomes the kept span's end), and overlap removal
sits between linting and any consumption of the lints in harper-wasm and harper-cli (dominance).
"""
import re

from .. import facts
from ..cfg import Cfg
from ..common import arg_roots, calls_to, def_of, inst_of, method, target_of
from ..prov import Prov, flatten
from ..util import fns_by_key, keyname, place_of, with_closures, calls, norm, last

LEVEL = "other"

READ_ONLY = {"len", "is_empty", "iter", "deref", "as_slice", "first", "last", "get", "index", "clone"}
CUTS = {"swap", "swap_remove", "truncate", "remove", "pop", "retain", "retain_mut", "drain", "dedup", "dedup_by", "dedup_by_key", "split_off", "clear"}
REORDER = {"sort", "sort_by", "sort_by_key", "sort_unstable", "sort_unstable_by", "sort_unstable_by_key", "sort_by_cached_key", "reverse"}


def _base_local(f, pv, op):
    pl = place_of(op)
    if not pl:
        return None
    l = pl[0]
    if l in pv.mut_base:
        return pv.mut_base[l]
    # shared borrow chains
    seen = set()
    for _ in range(8):
        if l in seen:
            break
        seen.add(l)
        nxt = None
        for (bi, si, kind, x) in pv.defs.get(l, []):
            if kind == "assign" and len(x["lhs"]) == 1:
                rv = x["rv"]
                if rv["k"] == "ref":
                    nxt = rv["place"][0]
                elif rv["k"] == "use" and place_of(rv["op"]):
                    nxt = place_of(rv["op"])[0]
                elif rv["k"] == "cast" and place_of(rv["op"]):
                    nxt = place_of(rv["op"])[0]
            elif kind == "call" and method(x) in ("deref", "deref_mut", "as_ref", "as_mut", "borrow", "borrow_mut") and place_of(x["args"][0]):
                nxt = place_of(x["args"][0])[0]
        if nxt is None:
            return l
        l = nxt
    return l


def ops_on(f, pv, local):
    out = []
    for bi, t in f.calls():
        for a in t["args"]:
            if _base_local(f, pv, a) == local:
                out.append((method(t), bi, t))
                break
    return out


def run(ck, tier):
    ck.rule("R-C13-subset", "effects: remove_overlaps applies to the lint vector only length queries, a sort, read-only iteration and VecExt::remove_indices; remove_indices applies only Vec::retain with a closure that ignores its element")
    ck.rule("R-C13-sorted", "provenance: the removal queue is filled only by push_back of the counter of an ascending enumerate() over the same vector")
    ck.rule("R-C13-placement", "dominance: in harper_wasm::Linter::lint and harper-cli's lint command every consumption of the lint vector is dominated by remove_overlaps on that vector")
    ck.rule("R-C13-sweep", "the sweep itself (prover, path-sensitive): the vector is sorted by a key whose leading component is span.start; a running end R starts at 0; on every path through the loop body an element is either dropped with `start < R` entailed and R unchanged, or kept with `start >= R` entailed and R := its span.end. With well-formed spans (start <= end) this gives: kept lints are pairwise disjoint, and every dropped lint starts inside the kept lint that set R")
    ck.assumptions += ["R-C13-sweep: spans are well formed (start <= end)", "R-C13-sweep: slice::sort_by_key sorts ascending by the key (std)"]
    ck.not_decided += ["overlap removal for ill-formed spans (start > end)"]
    p = facts.load()
    byk = fns_by_key(p)
    fs = byk.get("harper_core::remove_overlaps")
    if ck.anchor("R-C13-subset", "harper_core::remove_overlaps", fs):
        f = fs[0]
        ck.saw(f)
        pv = Prov(f)
        ops = ops_on(f, pv, 1)
        names = sorted({m for m, _, _ in ops})
        allowed = READ_ONLY | REORDER | CUTS | {"remove_indices", "deref_mut", "as_mut_slice", "as_mut"}
        bad = [(m, t) for m, _, t in ops if m not in allowed]
        for m, t in bad:
            ck.refuted("R-C13-subset", "remove_overlaps:%s" % m, f.loc(t["ln"]), "the lint vector is passed to %s: elements may be invented or altered" % target_of(t))
        if not bad:
            ck.proved("R-C13-subset", "remove_overlaps:ops", f.span, "operations on `lints`: %s (queries, reordering, cutting: none can invent or alter an element)" % names)
        if "remove_indices" in names and not (set(names) & CUTS):
            ck.proved("R-C13-subset", "remove_overlaps:removes-via-remove_indices", f.span, "elements are dropped only through VecExt::remove_indices")
        else:
            _other_removal(ck, p, f, pv, ops)
        # closures (the sort key) take the element by shared reference: nothing to check beyond types
        # ---- sorted queue
        cfg = Cfg(f)
        rem = [(bi, t) for bi, t in f.calls() if method(t) == "remove_indices"]
        if rem:
            qlocal = _base_local(f, pv, rem[0][1]["args"][1])
            qops = ops_on(f, pv, qlocal)
            qnames = sorted({m for m, _, _ in qops})
            ok = set(qnames) <= {"push_back", "remove_indices", "new", "with_capacity"}
            detail = "operations on the removal queue: %s" % qnames
            for m, bi, t in qops:
                if m != "push_back":
                    continue
                roots = arg_roots(f, pv, t["args"][1])
                nexts = [o for o in roots if o[0] == "call" and last(norm(o[3] or "")) == "next"]
                enum = [o for o in nexts if "enumerate" in (o[3] or "").lower()]
                over_lints = False
                for o in roots:
                    if o[0] == "call" and last(norm(o[3] or o[2] or "")) == "enumerate":
                        et = f.blocks[o[1]]["t"]
                        over_lints = ("arg", 1) in {x for x in arg_roots(f, pv, et["args"][0])}
                idx0 = _is_enum_index(f, pv, t["args"][1])
                if not (enum and over_lints and idx0):
                    ok = False
                    detail += "; push_back at %s does not push the enumerate() counter of the lint vector" % f.loc(t["ln"])
            ck.decide("R-C13-sorted", "remove_overlaps:queue", ok, f.span, detail)
    _sweep(ck, p, byk)
    fs = byk.get("<Vec as VecExt>::remove_indices")
    if ck.anchor("R-C13-subset", "<Vec as VecExt>::remove_indices", fs):
        f = fs[0]
        ck.saw(f)
        pv = Prov(f)
        ops = ops_on(f, pv, 1)
        names = sorted({m for m, _, _ in ops})
        ok = names == ["retain"]
        clos = p.closures_of(f.name)
        detail = "operations on self: %s; closures: %d" % (names, len(clos))
        if ok and len(clos) == 1:
            c = clos[0]
            ck.saw(c)
            used = _local_used(c, 2)
            ok = not used
            detail += "; retain closure %s its element parameter" % ("uses" if used else "ignores")
        else:
            ok = False
        ck.decide("R-C13-subset", "VecExt::remove_indices", ok, f.span, detail)

    # ---- placement
    for key, what in (("Linter::lint", "harper-wasm Linter::lint"), ("harper_cli::main", "harper-cli main")):
        cands = [f for f in byk.get(key, []) if f.name.startswith("harper_wasm::") or f.name.startswith("harper_cli::")]
        if not ck.anchor("R-C13-placement", what, cands):
            continue
        f = cands[0]
        ck.saw(f)
        cfg = Cfg(f)
        pv = Prov(f)
        lint_calls = [(bi, t) for bi, t in f.calls() if def_of(t) == "harper_core::linting::Linter::lint"]
        if not lint_calls:
            ck.refuted("R-C13-placement", "anchor-missing:%s:lint-call" % key, f.span, "no Linter::lint call found")
            continue
        for lb, lt in lint_calls:
            L = lt["dest"][0]
            # the result may be moved into a named local
            Ls = {L}
            grew = True
            while grew:
                grew = False
                for b in f.blocks:
                    for s in b["s"]:
                        if s["k"] == "assign" and len(s["lhs"]) == 1 and s["rv"]["k"] == "use" and place_of(s["rv"]["op"]) and len(place_of(s["rv"]["op"])) == 1 and place_of(s["rv"]["op"])[0] in Ls and s["lhs"][0] not in Ls:
                            Ls.add(s["lhs"][0])
                            grew = True
            ops = []
            for l in Ls:
                ops += ops_on(f, pv, l)
            ro = [(bi, t) for m, bi, t in ops if inst_of(t) == "harper_core::remove_overlaps"]
            uses = [(m, bi, t) for m, bi, t in ops if m not in ("len", "is_empty") and inst_of(t) != "harper_core::remove_overlaps"]
            bad = [(m, bi, t) for m, bi, t in uses if not any(cfg.dominates(rb, bi) and rb != bi for rb, _ in ro)]
            if not ro:
                ck.refuted("R-C13-placement", keyname(p, f), f.loc(lt["ln"]), "the lints returned by LintGroup::lint are never passed to remove_overlaps")
            elif bad:
                m, bi, t = bad[0]
                ck.refuted("R-C13-placement", keyname(p, f), f.loc(t["ln"]), "the lint vector is consumed by %s before / without remove_overlaps" % target_of(t))
            else:
                ck.proved("R-C13-placement", keyname(p, f), f.loc(ro[0][1]["ln"]), "remove_overlaps dominates all %d consuming uses (%s)" % (len(uses), sorted({m for m, _, _ in uses})))


def _is_enum_index(f, pv, op):
    """operand = ((next() as Some).0).0 — the counter component of an Enumerate item"""
    for o in pv.trace_operand(op):
        x = o
        if x[0] == "field" and x[2] == 0:
            y = x[1]
            if y[0] == "field" and y[2] == 0 and y[1][0] == "call" and "enumerate" in (y[1][3] or "").lower():
                return True
    return False


def _local_used(fn, local):
    def in_place(pl):
        return bool(pl) and (pl[0] == local or any(isinstance(e, list) and e[0] == "i" and e[1] == local for e in pl[1:]))
    for b in fn.blocks:
        if b["cleanup"]:
            continue
        for s in b["s"]:
            if s["k"] != "assign":
                continue
            rv = s["rv"]
            if "place" in rv and in_place(rv["place"]):
                return True
            for k in ("op", "a", "b"):
                o = rv.get(k)
                if isinstance(o, dict) and in_place(place_of(o)):
                    return True
            for o in rv.get("ops", []):
                if in_place(place_of(o)):
                    return True
        t = b["t"]
        if t["k"] == "call":
            for a in t["args"]:
                if in_place(place_of(a)):
                    return True
        elif t["k"] == "switch" and in_place(place_of(t["discr"])):
            return True
    return False


def _field_path(pl):
    return [e[2] for e in pl[1:] if isinstance(e, list) and e[0] == "f"]


def _sweep(ck, p, byk):
    """R-C13-sweep: decide the drop/keep arithmetic of remove_overlaps with the prover"""
    from ..prover import Ctx, Lin, analyze, entails, counter_model, V_int, UNKNOWN, havoc
    rule = "R-C13-sweep"
    fs = byk.get("harper_core::remove_overlaps")
    if not fs:
        return
    f = fs[0]
    pv = Prov(f)
    cfg = Cfg(f)
    # ---- the sort key
    sorts = [(bi, t) for bi, t in f.calls() if method(t) in ("sort_by_key", "sort_unstable_by_key", "sort_by_cached_key") and _base_local(f, pv, t["args"][0]) == 1]
    if len(sorts) != 1:
        cmp_sorts = [(bi, t) for bi, t in f.calls() if method(t) in ("sort_by", "sort_unstable_by", "sort", "sort_unstable") and _base_local(f, pv, t["args"][0]) == 1]
        if not sorts and cmp_sorts:
            ck.undecided(rule, "remove_overlaps:sort-key", f.span, "the lint vector is sorted with a comparator (%s): which order it produces is not decided, and with it the sweep" % method(cmp_sorts[0][1]))
        elif not sorts:
            ck.refuted(rule, "remove_overlaps:sort-key", f.span, "the lint vector is not sorted before the sweep: `start < running end` then says nothing about overlap")
        else:
            ck.undecided(rule, "remove_overlaps:sort-key", f.span, "%d keyed sorts of the lint vector: not of the recognised form" % len(sorts))
        return
    sb, stt = sorts[0]
    kc = None
    for o in pv.trace_operand(stt["args"][1]):
        if o[0] == "agg" and o[1] == "closure":
            kc = p.fns.get(o[2])
    ok_key = False
    kdetail = "key closure not found"
    if kc is not None:
        ck.saw(kc)
        # the leading component of the returned key is a plain load of (*l).span.start
        kpv = Prov(kc)
        rets = [sx for b in kc.blocks for sx in b["s"] if sx["k"] == "assign" and sx["lhs"] == [0]]
        lead = None
        if len(rets) == 1:
            rv = rets[0]["rv"]
            if rv["k"] == "agg" and rv.get("agg") == "tuple" and rv["ops"]:
                lead = rv["ops"][0]
            elif rv["k"] == "use":
                lead = rv["op"]
        if lead is not None:
            defs = []
            pl = place_of(lead)
            if pl and len(pl) == 1:
                defs = [x for (bi, si, kind, x) in kpv.defs.get(pl[0], []) if kind == "assign"]
            ok_key = len(defs) == 1 and defs[0]["rv"]["k"] == "use" and place_of(defs[0]["rv"]["op"]) and place_of(defs[0]["rv"]["op"])[0] == 2 and _field_path(place_of(defs[0]["rv"]["op"])) == ["span", "start"]
            kdetail = "leading key component is l.span.start: %s" % ok_key
    ck.decide(rule, "remove_overlaps:sort-key", ok_key, f.loc(stt["ln"]), kdetail)
    # ---- the loop, its element, the running end
    def _over_lints(op, depth=0):
        """receiver chain of an iterator operand ends in the lint vector (argument 1)"""
        if _base_local(f, pv, op) == 1:
            return True
        for o in flatten(pv.trace_operand(op)):
            if o == ("arg", 1):
                return True
            if o[0] == "call" and depth < 8:
                ct = f.blocks[o[1]]["t"]
                if ct["args"] and _over_lints(ct["args"][0], depth + 1):
                    return True
        return False
    # the sweep is the loop after the sort whose next() advances an iterator over the lint vector itself
    nexts = [(bi, t) for bi, t in f.calls() if method(t) == "next" and cfg.dominates(sb, bi) and _over_lints(t["args"][0])]
    loops = cfg.natural_loops()
    cand = [(h, body) for h, body in loops.items() if any(bi in body for bi, _ in nexts)]
    if len(cand) != 1 or len(nexts) != 1:
        # the function is there and sorts; its sweep is written in a form this rule does not follow (an adaptor chain
        # with the running end kept in a closure, ..): not decided - unlike a missing function, this is no evidence
        # that the property's mechanism is gone
        adaptors = sorted({method(t) for _, t in f.calls() if method(t) in ("filter_map", "filter", "scan", "fold", "retain", "for_each", "map", "dedup_by", "partition")})
        if adaptors and not cand:
            ck.undecided(rule, "remove_overlaps:sweep-form", f.span, "after the sort the vector is swept by an adaptor chain (%s) rather than a loop: the running-end argument of this rule does not follow it" % ", ".join(adaptors))
        else:
            ck.refuted(rule, "anchor-missing:sweep-loop", f.span, "expected one loop over the sorted vector after the sort (loops: %d, next() calls: %d)" % (len(cand), len(nexts)))
        return
    head, body = cand[0]
    nb, nt = nexts[0]
    over_lints = any(o == ("arg", 1) for o in arg_roots(f, pv, nt["args"][0]))
    # element locals: &Lint typed locals assigned from the payload of next()
    elems = set()
    for bi in body:
        for sx in f.blocks[bi]["s"]:
            if sx["k"] == "assign" and len(sx["lhs"]) == 1 and sx["rv"]["k"] == "use" and place_of(sx["rv"]["op"]):
                src = place_of(sx["rv"]["op"])
                if src[0] == nt["dest"][0] and "lint::Lint" in f.local_tystr(sx["lhs"][0]) and f.local_ty(sx["lhs"][0])["k"] == "ref":
                    elems.add(sx["lhs"][0])
    # running end: integer local assigned inside the loop (not the iterator machinery), initialised before it
    rcand = {}
    for bi in body:
        for sx in f.blocks[bi]["s"]:
            if sx["k"] == "assign" and len(sx["lhs"]) == 1 and f.local_tystr(sx["lhs"][0]) == "usize" and sx["lhs"][0] in f.debug_names():
                rcand.setdefault(sx["lhs"][0], []).append((bi, sx))
    rcand = {l: v for l, v in rcand.items() if any(kind == "assign" and bi not in body for (bi, si, kind, x) in pv.defs.get(l, []))}
    if len(elems) != 1 or len(rcand) != 1 or not over_lints:
        ck.refuted(rule, "anchor-missing:sweep-state", f.span, "expected one element reference and one running-end variable in the sweep loop over the lint vector (elements: %d, running ends: %s, iterates the vector: %s)" % (len(elems), sorted(f.debug_names().get(l) for l in rcand), over_lints))
        return
    E = next(iter(elems))
    R = next(iter(rcand))
    keeps = rcand[R]
    inits = [x for (bi, si, kind, x) in pv.defs.get(R, []) if kind == "assign" and bi not in body]
    init0 = len(inits) == 1 and inits[0]["rv"]["k"] == "use" and "k" in inits[0]["rv"]["op"] and str(inits[0]["rv"]["op"]["k"].get("int")) == "0"
    rem = [(bi, t) for bi, t in f.calls() if method(t) == "remove_indices"]
    qlocal = _base_local(f, pv, rem[0][1]["args"][1]) if rem else None
    # a drop site records the current position in a container of positions: the removal queue when remove_indices is
    # used, otherwise any Vec/VecDeque<usize> that is written inside the sweep
    def _is_pos_container(l):
        return l is not None and bool(re.search(r"(Vec|VecDeque)<usize>", f.local_tystr(l)))
    drops = [(bi, t) for bi, t in f.calls() if bi in body and method(t) in ("push_back", "push") and len(t["args"]) > 1 and
             (_base_local(f, pv, t["args"][0]) == qlocal if qlocal is not None else _is_pos_container(_base_local(f, pv, t["args"][0])))]
    ck.decide(rule, "remove_overlaps:init", init0, f.span, "the running end `%s` starts at 0: %s" % (f.debug_names().get(R), init0))
    if not drops or not keeps:
        ck.refuted(rule, "anchor-missing:sweep-sites", f.span, "drop sites (push_back onto the removal queue): %d, keep sites (assignments to the running end): %d" % (len(drops), len(keeps)))
        return
    # every iteration drops or keeps: no path from the element binding back to the head avoids both
    bind = [bi for bi in body for sx in f.blocks[bi]["s"] if sx["k"] == "assign" and sx["lhs"] == [E]]
    sites = {bi for bi, _ in drops} | {bi for bi, _ in keeps}
    free = cfg.path(bind[0], {head}, avoid=sites) if bind and bind[0] not in sites else None
    ck.decide(rule, "remove_overlaps:every-element-decided", free is None, f.span, "every path from the element binding back to the loop head passes a drop site or a keep site: %s%s" % (free is None, "" if free is None else " (path %s keeps an element without moving the running end)" % free))
    # ---- prover run with canonical symbols for the element's span
    cx = Ctx(p, {})
    xs, xe = Lin.sym(cx.fresh("x.span.start")), Lin.sym(cx.fresh("x.span.end"))

    def stmt_post(cx_, fn, bb, sx, st, v):
        if fn is f and sx["rv"]["k"] == "use" and place_of(sx["rv"]["op"]):
            pl = place_of(sx["rv"]["op"])
            if pl[0] == E and _field_path(pl) == ["span", "start"]:
                return V_int(xs)
            if pl[0] == E and _field_path(pl) == ["span", "end"]:
                return V_int(xe)
        return None

    def call(cx_, fn, bb, t, a, st, reports):
        if fn is f and bb == nb:
            for sym in list(xs.t) + list(xe.t):
                havoc(st, sym)
            st.add(xs)
            st.add(xe.sub(xs))
        return None
    cx.hooks.update({"stmt_post": stmt_post, "call": call})
    sub = analyze(cx, f, [UNKNOWN], [], want_edges=True)

    def states_into(bb):
        return [st for (a, b), lst in sub.edges.items() if b == bb for st in lst]

    def judge(key, where, sts, goal_of, what):
        if not sts:
            ck.undecided(rule, key, where, "no abstract state reaches this site")
            return
        for st in sts:
            goal = goal_of(st)
            if goal is None:
                ck.undecided(rule, key, where, "%s: the running end or the element's start is not tracked at this site" % what)
                return
            if not all(entails(st.facts, g) for g in goal):
                cm = None
                for g in goal:
                    if not entails(st.facts, g):
                        cm = counter_model(st.facts, g)
                        break
                syms = {sy for g in goal for sy in g.t}
                grew = True
                while grew:             # symbols connected to the goal through the facts
                    grew = False
                    for c in st.facts:
                        cs = set(c.t)
                        if cs & syms and not cs <= syms:
                            syms |= cs
                            grew = True
                nm = lambda sy: cx.names.get(sy, "")
                # the running end at the loop head may be any value >= 0 (the end of an earlier kept lint)
                understood = all(nm(sy).startswith("x.span.") or (nm(sy).startswith("phi_") and nm(sy).endswith("_%d" % R)) for sy in syms)
                if cm is not None and understood:
                    ck.refuted(rule, key, where, "%s is not guaranteed; counter-assignment: %s" % (what, cx.show_model(cm)))
                else:
                    ck.undecided(rule, key, where, "%s could not be established (facts: %s)" % (what, [cx.show(c) for c in st.facts][:8]))
                return
        ck.proved(rule, key, where, "%s holds in all %d abstract state(s) reaching the site" % (what, len(sts)))

    def r_of(st):
        v = st.vals.get(R)
        return v[1] if v is not None and v[0] == "int" else None

    for bi, t in drops:
        judge("remove_overlaps:drop", f.loc(t["ln"]), states_into(bi),
              lambda st: None if r_of(st) is None else [r_of(st).sub(xs).plus(-1)],
              "a dropped lint starts before the running end (x.start < %s)" % f.debug_names().get(R))
        # the running end is not moved on the drop path
        moved = [kb for kb, _ in keeps if cfg.reaches(bi, [kb], avoid=[head])]
        ck.decide(rule, "remove_overlaps:drop-leaves-end", not moved, f.loc(t["ln"]), "no assignment to the running end between a drop and the next iteration: %s" % (not moved))
    for bi, sx in keeps:
        judge("remove_overlaps:keep", f.loc(sx["ln"]), states_into(bi),
              lambda st: None if r_of(st) is None else [xs.sub(r_of(st))],
              "a kept lint starts at or after the running end (x.start >= %s)" % f.debug_names().get(R))
        # new value of the running end is the element's span.end
        roots = pv.trace_operand(sx["rv"]["op"]) if sx["rv"]["k"] == "use" else set()
        src_ok = False
        if sx["rv"]["k"] == "use" and place_of(sx["rv"]["op"]):
            l = place_of(sx["rv"]["op"])[0]
            ds = [x for (b2, si, kind, x) in pv.defs.get(l, []) if kind == "assign"]
            src_ok = len(ds) == 1 and ds[0]["rv"]["k"] == "use" and place_of(ds[0]["rv"]["op"]) and place_of(ds[0]["rv"]["op"])[0] == E and _field_path(place_of(ds[0]["rv"]["op"])) == ["span", "end"]
            if place_of(sx["rv"]["op"])[0] == E and _field_path(place_of(sx["rv"]["op"])) == ["span", "end"]:
                src_ok = True
        ck.decide(rule, "remove_overlaps:keep-sets-end", src_ok, f.loc(sx["ln"]), "on the keep path the running end becomes the kept lint's span.end: %s" % src_ok)


def _other_removal(ck, p, f, pv, ops):
    """remove_overlaps drops elements some other way than VecExt::remove_indices.  The one form decided here: park the
    dropped elements at the back with swap(i, len-1-k) and truncate - right only when the indices are consumed from the
    largest to the smallest."""
    from ..common import arg_roots
    key = "remove_overlaps:removes-via-remove_indices"
    swaps = [(bi, t) for m, bi, t in ops if m == "swap"]
    truncs = [(bi, t) for m, bi, t in ops if m == "truncate"]
    cfg = Cfg(f)
    loops = cfg.natural_loops()
    if swaps and truncs:
        bi, t = swaps[0]
        inloop = [body for body in loops.values() if bi in body]
        roots = set()
        for a in t["args"][1:3]:
            roots |= {last(norm(o[3] or o[2] or "")) for o in arg_roots(f, pv, a) if o[0] == "call"}
        # is the index container filled inside a forward sweep (enumerate) and read front to back?
        descending = bool(roots & {"rev", "pop", "next_back", "pop_back"})
        filled_forward = any(method(t2) in ("push", "push_back") and any(method(f.blocks[o[1]]["t"]) == "enumerate" for o in arg_roots(f, pv, t2["args"][1]) if o[0] == "call")
                             for _, t2 in f.calls() if len(t2["args"]) > 1)
        if inloop and not descending and filled_forward:
            ck.refuted("R-C13-subset", key, f.loc(t["ln"]), "dropped lints are swapped to the back one by one in ascending index order and cut off with truncate: a swap can bring an element that is still waiting to be dropped (it sits among the last positions) to an index already passed, so it survives and a lint the sweep kept is cut off instead - two kept lints can overlap and a lint nothing overlaps can disappear")
            return
        ck.undecided("R-C13-subset", key, f.loc(t["ln"]), "elements are dropped by swap + truncate (%s order); whether the positions cut off are exactly the ones the sweep marked is not decided" % ("descending" if descending else "unrecognised"))
        return
    ck.refuted("R-C13-subset", key, f.span, "elements are not dropped through VecExt::remove_indices and the removal form (%s) is not one this rule can follow: fail closed" % sorted({m for m, _, _ in ops if m in CUTS}))
