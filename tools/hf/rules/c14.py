"""C14 — ignoring hides that lint, only that lint, and keeps hiding it.

R-C14-locfree: no position-carrying field feeds the context hash (type graph + Hash impls).
R-C14-agree:   ignore_lint / is_ignored hash through the same function with the same argument
               roles; remove_ignored retains exactly !is_ignored; from_lint copies kind, suggestions,
               message, priority from the lint.
R-C14-serde:   IgnoredLints round-trips (derive both, no asymmetric attribute), wasm export/import
               use the same codec, import is a union.
"""
import re

from .. import facts, serde_audit
from ..prov import Prov, flatten, field_names
from ..tygraph import TyGraph, fields_read_of_self, short
from ..util import keyname, calls, last, fns_by_key, norm
from ..cfg import Cfg
from ..common import method, inst_of

LEVEL = "proof"
HASH = "core::hash::Hash"
ROOT = "harper_core::ignored_lints::lint_context::LintContext"
INDEX_SOURCE = re.compile(r"(::enumerate|::position|::rposition|_indices$|_indices::|_index$|indices_intersecting|::char_indices|::find$)")
INT_LIKE = re.compile(r"^(usize|u64|u32|isize|i64|i32)$")


def hash_graph(p, tg):
    """[(adt record, field label, field (crate, tid), path)] for every field that feeds the Hash
    of LintContext; hand-written Hash impls contribute only the fields their body reads."""
    root = tg.find_type(ROOT)
    fed = []
    adts = []
    undec = []
    seen = set()
    stack = [((), root[0], root[1])]
    while stack:
        path, c, i = stack.pop()
        t = tg.ty(c, i)
        if t["s"] in seen:
            continue
        seen.add(t["s"])
        if t["k"] == "adt" and t["name"] in p.adts:
            d = p.adts[t["name"]]
            adts.append(d)
            ims = tg.impls(HASH, t["name"])
            if not ims:
                undec.append((d, "no Hash impl found for %s" % t["name"]))
                continue
            im = ims[0]
            read = None
            if not im["derived"]:
                hf = [p.fns.get(x[1]) for x in im["items"] if x[0].endswith("Hash::hash")]
                if not hf or hf[0] is None:
                    undec.append((d, "hand-written Hash impl without body"))
                    continue
                read = fields_read_of_self(hf[0])
            dc = d["crate"]
            for v in d["variants"]:
                for f in v["fields"]:
                    if read is not None and f["name"] not in read:
                        continue
                    lab = "%s.%s" % (v["name"], f["name"]) if d["kind"] == "enum" else f["name"]
                    fed.append((d, lab, f, (dc, f["ty"]), path, im["derived"]))
                    stack.append((path + ("%s.%s" % (short(t), lab),), dc, f["ty"]))
            for a in t["args"]:
                stack.append((path, c, a))
        else:
            for lab, c2, i2 in tg.children(c, i):
                stack.append((path, c2, i2))
    return fed, adts, undec


TOKEN_INDEX_FNS = re.compile(r"(iter_\w+_indices$|token_indices_intersecting$|_token_index$|_token_indices$)")
GENERIC_INDEX_FNS = re.compile(r"::(enumerate|position|rposition)$")


def _is_token_index_source(fn, o):
    """results that are positions *in the document's token sequence*: harper's own `iter_*_indices`
    / `token_indices_intersecting` API, or enumerate/position over an iterator of `Token`s.
    (Positions inside a token's own text, e.g. the decimal point of a number, are not locations.)"""
    for nm in (o[3] or "", o[2] or ""):
        n = norm(nm)
        if TOKEN_INDEX_FNS.search(n):
            return True
        if GENERIC_INDEX_FNS.search(n):
            t = fn.blocks[o[1]]["t"]
            targs = t["f"].get("targs") or []
            if targs and "token::Token" in fn.ty(targs[0])["s"]:
                return True
    return False


def index_derived(fn, pv, operand, depth=0, seen=None):
    """does the operand's value derive (looking through call arguments) from a token-index source?"""
    seen = set() if seen is None else seen
    for o in flatten(pv.trace_operand(operand)):
        if o in seen:
            continue
        seen.add(o)
        if o[0] == "call":
            if _is_token_index_source(fn, o):
                return o
            if depth < 8:
                t = fn.blocks[o[1]]["t"]
                for a in t["args"]:
                    r = index_derived(fn, pv, a, depth + 1, seen)
                    if r:
                        return r
    return None


def run(ck, tier):
    ck.rule("R-C14-locfree", "typegraph: no field that feeds the Hash of LintContext is position-carrying (type Span, or an integer field that some workspace function assigns from a token-index source)")
    ck.rule("R-C14-agree", "ignore_lint and is_ignored obtain the hash from the same function with the same argument roles; remove_ignored retains exactly !is_ignored; LintContext::from_lint takes kind/suggestions/message/priority from the lint")
    ck.rule("R-C14-select", "the tokens that enter the ignore context are selected by their own spans, independently of the rest of the document: nothing that LintContext::from_lint reaches inside harper_core::document searches the token vector with an order-dependent primitive (partition_point, binary_search*): the Markdown front end does not keep its tokens in source order (zero-width paragraph breaks), so a sorted-vector search makes the selection depend on how many tokens other paragraphs have")
    ck.rule("R-C14-stable", "the ignore hash means the same in every process and every IgnoredLints instance: hash_lint_context feeds a hasher with fixed keys (std DefaultHasher / SipHasher built with default()/new(), a FixedState or BuildHasherDefault), never a per-instance or per-process seeded one (RandomState, a container's own .hasher())")
    ck.rule("R-C14-context", "the ignore context hashes the TokenKind of neighbouring tokens, so a word's kind must be a function of its own characters: in Document::parse the dictionary lookup `*meta = dictionary.get_word_metadata(own span)` is the last writer of token kinds - no pass that runs after it rewrites a kind, unless it only touches the element it iterates over")
    ck.rule("R-C14-serde", "IgnoredLints derives Serialize+Deserialize without asymmetric attributes; wasm export/import use serde_json to_string/from_str on that type and import appends")
    ck.not_decided += ["hash collisions", "the exact 2-character neighbourhood arithmetic of LintContext::from_lint"]
    p = facts.load()
    ck.rule("R-C14-lifetime", "harper-ls keeps the ignored lints in the per-document state, so that state has to live as long as the document is open: no function takes a document's entry out of the table of open documents and then goes on to build the state for the same document anew (update_document / refresh_document / entry / insert after the removal) - the new DocumentState starts with an empty ignore list")
    try:
        from . import c09
        c09.docmap_lifetime(ck, p, "R-C14-lifetime")
    except Exception as e:
        import traceback
        ck.refuted("R-C14-lifetime", "internal:%s" % type(e).__name__, "", "rule could not run: %s" % traceback.format_exc()[-600:])
    ck.rule("R-C14-samedoc", "the hash stored by ignore_lint is taken from the same tokens is_ignored will see: the JavaScript-facing linter builds the Document for ignore_lint with the parser of the lint's language and with self.dictionary - the very dictionary Linter::lint parses with (word metadata is part of the hashed context, so a curated-only constructor hashes other token kinds next to a user-dictionary word) (rule instances of R-C16-samedoc)")
    try:
        from . import c16, c05
        from ..util import fns_by_key as _fbk
        c16._samedoc(c05._Sub(ck, "R-C14-samedoc", "wasm:"), p, _fbk(p))
    except Exception as e:
        import traceback
        ck.refuted("R-C14-samedoc", "internal:%s" % type(e).__name__, "", "rule could not run: %s" % traceback.format_exc()[-600:])
    tg = TyGraph(p)
    if not ck.anchor("R-C14-locfree", ROOT, tg.find_type(ROOT)):
        return
    fed, adts, undec = hash_graph(p, tg)
    ck.floor("R-C14-locfree", "ADTs in the hash graph of LintContext", len(adts), 7)
    ck.extra["hash_graph_adts"] = sorted(last(a["name"]) for a in adts)
    for d, why in undec:
        ck.undecided("R-C14-locfree", "hash-impl:%s" % last(d["name"]), d["span"], why)

    # candidate integer fields -> all assignments / constructions in the workspace
    int_fields = {}
    for d, lab, f, (c, tid), path, derived in fed:
        t = tg.ty(c, tid)
        anyspan = [x for _, _, _, x in tg.walk(c, tid, stop=lambda y: y["k"] == "adt" and y["name"] in p.adts) if x["k"] == "adt" and x["name"] == "harper_core::span::Span"]
        key = "%s.%s" % (last(d["name"]), lab)
        if anyspan:
            ck.refuted("R-C14-locfree", key, d["span"], "field of type %s (a document position) feeds the ignore-context hash via %s" % (t["s"], "/".join(path)))
            continue
        ints = [x for _, _, _, x in tg.walk(c, tid, stop=lambda y: y["k"] == "adt" and y["name"] in p.adts) if x["k"] == "prim" and INT_LIKE.match(x["s"])]
        if ints:
            vname = lab.split(".")[0] if d["kind"] == "enum" else None
            int_fields[(d["name"], vname, f["name"])] = (d, lab, f, path)
        else:
            ck.proved("R-C14-locfree", key, d["span"], "type %s carries no position" % t["s"])
    # scan assignments
    writes = {k: [] for k in int_fields}
    names = {}
    for k in int_fields:
        names.setdefault(k[2], []).append(k)
    for fn in p.fns.values():
        pv = None
        for bi, b in enumerate(fn.blocks):
            if b["cleanup"]:
                continue
            for s in b["s"]:
                if s["k"] != "assign":
                    continue
                lhs = s["lhs"]
                tgt = None
                if len(lhs) > 1 and isinstance(lhs[-1], list) and lhs[-1][0] == "f" and lhs[-1][2] in names:
                    cands = names[lhs[-1][2]]
                    dc = lhs[-2][2] if len(lhs) > 2 and isinstance(lhs[-2], list) and lhs[-2][0] == "dc" else None
                    cands = [k for k in cands if k[1] == dc] if (dc or lhs[-1][2].isdigit()) else cands
                    if not cands:
                        continue
                    tgt = cands[0]
                    opnd = None
                    if s["rv"]["k"] == "use":
                        opnd = s["rv"]["op"]
                    if pv is None:
                        pv = Prov(fn)
                    src = None
                    if opnd is not None:
                        src = index_derived(fn, pv, opnd)
                    else:
                        for o in s["rv"].get("ops", []):
                            src = src or index_derived(fn, pv, o)
                    writes[tgt].append((fn, s["ln"], src))
                rv = s["rv"]
                if rv["k"] == "agg" and rv.get("agg") == "adt":
                    for (an, vn, fname) in int_fields:
                        if rv["name"] == an and (vn is None or vn == rv.get("vname")) and fname in rv.get("fields", []):
                            if pv is None:
                                pv = Prov(fn)
                            o = rv["ops"][rv["fields"].index(fname)] if len(rv["ops"]) == len(rv["fields"]) else None
                            src = index_derived(fn, pv, o) if o is not None else None
                            writes[(an, vn, fname)].append((fn, s["ln"], src))
    for k, (d, lab, f, path) in sorted(int_fields.items()):
        key = "%s.%s" % (last(d["name"]), lab)
        ws = writes[k]
        idx = [(fn, ln, src) for fn, ln, src in ws if src]
        for fn, ln, src in ws:
            ck.saw(fn)
        if idx:
            fn, ln, src = idx[0]
            ck.refuted("R-C14-locfree", key, fn.loc(ln),
                       "integer field %s feeds the ignore-context hash (via %s) and is assigned a token index (%s) in %s: the hash of an unchanged neighbourhood changes when text is inserted elsewhere" % (
                           key, "/".join(path) or "LintContext", src[3] or src[2], keyname(p, fn)))
        else:
            ck.proved("R-C14-locfree", key, d["span"], "integer field; %d write sites in the workspace, none derives from a token-index source" % len(ws))

    _agree(ck, p)
    n = serde_audit.audit(ck, p, "R-C14-serde", "harper_core::ignored_lints::IgnoredLints", "IgnoredLints")
    ck.floor("R-C14-serde", "ADTs in IgnoredLints serde graph", n, 1)
    # harper-ls hands the lint to the client inside the code action (serde_json::to_value) and reads it back in the
    # HarperIgnoreLint command (from_value): what is hashed into the ignore list is the lint AFTER that round trip
    n2 = serde_audit.audit(ck, p, "R-C14-serde", "harper_core::linting::lint::Lint", "Lint (code-action argument of HarperIgnoreLint)")
    ck.floor("R-C14-serde", "ADTs in the serde graph of Lint", n2, 3)
    _wasm_io(ck, p)
    _context(ck, p)
    _stable(ck, p)
    _select(ck, p)


def _writes_kind(p, fn, memo, depth=0):
    """(writes a token kind?, reads other tokens?) for a Document method, transitively inside harper_core::document"""
    if fn.name in memo:
        return memo[fn.name]
    memo[fn.name] = (False, False)
    from ..util import with_closures
    from ..common import method, arg_fields
    w = False
    others = False
    for b in with_closures(p, fn):
        pv = Prov(b)
        for blk in b.blocks:
            if blk["cleanup"]:
                continue
            for sx in blk["s"]:
                if sx["k"] != "assign":
                    continue
                lhs_f = [e[2] for e in sx["lhs"][1:] if isinstance(e, list) and e[0] == "f"]
                if "kind" in lhs_f:
                    w = True
                if sx["rv"]["k"] == "ref" and sx["rv"].get("mut"):
                    pf = [e[2] for e in sx["rv"]["place"][1:] if isinstance(e, list) and e[0] == "f"]
                    if "kind" in pf:
                        w = True
                # a write through a reference that points into a kind (metadata.noun = None)
                if len(sx["lhs"]) > 1 and sx["lhs"][1] == "*" and b.local_ty(sx["lhs"][0])["k"] == "ref" and b.local_ty(sx["lhs"][0]).get("mut"):
                    if "kind" in field_names(pv.trace_local(sx["lhs"][0])):
                        w = True
        for bi, t in b.calls():
            m = method(t)
            # any access to self.tokens other than iter_mut() counts as looking at other tokens
            if t["args"] and "tokens" in arg_fields(pv, t["args"][0]) and m in ("index", "index_mut", "get", "get_mut", "iter", "windows", "first", "last", "len", "split_at", "split_at_mut", "clone"):
                others = True
            inst = t["f"].get("inst") or ""
            if "find_all_matches" in inst or "iter_chunks" in inst or "::token_string_ext::" in inst:
                others = True
            g = p.fns.get(inst)
            if g is not None and g.name.startswith("harper_core::document::") and depth < 5 and g.name != fn.name:
                gw, go = _writes_kind(p, g, memo, depth + 1)
                w = w or gw
                others = others or go
    memo[fn.name] = (w, others)
    return memo[fn.name]


def _context(ck, p):
    from ..cfg import Cfg
    from ..common import def_of, inst_of, method
    rule = "R-C14-context"
    byk = fns_by_key(p)
    fs = byk.get("Document::parse")
    if not ck.anchor(rule, "Document::parse", fs):
        return
    f = fs[0]
    ck.saw(f)
    cfg = Cfg(f)
    pv = Prov(f)
    look = [(bi, t) for bi, t in f.calls() if def_of(t).endswith("Dictionary::get_word_metadata")]
    if len(look) != 1:
        ck.refuted(rule, "anchor-missing:metadata-lookup", f.span, "expected exactly one Dictionary::get_word_metadata call in Document::parse, found %d" % len(look))
        return
    lb = look[0][0]
    loops = cfg.natural_loops()
    inside = [h for h, body in loops.items() if lb in body]
    if not inside:
        ck.refuted(rule, "anchor-missing:metadata-loop", f.span, "the dictionary lookup is not inside a loop over the tokens")
        return
    head = max(inside, key=lambda h: len(loops[h]))
    body = loops[head]
    # the looked-up word is the token's own span, the result is stored into that token's Word payload
    from ..common import arg_roots
    own = any(o[0] == "call" and last(norm(o[3] or "")) == "get_content" for o in arg_roots(f, pv, look[0][1]["args"][1]))
    stores = [(bi, sx) for bi in body for sx in f.blocks[bi]["s"] if sx["k"] == "assign" and len(sx["lhs"]) > 1 and sx["lhs"][1] == "*" and sx["rv"]["k"] == "use"
              and any(o[0] == "call" and o[1] == lb for o in arg_roots(f, pv, sx["rv"]["op"]))]
    ck.decide(rule, "Document::parse:lookup", own and len(stores) == 1, f.loc(look[0][1]["ln"]), "metadata = dictionary.get_word_metadata(span.get_content(source)) of the token's own span=%s, stored into the token (%d store)" % (own, len(stores)))
    memo = {}
    before, after, bad = [], [], []
    for bi, t in f.calls():
        g = p.fns.get(t["f"].get("inst") or "")
        if g is None or not g.name.startswith("harper_core::document::") or bi in body:
            continue
        w, others = _writes_kind(p, g, memo)
        if not w:
            continue
        ck.saw(g)
        if cfg.reaches(head, [bi]) and not cfg.dominates(bi, head):
            after.append(last(g.name))
            if others:
                bad.append((last(g.name), t["ln"]))
        else:
            before.append(last(g.name))
    # direct kind writes in parse after the loop
    for bi, blk in enumerate(f.blocks):
        if blk["cleanup"] or bi in body or not cfg.reaches(head, [bi]) or cfg.dominates(bi, head):
            continue
        for sx in blk["s"]:
            if sx["k"] == "assign" and "kind" in [e[2] for e in sx["lhs"][1:] if isinstance(e, list) and e[0] == "f"]:
                bad.append(("a direct assignment in parse", sx["ln"]))
    ck.floor(rule, "kind-writing passes recognised before the dictionary lookup", len(before), 2)
    if bad:
        ck.refuted(rule, "Document::parse:after-lookup", f.loc(bad[0][1]), "%s runs after the dictionary lookup, rewrites token kinds and looks at other tokens to do so: the kind of a word then depends on words outside the ignore context's window, and an ignored lint comes back when only those are edited" % bad[0][0])
    else:
        ck.proved(rule, "Document::parse:after-lookup", f.span, "kind-writing passes before the lookup: %s; after it: %s (none looks at other tokens)" % (before, after))


def _calls_named(p, fn, suffix):
    return [(b, bi, t) for b, bi, t in calls(p, fn) if (t["f"].get("inst") or t["f"].get("def") or "").endswith(suffix)]


HASH_SUFFIX = ["::hash_lint_context"]


def _hash_fn(p, byk):
    """the function that turns (lint, document) into the number the ignore list stores: by name, or - if it was renamed -
    the one function of the ignored_lints module that both ignore_lint and is_ignored call and that returns u64"""
    hfn = byk.get("IgnoredLints::hash_lint_context")
    if hfn:
        HASH_SUFFIX[0] = "::hash_lint_context"
        return hfn
    a, b = byk.get("IgnoredLints::ignore_lint"), byk.get("IgnoredLints::is_ignored")
    if not a or not b:
        return None
    def callees(f):
        return {inst_of(t) for _, t in f.calls() if norm(inst_of(t)).startswith("harper_core::ignored_lints::")}
    bynorm = {norm(n): f for n, f in p.fns.items()}
    common = [n for n in {norm(x) for x in callees(a[0])} & {norm(x) for x in callees(b[0])} if n in bynorm and bynorm[n].local_tystr(0) == "u64"]
    if len(common) == 1:
        HASH_SUFFIX[0] = "::" + last(common[0])
        return [bynorm[common[0]]]
    return None


def _agree(ck, p):
    rule = "R-C14-agree"
    byk = fns_by_key(p)
    hfn = _hash_fn(p, byk)
    if not ck.anchor(rule, "IgnoredLints::hash_lint_context", hfn):
        return
    sorted_form = []
    for name in ("ignore_lint", "is_ignored"):
        fs = byk.get("IgnoredLints::" + name)
        if not ck.anchor(rule, "IgnoredLints::" + name, fs):
            continue
        f = fs[0]
        ck.saw(f)
        cs = _calls_named(p, f, HASH_SUFFIX[0])
        pv = Prov(f)
        ok = len(cs) == 1
        detail = "calls hash_lint_context %d time(s)" % len(cs)
        if ok:
            _, bi, t = cs[0]
            roles = [flatten(pv.trace_operand(a)) for a in t["args"]]
            # the lint and the document handed to the hash are this function's own lint and document parameters
            # (hash_lint_context may or may not take self)
            tail = roles[-2:]
            ok = len(roles) >= 2 and tail[0] == {("arg", 2)} and tail[1] == {("arg", 3)} and (len(roles) == 2 or roles[0] == {("arg", 1)})
            detail += "; argument roles (.., lint, document) = %s" % [sorted(map(str, r)) for r in roles]
            # the set operation uses that hash
            setops = [(b, bi2, t2) for b, bi2, t2 in calls(p, f) if re.search(r"HashSet.*::(insert|contains)$|::set::.*::(insert|contains)$", (t2["f"].get("pretty") or "") + " " + (t2["f"].get("inst") or ""))]
            if len(setops) != 1:
                sv = _sorted_vec_form(p, f, pv, name)
                if sv is True:
                    sorted_form.append(name)
                    detail += "; sorted-vector form: binary_search(hash)%s on context_hashes" % (" then insert at the position found" if name == "ignore_lint" else "")
                else:
                    ok = False
                    detail += "; expected one set operation (or the sorted-vector form), found %d%s" % (len(setops), "; " + sv if sv else "")
            else:
                t2 = setops[0][2]
                want = "insert" if name == "ignore_lint" else "contains"
                leaves = flatten(pv.trace_operand(t2["args"][1]))
                from_hash = any(o[0] == "call" and (o[3] or "").endswith(HASH_SUFFIX[0]) for o in leaves)
                on_field = "context_hashes" in (field_names(pv.trace_operand(t2["args"][0])) | set(e[2] for e in (t2["args"][0].get("c") or t2["args"][0].get("m") or [])[1:] if isinstance(e, list)))
                opname = (t2["f"].get("inst") or "").rsplit("::", 1)[-1]
                ok = ok and from_hash and opname == want
                detail += "; context_hashes.%s(hash)=%s" % (opname, from_hash)
        ck.decide(rule, "IgnoredLints::" + name, ok, f.span, detail)
    if sorted_form:
        _sorted_invariant(ck, p, rule)
    # remove_ignored: retain(|lint| !self.is_ignored(lint, document))
    fs = byk.get("IgnoredLints::remove_ignored")
    if ck.anchor(rule, "IgnoredLints::remove_ignored", fs):
        f = fs[0]
        ck.saw(f)
        rets = _calls_named(p, f, "::retain")
        clos = p.closures_of(f.name)
        ok = len(rets) == 1 and len(clos) == 1
        detail = "retain calls=%d closures=%d" % (len(rets), len(clos))
        if ok:
            c = clos[0]
            pv = Prov(c)
            ret = pv.trace_local(0)
            good = False
            for o in ret:
                if o[0] == "un" and o[1] == "Not":
                    inner = flatten(o[2])
                    if len(inner) == 1 and list(inner)[0][0] == "call" and (list(inner)[0][3] or "").endswith("::is_ignored"):
                        good = len(ret) == 1
            if not good:
                # the same test written out: !self.context_hashes.contains(&hash(lint, document))
                for o in ret:
                    if o[0] == "un" and o[1] == "Not":
                        inner = flatten(o[2])
                        if len(inner) == 1 and list(inner)[0][0] == "call" and last(norm(list(inner)[0][3] or "")) in ("contains", "is_ok"):
                            ct = c.blocks[list(inner)[0][1]]["t"]
                            hashed = any(x[0] == "call" and (x[3] or "").endswith(HASH_SUFFIX[0]) for a_ in ct["args"] for x in _deep_roots(c, pv, a_))
                            on_list = any("context_hashes" in str(y) for a_ in ct["args"][:1] for y in pv.trace_operand(a_)) or any("context_hashes" in field_names(pv.trace_operand(a_)) for a_ in ct["args"][:1])
                            good = len(ret) == 1 and hashed
            ok = good
            detail += "; closure returns %s" % sorted(map(str, ret))[:2]
        ck.decide(rule, "IgnoredLints::remove_ignored", ok, f.span, detail)
    # from_lint copies the four descriptive fields from the lint
    fs = byk.get("LintContext::from_lint")
    if ck.anchor(rule, "LintContext::from_lint", fs):
        f = fs[0]
        ck.saw(f)
        pv = Prov(f)
        aggs = [s for b in f.blocks if not b["cleanup"] for s in b["s"] if s["k"] == "assign" and s["rv"]["k"] == "agg" and s["rv"].get("name") == ROOT]
        if len(aggs) != 1:
            ck.undecided(rule, "LintContext::from_lint", f.span, "construction of LintContext not found uniquely")
        else:
            rv = aggs[0]["rv"]
            res = {}
            for fname, o in zip(rv["fields"], rv["ops"]):
                res[fname] = _roots(f, pv, o)
            ok = all(("arg", 1) in res.get(k, set()) for k in ("lint_kind", "suggestions", "message", "priority")) and ("arg", 2) in res.get("tokens", set())
            ck.decide(rule, "LintContext::from_lint", ok, f.loc(aggs[0]["ln"]), "field sources: %s" % {k: sorted(map(str, v)) for k, v in res.items()})


def _roots(fn, pv, operand, depth=0, seen=None):
    seen = set() if seen is None else seen
    out = set()
    for o in flatten(pv.trace_operand(operand)):
        if o in seen:
            continue
        seen.add(o)
        if o[0] == "arg":
            out.add(o)
        elif o[0] == "call" and depth < 10:
            t = fn.blocks[o[1]]["t"]
            for a in t["args"]:
                out |= _roots(fn, pv, a, depth + 1, seen)
    return out


def _wasm_io(ck, p):
    rule = "R-C14-serde"
    byk = fns_by_key(p)
    exp = byk.get("Linter::export_ignored_lints")
    imp = byk.get("Linter::import_ignored_lints")
    if ck.anchor(rule, "harper_wasm Linter::export_ignored_lints", exp):
        f = exp[0]
        ck.saw(f)
        cs = [t for _, _, t in calls(p, f) if (t["f"].get("inst") or "").startswith("serde_json::")]
        names = sorted({t["f"]["inst"] for t in cs})
        ok = names == ["serde_json::ser::to_string"]
        ck.decide(rule, "wasm:export_ignored_lints", ok, f.span, "serde_json calls: %s" % names)
    if ck.anchor(rule, "harper_wasm Linter::import_ignored_lints", imp):
        f = imp[0]
        ck.saw(f)
        cs = [t for _, _, t in calls(p, f)]
        names = sorted({t["f"].get("inst") or "" for t in cs})
        has_from = any(n == "serde_json::de::from_str" for n in names)
        has_append = any(n.endswith("IgnoredLints::append") or norm(n).endswith("ignored_lints::{impl}::append") for n in names)
        ck.decide(rule, "wasm:import_ignored_lints", has_from and has_append, f.span, "from_str=%s, append(union)=%s" % (has_from, has_append))


def _stable(ck, p):
    rule = "R-C14-stable"
    byk = fns_by_key(p)
    fs = _hash_fn(p, byk)
    if not ck.anchor(rule, "IgnoredLints::hash_lint_context", fs):
        return
    f = fs[0]
    ck.saw(f)
    tys = {f.local_tystr(i) for i in range(len(f.d["locals"]))}
    hashers = sorted(t.lstrip("&").replace("mut ", "").strip() for t in tys if re.search(r"Hasher|RandomState|FixedState|BuildHasher|HashBuilder", t))
    seeded = [t for t in hashers if re.search(r"RandomState|DefaultHashBuilder|ahash::", t)]
    fixed = [t for t in hashers if re.search(r"std::hash::DefaultHasher$|SipHasher|FixedState|BuildHasherDefault", t)]
    from ..common import method as _m
    via_container = [t["ln"] for bi, t in f.calls() if _m(t) == "hasher"]
    if seeded or via_container:
        ck.refuted(rule, "IgnoredLints::hash_lint_context", f.span, "the context hash is computed with a seeded hasher (%s%s): the stored numbers only mean something to the instance (or process) that produced them, so an exported ignore list imported elsewhere matches nothing and every ignored lint comes back" % (", ".join(seeded) or "?", "; obtained from a container's .hasher()" if via_container else ""))
    elif fixed:
        ck.proved(rule, "IgnoredLints::hash_lint_context", f.span, "hasher types in the function: %s (fixed keys)" % fixed)
    else:
        ck.undecided(rule, "IgnoredLints::hash_lint_context", f.span, "no hasher type recognised among %s" % hashers)


def _select(ck, p):
    from .. import callgraph
    from ..common import method as _m
    rule = "R-C14-select"
    byk = fns_by_key(p)
    fs = byk.get("LintContext::from_lint")
    if not ck.anchor(rule, "LintContext::from_lint", fs):
        return
    f = fs[0]
    ck.saw(f)
    cg = callgraph.CallGraph(p.snap)
    doc = "harper_core::document::"
    par = cg.reach([f.name])
    reached = sorted(q for q in par if q.startswith(doc) and q in p.fns)
    ck.floor(rule, "Document functions reached from LintContext::from_lint", len(reached), 2)
    bad = []
    for q in reached:
        g = p.fns[q]
        for bi, t in g.calls():
            if _m(t) in ("partition_point", "binary_search", "binary_search_by", "binary_search_by_key"):
                bad.append((keyname(p, g), g.loc(t["ln"]), _m(t)))
    if bad:
        fn, where, m = bad[0]
        ck.undecided(rule, "from_lint:%s" % fn, where, "%s selects tokens with %s, which assumes the token vector is sorted by position: no rule here establishes that for every front end (zero-width tokens are exempt from the order clause of C02; until fix e7b4a9f the Markdown parser put a block's break in front of the block's last run of text, and then which tokens were hashed depended on the rest of the document) - whether an ignored lint keeps its context hash after an edit elsewhere is not decided" % (fn, m))
    else:
        ck.proved(rule, "from_lint:token-selection", f.span, "%d Document functions reachable from from_lint; none uses partition_point / binary_search on the tokens" % len(reached))


# ---------------------------------------------------------------------------------------------------
def _on_hashes(pv, op):
    return "context_hashes" in (field_names(pv.trace_operand(op)) | set(e[2] for e in (op.get("c") or op.get("m") or [])[1:] if isinstance(e, list) and e[0] == "f"))


def _sorted_vec_form(p, f, pv, name):
    """ignore_lint: binary_search(&hash) on context_hashes and insert(idx from that search, hash); is_ignored: binary_search(&hash)"""
    bs = [(bi, t) for bi, t in f.calls() if method(t) in ("binary_search", "binary_search_by", "binary_search_by_key") and _on_hashes(pv, t["args"][0])]
    if len(bs) != 1:
        return "no single binary_search on context_hashes"
    leaves = flatten(pv.trace_operand(bs[0][1]["args"][1]))
    if not any(o[0] == "call" and (o[3] or "").endswith(HASH_SUFFIX[0]) for o in leaves):
        return "the searched value is not the context hash"
    if name == "ignore_lint":
        ins = [(bi, t) for bi, t in f.calls() if method(t) == "insert" and _on_hashes(pv, t["args"][0])]
        if len(ins) != 1:
            return "expected one insert on context_hashes"
        idx_from = any(o[0] == "call" and o[1] == bs[0][0] for o in flatten(pv.trace_operand(ins[0][1]["args"][1])))
        val = any(o[0] == "call" and (o[3] or "").endswith(HASH_SUFFIX[0]) for o in flatten(pv.trace_operand(ins[0][1]["args"][2])))
        if not (idx_from and val):
            return "insert position is not the one binary_search reported, or the value is not the hash"
    return True


KEEPS_ORDER = {"dedup", "dedup_by", "dedup_by_key", "retain", "retain_mut", "clear", "remove", "truncate", "pop", "drain", "shrink_to_fit", "reserve",
               "binary_search", "binary_search_by", "binary_search_by_key", "len", "is_empty", "iter", "contains", "as_slice", "deref", "clone", "sort", "sort_unstable", "sort_by", "sort_by_key", "sort_unstable_by", "sort_unstable_by_key", "partition_point"}
SORTS = {"sort", "sort_unstable", "sort_by", "sort_by_key", "sort_unstable_by", "sort_unstable_by_key"}


def _sorted_invariant(ck, p, rule):
    """lookups use binary search, so every function that changes context_hashes must leave it sorted"""
    n = 0
    for f in sorted(p.fns.values(), key=lambda f: f.name):
        if not f.name.startswith("harper_core::ignored_lints::") or f.get("kind") == "Promoted":
            continue
        pv = Prov(f)
        cfg = Cfg(f)
        rets = [bi for bi, b in enumerate(f.blocks) if b["t"]["k"] == "return" and not b["cleanup"]]
        sorts = [bi for bi, t in f.calls() if method(t) in SORTS and t["args"] and _on_hashes(pv, t["args"][0])]
        bs = {bi for bi, t in f.calls() if method(t).startswith("binary_search") and t["args"] and _on_hashes(pv, t["args"][0])}
        for bi, t in f.calls():
            if not t["args"] or not _on_hashes(pv, t["args"][0]):
                continue
            m = method(t)
            if m in KEEPS_ORDER or m in ("deref_mut", "as_mut", "borrow_mut", "index"):
                continue
            a0 = t["args"][0]
            mut = True
            n += 1
            key = "%s:keeps-sorted:%s" % (keyname(p, f), m)
            if m == "insert" and len(t["args"]) > 2 and any(o[0] == "call" and o[1] in bs for o in flatten(pv.trace_operand(t["args"][1]))):
                ck.proved(rule, key, f.loc(t["ln"]), "insert at the position binary_search reported keeps the vector sorted")
                continue
            after = [sb for sb in sorts if cfg.reaches(bi, [sb])]
            ok = bool(after) and cfg.every_path_passes(bi, after, to=rets)[0]
            if ok:
                ck.proved(rule, key, f.loc(t["ln"]), "followed by a sort of context_hashes on every path to the return")
            else:
                ck.refuted(rule, key, f.loc(t["ln"]), "context_hashes is looked up with binary_search, but %s(..) here can leave it unsorted and no sort follows on every path: after it lookups miss hashes that are in the list - ignored lints come back (e.g. after importing an exported list into an instance that already has entries)" % m)
    ck.extra["sorted_vector_mutations"] = n


def _deep_roots(f, pv, op, depth=0, seen=None):
    seen = set() if seen is None else seen
    out = set()
    for o in flatten(pv.trace_operand(op)):
        if o in seen:
            continue
        seen.add(o)
        out.add(o)
        if o[0] == "call" and depth < 8:
            for a in f.blocks[o[1]]["t"]["args"]:
                out |= _deep_roots(f, pv, a, depth + 1, seen)
    return out
