"""C01 — checking any text never crashes or hangs (four structural contracts).

R-C01-pattern  (O1) every impl of Pattern::matches returns at most tokens.len()
R-C01-consumer (O4) the consumers of that contract slice in bounds given the contract
R-C01-lexer    (O2) every lexer table entry consumes >= 1 char when it matches; the last entry always matches
R-C01-loops    (O5) cursor loops leave on exhaustion
R-C01-span     (O3) Span::new(a, b) with affine operands has a <= b
"""
import os
import re

from .. import facts
from ..cfg import Cfg, bool_edges
from ..prov import Prov, flatten
from ..common import def_of, inst_of, method, arg_roots
from ..prover import (Ctx, Lin, analyze, entails, counter_model, V_slice, V_int, UNKNOWN, V_opt, V_struct, struct_get, satisfiable, FALSE)
from ..util import fns_by_key, keyname, place_of, norm, last

LEVEL = "other"
MATCHES = "harper_core::patterns::Pattern::matches"


def matches_hook(cx, fn, bb, t, a, st, reports):
    """calls to Pattern::matches (any impl, dyn or generic) satisfy the contract 0 <= r <= len(arg) —
    sound by induction over the call depth because every impl is checked"""
    if norm(t["f"].get("def") or "") == MATCHES:
        from ..prover import call_sym
        m = call_sym(cx, fn, bb, "m")
        st.add(m)
        if len(a) > 1 and a[1][0] == "slice":
            st.add(a[1][1].sub(m))
        else:
            cx.notes.append("%s: matches() on an untracked slice at bb%d" % (fn.name, bb))
        return V_int(m)
    return None


def run(ck, tier):
    ck.rule("R-C01-pattern", "O1: every body implementing Pattern::matches(&self, tokens, _) returns r with r <= tokens.len() on every return path (calls to Pattern::matches are assumed to satisfy the same contract: induction over call depth)")
    ck.rule("R-C01-consumer", "O4: run_on_chunk, SequencePattern/RepeatingPattern::matches and PatternExt::find_all_matches cut token slices in bounds, given the contract")
    ck.rule("R-C01-lexer", "O2: every function in lex_token's table returns Some(FoundToken{next_index,..}) only with next_index >= 1, and the last entry returns Some on every path, so PlainEnglish::parse strictly progresses")
    ck.rule("R-C01-loops", "O5: in parser-side cursor loops a `None`/exhausted cursor reaches a loop exit without passing the back edge")
    ck.rule("R-C01-span", "O3: Span::new(a, b) call sites whose operands are affine over tracked quantities satisfy a <= b")
    ck.not_decided += ["panics that depend on token contents or on the foreign parsers (pulldown-cmark, tree-sitter, typst-syntax)", "match_to_lint bodies indexing matched_tokens[k]", "the polynomial run-time bound"]
    ck.assumptions += ["integer overflow is ignored (a cursor cannot exceed isize::MAX elements)", "std slice/iterator/Option methods behave as documented (models listed in DESIGN.md 2.4)", "no unsafe code in the analysed workspace crates"]
    p = facts.load()
    _pattern(ck, p)
    if tier == "thorough":
        # the build without the `concurrent` feature (what harper-cli alone gets): Pattern has an extra
        # blanket impl for Rc<P>, and every body is type-checked under the other cfg
        from .c05 import _Sub
        pn = facts.load_nc()
        from .. import prov as _prov
        saved = _prov.PROGRAM
        _prov.PROGRAM = pn
        try:
            _pattern(_Sub(ck, "R-C01-pattern", "no-concurrent:"), pn)
        finally:
            _prov.PROGRAM = saved
        _census(ck, p)
    ck.rule("R-C01-units", "a span built from a byte length can end past the text, and Span::get_content then panics: no byte length / byte position of a str or String reaches a span or an index into the char source unconverted (rule instances of R-C04-units)")
    try:
        from . import c04, c05
        c04._byte_lengths(c05._Sub(ck, "R-C01-units", ""), p)
    except Exception as e:
        ck.refuted("R-C01-units", "internal:%s" % type(e).__name__, "", "rule could not run: %s" % e)
    from ..prover import Budget
    for sub in (_consumers, _lexer, _loops, _indexed_cursor, _fmt_args, _spans, _precond, _total, _twin_scans, _md_breaks, _matchlen, _div, _intparse, _typst_range, _kept_neighbour):
        try:
            sub(ck, p)
        except Budget as e:
            ck.undecided("R-C01-" + sub.__name__.strip("_"), "budget:%s" % sub.__name__.strip("_"), "", "time budget exceeded (%s): not decided" % e)
        except Exception as e:      # a rule that cannot run must not vouch
            import traceback
            ck.refuted("internal", sub.__name__, "", "rule raised: %s" % traceback.format_exc()[-800:])


def check_returns(cx, f, L, sub):
    """verdict for the length contract from the analysed return sites"""
    if sub.visited_returns == 0:
        return "UNDECIDED", "no return site was reached by the analysis"
    worst = "PROVED"
    details = []
    for s, v in sub.rets:
        if v[0] != "int":
            worst = "UNDECIDED" if worst != "REFUTED" else worst
            details.append("a return value is not an affine form over tracked quantities (%s)" % v[0])
            continue
        goal = L.sub(v[1])
        if entails(s.facts, goal):
            continue
        m = counter_model(s.facts, goal)
        opaque = cx.relevant_opaque(s.facts, goal)
        if opaque or m is None:
            worst = "UNDECIDED" if worst != "REFUTED" else worst
            details.append("return %s not bounded by the available facts (opaque ingredient)" % cx.show(v[1]))
        else:
            worst = "REFUTED"
            details.append("returns %s although %s" % (cx.show(v[1]), cx.show_model(m)))
    return worst, "; ".join(details) or "every return site r satisfies r <= len(tokens)"


def _pattern(ck, p):
    rule = "R-C01-pattern"
    impls = p.impls_of_method(MATCHES)
    ck.floor(rule, "impls of Pattern::matches", len(impls), 14)
    for f in impls:
        ck.saw(f)
        cx = Ctx(p, {"call": matches_hook, "peel": 2})
        Ls = cx.fresh("len(tokens)")
        L = Lin.sym(Ls)
        cx.lens = [L]
        sub = analyze(cx, f, [UNKNOWN, V_slice(L), UNKNOWN], [L])
        verdict, detail = check_returns(cx, f, L, sub)
        key = keyname(p, f)
        if sub.visited_returns < sub.n_returns and verdict == "PROVED":
            detail += " (%d of %d return blocks are unreachable under the collected facts)" % (sub.n_returns - sub.visited_returns, sub.n_returns)
        ck.ob(rule, key, verdict, f.span, detail)
        for r in sub.reports:
            if r["kind"].startswith("O4") and r["fn"] == f.name:
                pass


# consumers of the contract -----------------------------------------------------------------------
CONSUMERS = ["harper_core::linting::pattern_linter::run_on_chunk", "<SequencePattern as Pattern>::matches", "<RepeatingPattern as Pattern>::matches", "<P as PatternExt>::find_all_matches"]


def _consumers(ck, p):
    rule = "R-C01-consumer"
    byk = fns_by_key(p)
    n = 0
    for k in CONSUMERS:
        fs = byk.get(k)
        if not ck.anchor(rule, k, fs):
            continue
        f = fs[0]
        ck.saw(f)
        n += 1
        cx = Ctx(p, {"call": matches_hook, "peel": 2})
        L = Lin.sym(cx.fresh("len(tokens)"))
        cx.lens = [L]
        # the token slice is parameter 2 in all four
        args = [UNKNOWN, V_slice(L), UNKNOWN]
        sub = analyze(cx, f, args, [L])
        cuts = [r for r in sub.reports if r["kind"].startswith("O4") and r["fn"] == f.name]
        # de-duplicate by block
        byb = {}
        for r in cuts:
            byb[r["bb"]] = r
        if not byb:
            ck.undecided(rule, keyname(p, f), f.span, "no slice cut on the tracked token slice was seen")
            continue
        for bb, r in sorted(byb.items()):
            key = "%s:cut%d" % (keyname(p, f), sorted(byb).index(bb))
            if r["ok"]:
                ck.proved(rule, key, f.loc(r["ln"]), r["what"] + " is in bounds")
            elif r["opaque"] or not r["model"]:
                ck.undecided(rule, key, f.loc(r["ln"]), r["what"] + ": not decided (opaque ingredient); facts: %s" % r["facts"][:6])
            else:
                ck.refuted(rule, key, f.loc(r["ln"]), r["what"] + " can be out of bounds, e.g. " + r["model"])
    ck.floor(rule, "consumer functions", n, 2)


# lexer table ---------------------------------------------------------------------------------------
def _lexer(ck, p):
    rule = "R-C01-lexer"
    byk = fns_by_key(p)
    fs = byk.get("harper_core::lexing::lex_token")
    if not ck.anchor(rule, "lexing::lex_token", fs):
        return
    f = fs[0]
    ck.saw(f)
    # the table is an array aggregate of fn items
    table = None
    for b in f.blocks:
        for s in b["s"]:
            if s["k"] == "assign" and s["rv"]["k"] == "agg" and s["rv"].get("agg") == "array":
                ops = s["rv"]["ops"]
                names = []
                for o in ops:
                    names.append(_fnitem_of(f, o))
                if names and all(names) and len(names) >= 5:
                    table = names
    if table is None:
        ck.refuted(rule, "anchor-missing:lexer-table", f.span, "the array of lexer functions in lex_token was not found")
        return
    ck.floor(rule, "entries of the lexer table", len(table), 8)
    for i, nm in enumerate(table):
        g = p.fns.get(nm)
        if g is None:
            ck.undecided(rule, "entry:%s" % nm, f.span, "no MIR for table entry %s" % nm)
            continue
        ck.saw(g)
        cx = Ctx(p, {"peel": 2})
        L = Lin.sym(cx.fresh("len(source)"))
        cx.lens = [L]
        sub = analyze(cx, g, [V_slice(L)], [L])
        key = "entry:%s" % last(nm)
        verdict, detail = _progress(cx, g, sub, L)
        ck.ob(rule, key, verdict, g.span, detail)
        if i == len(table) - 1:
            # totality of the fallback: no return site may be None
            nones = []
            for s, v in sub.rets:
                if v[0] != "opt":
                    nones.append("unknown return value")
                elif satisfiable(list(s.facts) + list(v[3])) and v[3] != (FALSE,):
                    # `none` constraints satisfiable => this site may return None
                    nones.append("may return None")
            ok = bool(sub.rets) and not nones
            ck.ob(rule, "fallback-total:%s" % last(nm), "PROVED" if ok else ("UNDECIDED" if all(x == "unknown return value" for x in nones) and nones else "REFUTED"), g.span,
                  "the last table entry returns Some on every path" if ok else "the last table entry %s: %s — lex_token can return None and PlainEnglish::parse panics" % (last(nm), sorted(set(nones))))
    # lex_token tries the table entries on `source` and returns the first Some; None only after the table
    # is exhausted (so the totality of the last entry makes lex_token total)
    from ..prov import Prov, flatten
    from ..common import arg_roots
    pv = Prov(f)
    ptr_calls = [(bi, t) for bi, t in f.calls() if "ptr" in t["f"]]
    ok = len(ptr_calls) == 1
    detail = "calls through a function pointer: %d" % len(ptr_calls)
    if ok:
        bi, t = ptr_calls[0]
        callee_roots = arg_roots(f, pv, {"c": t["f"]["ptr"]})
        from_table = any(o[0] == "call" and last(norm(o[3] or o[2] or "")) == "next" for o in callee_roots)
        on_source = ("arg", 1) in flatten(pv.trace_operand(t["args"][0]))
        ret = pv.trace_local(0)
        some_of_call = any(o[0] == "agg" and o[2].endswith(":Some") and any(x[0] == "call" and x[1] == bi or (x[0] == "field" and x[1][0] == "call" and x[1][1] == bi) for ops in o[3] for x in ops) for o in ret)
        ok = from_table and on_source and some_of_call
        detail = "the pointer comes from iterating the table=%s; it is applied to the `source` parameter=%s; Some(result) is returned=%s" % (from_table, on_source, some_of_call)
    if not ptr_calls:
        # the same search written with an iterator adaptor: table.into_iter().find_map(|lexer| lexer(source))
        fm = [(bi, t) for bi, t in f.calls() if method(t) in ("find_map", "filter_map", "map_while", "flat_map")]
        for bi, t in fm:
            for x in pv.trace_operand(t["args"][-1]):
                if x[0] == "agg" and x[1] == "closure" and x[2] in p.fns:
                    c = p.fns[x[2]]
                    cptr = [(cb, ct) for cb, ct in c.calls() if "ptr" in ct["f"]]
                    if len(cptr) == 1:
                        cpv = Prov(c)
                        callee_is_item = any(o[0] == "arg" and o[1] == 2 for o in flatten(cpv.trace_operand({"c": cptr[0][1]["f"]["ptr"]})))
                        on_source = any(o[0] in ("upvar",) for o in flatten(cpv.trace_operand(cptr[0][1]["args"][0]))) or any(o == ("arg", 1) for o in flatten(cpv.trace_operand(cptr[0][1]["args"][0])))
                        returns = any(o[0] == "call" and o[1] == bi for o in flatten(pv.trace_local(0)))
                        first = method(t) == "find_map"
                        ok = callee_is_item and on_source and returns and first
                        detail = "table.find_map(|lexer| lexer(source)): the pointer is the iterated item=%s; applied to the captured source=%s; the first Some is returned=%s" % (callee_is_item, on_source, returns and first)
        if not fm:
            ck.undecided(rule, "lex_token:first-match", f.span, "neither a call through a function pointer in lex_token nor a find_map over the table: form not recognised")
            return
    ck.decide(rule, "lex_token:first-match", ok, f.span, detail)
    ck.extra["lexer_contract_proved"] = all(o["verdict"] == "PROVED" for o in ck.obs if o["rule"] == rule)


def _fnitem_of(f, op):
    k = op.get("k")
    if k and "fn" in k:
        return k["fn"].get("inst") or k["fn"].get("def")
    pl = place_of(op)
    if pl:
        for b in f.blocks:
            for s in b["s"]:
                if s["k"] == "assign" and s["lhs"] == [pl[0]]:
                    rv = s["rv"]
                    o2 = rv.get("op")
                    if isinstance(o2, dict):
                        r = _fnitem_of(f, o2)
                        if r:
                            return r
    return None


def _progress(cx, g, sub, L):
    if not sub.rets:
        return "UNDECIDED", "no return site reached"
    worst, details = "PROVED", []
    for s, v in sub.rets:
        if v[0] != "opt":
            worst = "UNDECIDED" if worst != "REFUTED" else worst
            details.append("return value not understood (%s)" % v[0])
            continue
        fs = list(s.facts) + list(v[2])
        if not satisfiable(fs):
            continue            # this site returns None
        pay = v[1]
        ni = struct_get(pay, "next_index") if pay[0] == "struct" else UNKNOWN
        if ni[0] != "int":
            worst = "UNDECIDED" if worst != "REFUTED" else worst
            details.append("next_index of a Some(..) return is not an affine form")
            continue
        goal = ni[1].plus(-1)
        if entails(fs, goal):
            continue
        m = counter_model(fs, goal)
        opaque = cx.relevant_opaque(fs, goal)
        if opaque or m is None:
            worst = "UNDECIDED" if worst != "REFUTED" else worst
            details.append("next_index = %s: lower bound 1 not derivable (opaque ingredient)" % cx.show(ni[1]))
        else:
            worst = "REFUTED"
            details.append("can return Some with next_index = %s when %s: the lexer makes no progress and PlainEnglish::parse loops forever" % (cx.show(ni[1]), cx.show_model(m)))
    return worst, "; ".join(details) or "every Some(..) return has next_index >= 1"


SCOPE = re.compile(r"^(harper_core::(lexing|parsers|document|mask|span|token_string_ext|vec_ext)|harper_comments|harper_literate_haskell|harper_html|harper_typst|harper_tree_sitter|harper_ls::git_commit_parser)(::|$)")


def generic_args(cx, f):
    """abstract arguments for a function analysed on its own: slice-like parameters get a free length"""
    args, fs = [], []
    names = {}
    for n, pl in f["debug"]:
        if len(pl) == 1:
            names.setdefault(pl[0], n)
    for i in range(1, f["argc"] + 1):
        t = f.local_ty(i)
        inner = f.ty(t["in"]) if t["k"] == "ref" else t
        if inner["k"] in ("slice", "str") or (inner["k"] == "adt" and inner["name"] in ("alloc::vec::Vec", "alloc::string::String")):
            L = Lin.sym(cx.fresh("len(%s)" % names.get(i, "_%d" % i)))
            cx.lens.append(L)
            fs.append(L)
            args.append(V_slice(L))
        else:
            args.append(UNKNOWN)
    return args, fs


def span_hook(contract_ok):
    def hook(cx, fn, bb, t, a, st, reports):
        inst = norm(t["f"].get("inst") or "")
        if inst == "harper_core::span::{impl}::new" and len(a) == 2:
            if a[0][0] == "int" and a[1][0] == "int":
                goal = a[1][1].sub(a[0][1])
                ok = entails(st.facts, goal)
                m = None if ok else counter_model(st.facts, goal)
                reports.append({"kind": "O3", "fn": fn.name, "bb": bb, "ln": t.get("ln"), "ok": ok, "what": "Span::new(%s, %s)" % (cx.show(a[0][1]), cx.show(a[1][1])),
                                "facts": [cx.show(x) for x in st.facts][:10], "model": cx.show_model(m) if m else None, "opaque": cx.relevant_opaque(st.facts, goal)})
                st.add(goal)
            else:
                reports.append({"kind": "O3", "fn": fn.name, "bb": bb, "ln": t.get("ln"), "ok": None, "what": "Span::new with a non-affine operand", "facts": [], "model": None, "opaque": True})
            return V_struct("Span", {"start": a[0], "end": a[1]})
        if inst == "harper_core::span::{impl}::new_with_len" and len(a) == 2 and a[0][0] == "int" and a[1][0] == "int":
            return V_struct("Span", {"start": a[0], "end": V_int(a[0][1].add(a[1][1]))})
        if inst == "harper_core::lexing::lex_token":
            from ..prover import call_sym
            n_ = call_sym(cx, fn, bb, "next_index")
            some = [n_.plus(-1)] if contract_ok else [n_]
            return V_opt(V_struct("FoundToken", {"next_index": V_int(n_)}), some, [])
        return matches_hook(cx, fn, bb, t, a, st, reports)
    return hook


def _spans(ck, p):
    rule = "R-C01-span"
    contract_ok = bool(ck.extra.get("lexer_contract_proved"))
    sites = 0
    affine = 0
    for f in sorted(p.fns.values(), key=lambda f: f.name):
        if not SCOPE.match(f.name) or f.get("kind") == "Closure":
            continue
        if not any(inst_of(t) == "harper_core::span::{impl}::new" for b in [f] + p.closures_of(f.name) for _, t in b.calls()):
            continue
        ck.saw(f)
        cx = Ctx(p, {"call": span_hook(contract_ok)})
        args, fs = generic_args(cx, f)
        sub = analyze(cx, f, args, fs)
        byb = {}
        for r in sub.reports:
            if r["kind"] == "O3":
                k = (r["fn"], r["bb"])
                # keep the worst verdict seen for a site across partitions
                old = byb.get(k)
                if old is None or (old["ok"] is True and r["ok"] is not True) or (r["ok"] is False and not r["opaque"]):
                    byb[k] = r
        for (fname, bb), r in sorted(byb.items()):
            sites += 1
            g = p.fns[fname]
            key = "%s:%s" % (keyname(p, g), r["what"].replace(" ", ""))
            key = "%s:site%d" % (keyname(p, g), sorted(b for (fn2, b) in byb if fn2 == fname).index(bb))
            if r["ok"] is True:
                affine += 1
                ck.proved(rule, key, g.loc(r["ln"]), r["what"] + ": start <= end")
            elif r["ok"] is None or r["opaque"] or not r["model"]:
                ck.undecided(rule, key, g.loc(r["ln"]), r["what"] + ": operands are not free affine forms; not decided")
            else:
                affine += 1
                ck.refuted(rule, key, g.loc(r["ln"]), "%s panics (start > end) for %s" % (r["what"], r["model"]))
    ck.floor(rule, "Span::new call sites analysed", sites, 6)
    ck.extra["span_sites_with_affine_operands"] = affine


_CENSUS_P = None


def _census_one(name):
    """one function of the census, in a forked worker with a wall-clock budget"""
    import signal
    p = _CENSUS_P
    f = p.fns[name]
    seen = {}

    def assert_hook(cx, fn, bb, t, st, want, other, reports):
        if t.get("msg") not in ("bounds", "overflow") or str(t.get("op", "")).startswith(("Add", "Mul")):
            return
        ok = want is not None and all(entails(st.facts, c) for c in want)
        k = (fn.name, bb)
        seen[k] = seen.get(k, True) and ok

    def on_alarm(*_):
        raise TimeoutError()
    signal.signal(signal.SIGALRM, on_alarm)
    signal.alarm(CENSUS_BUDGET_S)
    try:
        cx = Ctx(p, {"call": span_hook(True), "assert": assert_hook})
        args, fs = generic_args(cx, f)
        sub = analyze(cx, f, args, fs)
        for r in sub.reports:
            if r["kind"].startswith("O4"):
                k = (r["fn"], r["bb"])
                seen[k] = seen.get(k, True) and bool(r["ok"])
    except TimeoutError:
        return name, None, "budget"
    except Exception as e:
        return name, None, type(e).__name__
    finally:
        signal.alarm(0)
    return name, [sum(1 for v in seen.values() if v), sum(1 for v in seen.values() if not v)], None


CENSUS_BUDGET_S = 20


def _census(ck, p):
    """thorough: O4 census — every bounds check / slice cut / subtraction in the parser-side bodies,
    analysed with free slice parameters.  Internal helpers may rely on their callers, so the census
    is informational: it is written to the evidence (proved / not proved counts), never an alarm.
    Each function gets CENSUS_BUDGET_S seconds in a forked worker; the ones that run out are listed."""
    global _CENSUS_P
    import multiprocessing as mp
    _CENSUS_P = p
    names = [f.name for f in sorted(p.fns.values(), key=lambda f: f.name)
             if SCOPE.match(f.name) and f.get("kind") not in ("Closure", "Promoted") and len(f.blocks) <= 400]
    tot = {"proved": 0, "not_proved": 0}
    per, skipped = {}, {}
    with mp.get_context("fork").Pool(min(14, os.cpu_count() or 4)) as pool:
        for name, ab, why in pool.imap_unordered(_census_one, names, chunksize=4):
            if ab is None:
                skipped[keyname(p, p.fns[name])] = why
                continue
            if ab[0] or ab[1]:
                per[keyname(p, p.fns[name])] = ab
            tot["proved"] += ab[0]
            tot["not_proved"] += ab[1]
    ck.extra["o4_census"] = {"totals": tot, "functions_analysed": len(names) - len(skipped), "functions_with_obligations": len(per), "not_analysed": dict(sorted(skipped.items())),
                             "per_function": dict(sorted(per.items(), key=lambda kv: -kv[1][1])[:40])}
    ck.notes.append("O4 census (thorough, informational): %d in-bounds / no-underflow obligations proved, %d not proved, over %d parser-side functions (%d more not analysed within %d s each)" % (
        tot["proved"], tot["not_proved"], len(names) - len(skipped), len(skipped), CENSUS_BUDGET_S))


def _loops(ck, p):
    """O5: a `slice.get(cursor)` inside a loop whose cursor only grows: the None arm must leave the loop"""
    rule = "R-C01-loops"
    n_loops = 0
    n_sites = 0
    for f in sorted(p.fns.values(), key=lambda f: f.name):
        if not SCOPE.match(f.name):
            continue
        cfg = Cfg(f)
        loops = cfg.natural_loops()
        if not loops:
            continue
        n_loops += len(loops)
        for h, body in loops.items():
            for bi, t in f.calls():
                if bi not in body or norm(t["f"].get("inst") or "") not in ("core::slice::{impl}::get", "core::slice::{impl}::get_mut") or len(t["args"]) < 2:
                    continue
                # the loop that this get() steers is the innermost one around it: leaving that one on None is what counts
                # (an outer loop has its own test of the cursor at its head)
                if any(bi in b2 and len(b2) < len(body) for h2, b2 in loops.items() if h2 != h):
                    continue
                idx = place_of(t["args"][1])
                if not idx or len(idx) != 1:
                    continue
                cur = _copy_src(f, idx[0])
                writes = _writes_in(f, cur, body)
                if not writes or not all(w == "inc" for w in writes):
                    continue         # not a monotone cursor
                ck.saw(f)
                n_sites += 1
                # the None edge of the switch on the result
                none_blk = _none_edge(f, t)
                key = "%s:get(%s)" % (keyname(p, f), f.debug_names().get(cur, "_%d" % cur))
                if none_blk is None:
                    ck.undecided(rule, key, f.loc(t["ln"]), "the branch on the Option returned by get() was not found")
                    continue
                inside = set(body)
                back = cfg.reaches(none_blk, [h], avoid=[b for b in range(cfg.n) if b not in inside]) or none_blk == h
                if back:
                    ck.refuted(rule, key, f.loc(t["ln"]), "when `%s` runs past the end, get() returns None and control goes back to the loop head without any exit: the cursor only grows, so the loop never terminates" % f.debug_names().get(cur, "cursor"))
                else:
                    ck.proved(rule, key, f.loc(t["ln"]), "the None arm leaves the loop")
    ck.extra["natural_loops_in_scope"] = n_loops
    ck.floor(rule, "natural loops in parser-side scope", n_loops, 12)
    ck.floor(rule, "get(cursor) sites with a monotone cursor", n_sites, 1)



def _indexed_cursor(ck, p):
    """A cursor that only grows inside a loop and indexes a slice there with a panicking index: some test inside
    the loop has to look at the cursor (against a length, an end position), or the cursor is handed out by a range
    iterator.  If every exit of the loop depends on the CONTENT of the elements only, a text in which that content
    never comes makes the cursor reach the length and the index panics."""
    rule = "R-C01-loops"
    CMP = ("Lt", "Le", "Gt", "Ge", "Eq", "Ne")
    n = 0
    for f in sorted((g for g in p.fns.values() if DIV_SCOPE.match(g.name)), key=lambda g: g.name):
        cfg = Cfg(f)
        loops = cfg.natural_loops()
        if not loops:
            continue
        bound_conds = [place_of(b["t"]["cond"]) for b in f.blocks if b["t"]["k"] == "assert" and b["t"].get("msg") == "bounds"]
        done = set()
        for h, body in loops.items():
            for bi in sorted(body):
                t = f.blocks[bi]["t"]
                if t["k"] != "assert" or t.get("msg") != "bounds" or f.blocks[bi]["cleanup"]:
                    continue
                if any(bi in b2 and len(b2) < len(body) for h2, b2 in loops.items() if h2 != h):
                    continue
                ip = place_of(t["index"])
                if not ip or len(ip) != 1:
                    continue
                cur = _copy_src(f, ip[0])
                w = _writes_in(f, cur, body)
                if not w or not all(x == "inc" for x in w) or (h, cur) in done:
                    continue
                done.add((h, cur))
                copies = {cur}
                grew = True
                while grew:
                    grew = False
                    for b in f.blocks:
                        for sx in b["s"]:
                            if sx["k"] == "assign" and len(sx["lhs"]) == 1 and sx["rv"]["k"] == "use":
                                pl = place_of(sx["rv"]["op"])
                                if pl and len(pl) == 1 and pl[0] in copies and sx["lhs"][0] not in copies:
                                    copies.add(sx["lhs"][0])
                                    grew = True
                # values that carry the cursor into a call: the argument tuple of a closure call, a range, a reference
                carriers = set(copies)
                grew = True
                while grew:
                    grew = False
                    for b in f.blocks:
                        for sx in b["s"]:
                            if sx["k"] != "assign" or len(sx["lhs"]) != 1 or sx["lhs"][0] in carriers:
                                continue
                            rv = sx["rv"]
                            ops = []
                            if rv["k"] in ("agg", "tuple", "array"):
                                ops = [place_of(o) for o in (rv.get("ops") or rv.get("fields") or []) if isinstance(o, dict)]
                            elif rv["k"] == "ref":
                                ops = [rv.get("place")]
                            elif rv["k"] in ("use", "cast"):
                                ops = [place_of(rv["op"])] if isinstance(rv.get("op"), dict) else []
                            if any(o and o[0] in carriers for o in ops):
                                carriers.add(sx["lhs"][0])
                                grew = True
                tests, calls_with = [], []
                for b2 in body:
                    for sx in f.blocks[b2]["s"]:
                        if sx["k"] == "assign" and sx["rv"]["k"] == "bin" and sx["rv"]["op"] in CMP and sx["lhs"] not in bound_conds:
                            ops = [place_of(sx["rv"]["a"]), place_of(sx["rv"]["b"])]
                            if any(o and len(o) == 1 and o[0] in copies for o in ops):
                                tests.append(sx.get("ln"))
                    t2 = f.blocks[b2]["t"]
                    if t2["k"] == "call":
                        for a in t2["args"]:
                            pl = place_of(a)
                            if pl and pl[0] in carriers:
                                calls_with.append((last(norm(inst_of(t2))), t2.get("ln")))
                n += 1
                ck.saw(f)
                name = f.debug_names().get(cur, "_%d" % cur)
                key = "%s:index[%s]" % (keyname(p, f), name)
                if tests:
                    ck.proved(rule, key, f.loc(t["ln"]), "the loop tests the cursor `%s` (line%s %s) besides indexing with it" % (name, "s" if len(set(tests)) > 1 else "", sorted({x for x in tests if x})[:6]))
                elif calls_with and _oor_goes_on(p, f, cfg, body, bi, carriers):
                    ck.refuted(rule, key, f.loc(t["ln"]), "the loop indexes a slice with `%s`, which only grows, and never compares it with anything; the only other look at it is a closure that answers `slice.get(%s).is_some_and(..)`, i.e. false once `%s` is past the end, and on false the loop goes on to the index: a text in which the awaited element never comes (markup left unterminated while it is typed) runs the index off the end and panics" % (name, name, name))
                elif calls_with:
                    ck.undecided(rule, key, f.loc(t["ln"]), "the loop indexes with `%s`, which only grows, and never compares it with anything; it only hands it to %s - whether an out-of-range cursor makes one of these leave the loop is beyond this rule; if not, a text in which the awaited element never comes runs the index off the end and panics" % (name, sorted({c for c, _ in calls_with})))
                else:
                    ck.refuted(rule, key, f.loc(t["ln"]), "the loop indexes a slice with `%s`, which only grows, and no test in the loop looks at `%s`: every exit depends on the content of the elements, so a text in which that content never comes (markup left unterminated while it is typed) runs the index off the end and panics" % (name, name))
    # no floor: rewriting such a loop as an iterator chain removes the instance and the obligation with it (the loop
    # census of R-C01-loops keeps its own floor)
    ck.extra["indexed_cursor_loops"] = n


def _oor_goes_on(p, f, cfg, body, assert_bb, carriers):
    """every call in the loop that receives the cursor is a closure of the form `slice.get(idx).is_some_and(..)` /
    `.is_some()` (false when idx is out of range), and from the false edge of each such call every way on inside the
    loop passes the index check: an out-of-range cursor is not stopped by them."""
    sites = []
    for b2 in body:
        t2 = f.blocks[b2]["t"]
        if t2["k"] == "call" and any((place_of(a) or [None])[0] in carriers for a in t2["args"]):
            sites.append((b2, t2))
    if not sites:
        return False
    for b2, t2 in sites:
        g = None
        for a in t2["args"]:
            ty = f.local_tystr((place_of(a) or [0])[0]) or ""
            if "{closure" in ty:
                for c in p.closures_of(f.name):
                    if last(c.name) in ty or c.name.rsplit("::", 1)[-1] in ty:
                        g = c
        if g is None:
            cs = [c for c in p.closures_of(f.name) if norm(c.name) == norm(inst_of(t2)) or c.name == inst_of(t2)]
            g = cs[0] if cs else None
        if g is None:
            return False
        calls = [(bi, t) for bi, t in g.calls()]
        names = [last(norm(inst_of(t))) for _, t in calls]
        if sorted(names) not in (["get", "is_some_and"], ["get", "is_some"]):
            return False
        gt = [t for _, t in calls if last(norm(inst_of(t))) == "get"][0]
        it = [t for _, t in calls if last(norm(inst_of(t))).startswith("is_some")][0]
        if place_of(it["args"][0]) != gt["dest"] or it["dest"] != [0]:
            return False
        if any(sx["k"] == "assign" and sx["rv"]["k"] == "bin" and sx["rv"]["op"] in ("Lt", "Le", "Gt", "Ge") for b in g.blocks for sx in b["s"]):
            return False
        # the false edge of the closure's answer in the loop
        e = bool_edges(f, b2)
        if not e:
            return False
        false_blk = e[1]
        outside = [b for b in range(cfg.n) if b not in body]
        if false_blk not in body:
            return False
        # can control go from the false edge back to the loop head or out of the loop without passing the index check?
        if cfg.reaches(false_blk, outside + [min(body)], avoid=[assert_bb]) and false_blk != assert_bb:
            return False
    return True


def _fmt_args(ck, p):
    """`{:.*}` / `{:1$}`: a width or precision taken at run time goes through core::fmt::rt::Argument::from_usize,
    which panics ("Formatting argument out of range") above u16::MAX.  A value counted from the text is not bounded."""
    from ..prov import field_names
    from ..util import const_int
    rule = "R-C01-fmtarg"
    ck.rule(rule, "a width or precision handed to the formatting machinery at run time (`{:.*}`, `{:w$}`: core::fmt::rt::Argument::from_usize, which panics above 65535) is bounded: a constant, the result of min/clamp with a constant bound, or a field whose every writer stores such a value; a field that some writer fills with a count taken from the text (position, len, count ..) is refuted")
    COUNTS = {"position", "rposition", "len", "count", "find", "rfind", "chars", "sum"}
    BOUNDS = {"min", "clamp"}
    n = 0
    for f in sorted((g for g in p.fns.values() if DIV_SCOPE.match(g.name)), key=lambda g: g.name):
        sites = [(bi, t) for bi, t in f.calls() if norm(inst_of(t)).endswith("fmt::rt::{impl}::from_usize")]
        if not sites:
            continue
        pv = Prov(f)
        ck.saw(f)
        for k, (bi, t) in enumerate(sites):
            n += 1
            key = "%s:from_usize#%d" % (keyname(p, f), k)
            org = pv.trace_operand(t["args"][0])
            leaves = flatten(org)
            calls = {last(norm(o[3] or o[2] or "")) for o in leaves if o[0] == "call"}
            flds = field_names(org)
            if calls & BOUNDS:
                caps = []
                for o in leaves:
                    if o[0] == "call" and last(norm(o[3] or o[2] or "")) in BOUNDS:
                        for a in f.blocks[o[1]]["t"]["args"]:
                            for c in flatten(pv.trace_operand(a)):
                                if c[0] == "const":
                                    try:
                                        caps.append(int(str(c[1]).split("_")[0]))
                                    except ValueError:
                                        pass
                if caps and min(caps) <= 65535:
                    ck.proved(rule, key, f.loc(t["ln"]), "the value passes %s with the constant bound %d before it is formatted" % (sorted(calls & BOUNDS), min(caps)))
                else:
                    ck.undecided(rule, key, f.loc(t["ln"]), "the value passes %s, but no constant bound of at most 65535 was recognised (constants seen: %s)" % (sorted(calls & BOUNDS), caps[:4]))
                continue
            if leaves and all(o[0] == "const" for o in leaves):
                ck.proved(rule, key, f.loc(t["ln"]), "constant width / precision")
                continue
            if not flds:
                ck.undecided(rule, key, f.loc(t["ln"]), "run-time width / precision of unknown origin (%s)" % sorted(calls)[:4])
                continue
            # writers of the field(s) anywhere in the workspace
            text_counts, other, consts = [], [], 0
            for g in p.fns.values():
                if g.get("kind") == "Promoted":
                    continue
                pg = None
                for b in g.blocks:
                    if b["cleanup"]:
                        continue
                    for sx in b["s"]:
                        if sx["k"] != "assign":
                            continue
                        ops = []
                        lhs, rv = sx["lhs"], sx["rv"]
                        if len(lhs) > 1 and isinstance(lhs[-1], list) and lhs[-1][0] == "f" and lhs[-1][2] in flds and rv["k"] == "use":
                            ops.append(rv["op"])
                        if rv["k"] == "agg" and rv.get("agg") == "adt" and len(rv.get("ops", [])) == len(rv.get("fields", [])):
                            for fn_, op in zip(rv["fields"], rv["ops"]):
                                if fn_ in flds and "Number" in str(rv.get("name", "")):
                                    ops.append(op)
                        for op in ops:
                            pg = pg or Prov(g)
                            lv = arg_roots(g, pg, op)
                            cs = {last(norm(o[3] or o[2] or "")) for o in lv if o[0] == "call"}
                            if cs & BOUNDS:
                                consts += 1
                            elif cs & COUNTS:
                                text_counts.append("%s (%s)" % (keyname(p, g), ", ".join(sorted(cs & COUNTS))))
                            elif lv and all(o[0] == "const" for o in lv):
                                consts += 1
                            else:
                                other.append(keyname(p, g))
            if text_counts:
                ck.refuted(rule, key, f.loc(t["ln"]), "the run-time precision is the field %s, which %s fills with a count taken from the text and nothing bounds: a number written with more than 65535 digits behind the decimal point makes Argument::from_usize panic (\"Formatting argument out of range\") as soon as a rule formats the number (CurrencyPlacement::format_amount)" % (sorted(flds), "; ".join(sorted(set(text_counts)))))
            elif other:
                ck.undecided(rule, key, f.loc(t["ln"]), "the run-time precision is the field %s; writers of unknown bound: %s" % (sorted(flds), sorted(set(other))[:4]))
            else:
                ck.proved(rule, key, f.loc(t["ln"]), "the run-time precision is the field %s; all %d writers store constants or bounded values" % (sorted(flds), consts))
    ck.extra["runtime_format_arguments"] = n

def _copy_src(f, l):
    for _ in range(4):
        nxt = None
        cnt = 0
        for b in f.blocks:
            for s in b["s"]:
                if s["k"] == "assign" and s["lhs"] == [l]:
                    cnt += 1
                    if s["rv"]["k"] == "use" and place_of(s["rv"]["op"]) and len(place_of(s["rv"]["op"])) == 1:
                        nxt = place_of(s["rv"]["op"])[0]
        if cnt != 1 or nxt is None:
            return l
        l = nxt
    return l


def _writes_in(f, local, body):
    """classify the assignments to `local` inside the loop body: 'inc' (local = local + positive const,
    possibly through the checked-add tuple) or 'other'"""
    out = []
    for bi in body:
        for s in f.blocks[bi]["s"]:
            if s["k"] != "assign" or s["lhs"] != [local]:
                continue
            rv = s["rv"]
            kind = "other"
            src = None
            if rv["k"] == "bin" and rv["op"] in ("Add", "AddUnchecked"):
                src = rv
            elif rv["k"] == "use":
                pl = place_of(rv["op"])
                if pl and len(pl) == 2 and isinstance(pl[1], list) and pl[1][0] == "f" and pl[1][1] == 0:
                    for b2 in f.blocks:
                        for s2 in b2["s"]:
                            if s2["k"] == "assign" and s2["lhs"] == [pl[0]] and s2["rv"]["k"] == "bin" and s2["rv"]["op"] == "AddWithOverflow":
                                src = s2["rv"]
            if src is not None:
                a, b = src["a"], src["b"]
                ka = b.get("k", {}).get("int")
                if place_of(a) and _copy_src(f, place_of(a)[0]) == local and ka is not None and int(ka) >= 1:
                    kind = "inc"
            out.append(kind)
    return out


def _none_edge(f, t):
    if t["target"] is None:
        return None
    dest = t["dest"][0]
    b = t["target"]
    # `a.get(i).zip(a.get(i + 1))`: None as soon as either is None - follow the Option through zip
    for _ in range(2):
        z = [(bi, t2) for bi, t2 in f.calls() if norm(t2["f"].get("inst") or "") == "core::option::{impl}::zip" and any(place_of(a) == [dest] for a in t2["args"])]
        if len(z) == 1 and z[0][1]["target"] is not None and len(z[0][1]["dest"]) == 1:
            dest = z[0][1]["dest"][0]
            b = z[0][1]["target"]
        else:
            break
    for _ in range(3):
        blk = f.blocks[b]
        disc = None
        for s in blk["s"]:
            if s["k"] == "assign" and s["rv"]["k"] == "discr" and s["rv"]["place"][0] == dest:
                disc = s["lhs"][0]
        sw = blk["t"]
        if sw["k"] == "switch" and disc is not None and place_of(sw["discr"]) == [disc]:
            for v, x in sw["targets"]:
                if v == "0":
                    return x
            # `1 => some, otherwise => none`
            if all(v != "0" for v, _ in sw["targets"]):
                return sw["otherwise"]
        if sw["k"] == "goto":
            b = sw["target"]
            continue
        return None
    return None


# stated beliefs: a helper that asserts a bound on its arguments' lengths ------------------------
EDIT = "harper_core::edit_distance::edit_distance_min_alloc"


def _precond(ck, p):
    """R-C01-precond: edit_distance_min_alloc stores lengths and distances in u8 rows; it states the belief
    `len <= 255` only as a debug assertion.  Either the function handles longer inputs itself on the
    release path (every usize -> u8 narrowing of a length is dominated by a bound), or every call site
    must establish the bound."""
    rule = "R-C01-precond"
    ck.rule(rule, "stated belief vs. callers: every usize->u8 narrowing of a slice length in edit_distance_min_alloc is bounded on the release path (debug assertions ignored), or each call site is dominated by a comparison that bounds the passed lengths")
    byk = fns_by_key(p)
    fs = byk.get(EDIT)
    if not ck.anchor(rule, "edit_distance::edit_distance_min_alloc", fs):
        return
    f = fs[0]
    ck.saw(f)
    import os
    from ..facts import REPO
    src_lines = {}

    def line_text(fn, ln):
        path = os.path.join(REPO, fn.file())
        if path not in src_lines:
            try:
                src_lines[path] = open(path).read().splitlines()
            except OSError:
                src_lines[path] = []
        L = src_lines[path]
        return L[ln - 1] if 0 < ln <= len(L) else ""
    casts = []

    def stmt_post(cx, fn, bb, s, st, v):
        if fn is not f or s["k"] != "assign":
            return None
        rv = s["rv"]
        # `cfg!(debug_assertions)` is a constant of the build profile, not a guard of the shipped code
        if rv["k"] == "use" and "k" in rv["op"] and rv["op"]["k"].get("txt") in ("true", "false") and "debug_assertions" in line_text(fn, s.get("cl") or s["ln"]):
            from ..prover import V_bool
            return V_bool([], [])
        # headroom: a u8 row entry can be as large as the longer input (the distance between two words without a common
        # letter), and the recurrence adds 1 to it: the bound on the lengths has to leave room for that
        if rv["k"] == "bin" and rv["op"] in ("Add", "AddWithOverflow") and "k" in rv["b"] and str(rv["b"]["k"].get("int")) == "1" and "u8" in str(rv["b"]["k"].get("txt", "")) + fn.local_tystr(s["lhs"][0]):
            for ai, av in enumerate(args_box[0] if args_box else []):
                if av[0] == "slice" and "[char]" in fn.local_tystr(ai + 1):
                    goal = Lin.konst(254).sub(av[1])
                    ok = entails(st.facts, goal)
                    if not ok:
                        m = counter_model(st.facts, goal)
                        headroom.append({"ln": s["ln"], "val": cx.show(av[1]), "model": cx.show_model(m) if m else None})
            return None
        if rv["k"] == "cast" and rv["kind"] == "int" and fn.ty(rv["from"])["s"] == "usize" and fn.ty(rv["to"])["s"] == "u8":
            from ..prover import op_val
            ov = op_val(cx, st, rv["op"])
            if ov[0] == "int":
                goal = Lin.konst(255).sub(ov[1])
                ok = entails(st.facts, goal)
                m = None if ok else counter_model(st.facts, goal)
                casts.append({"bb": bb, "ln": s["ln"], "ok": ok, "val": cx.show(ov[1]), "model": cx.show_model(m) if m else None, "opaque": cx.relevant_opaque(st.facts, goal)})
            else:
                casts.append({"bb": bb, "ln": s["ln"], "ok": None, "val": "?", "model": None, "opaque": True})
        return None
    headroom = []
    args_box = []
    cx = Ctx(p, {"stmt_post": stmt_post})
    args, fsx = generic_args(cx, f)
    args_box.append(args)
    analyze(cx, f, args, fsx)
    if headroom:
        h = headroom[0]
        ck.refuted(rule, "edit_distance_min_alloc:headroom", f.loc(h["ln"]), "a u8 row entry is incremented (line %d) while %s may be 255 (%s): a row entry can be as large as the longer input, so for a 255-letter word the increment overflows u8 - a panic in builds with overflow checks, a wrong distance otherwise" % (h["ln"], h["val"], h["model"]))
    else:
        ck.proved(rule, "edit_distance_min_alloc:headroom", f.span, "where a u8 row entry is incremented both input lengths are at most 254")
    byb = {}
    for c in casts:
        old = byb.get(c["bb"])
        if old is None or (old["ok"] is True and c["ok"] is not True):
            byb[c["bb"]] = c
    ck.floor(rule, "usize->u8 narrowings of lengths in edit_distance_min_alloc", len(byb), 1)
    unbounded = [c for c in byb.values() if c["ok"] is not True]
    if not unbounded:
        ck.proved(rule, "edit_distance_min_alloc:self-guard", f.span, "every usize->u8 narrowing (%d) is dominated by a bound on the release path: over-long inputs are handled inside the function" % len(byb))
        return
    witness = [c for c in unbounded if c["ok"] is False and not c["opaque"] and c["model"]]
    # call sites
    sites = []
    for g in p.fns.values():
        for bi, t in g.calls():
            if (t["f"].get("inst") or "") == EDIT:
                sites.append((g, bi, t))
    ck.floor(rule, "call sites of edit_distance_min_alloc", len(sites), 1)
    for g, bi, t in sites:
        ck.saw(g)
        cfg = Cfg(g)
        guarded = False
        for b2, blk in enumerate(g.blocks):
            for s2 in blk["s"]:
                if s2["k"] == "assign" and s2["rv"]["k"] == "bin" and s2["rv"]["op"] in ("Le", "Lt", "Gt", "Ge"):
                    ks = [x.get("k", {}).get("int") for x in (s2["rv"]["a"], s2["rv"]["b"])]
                    if any(k is not None and int(k) <= 256 for k in ks) and cfg.dominates(b2, bi) and _len_derived(g, s2["rv"]):
                        guarded = True
        key = "edit_distance_min_alloc<-%s" % keyname(p, g)
        if guarded:
            ck.undecided(rule, key, g.loc(t["ln"]), "a length comparison dominates the call; whether it bounds both arguments by 255 is not decided")
        elif witness:
            ck.refuted(rule, key, g.loc(t["ln"]), "edit_distance_min_alloc narrows %s to u8 (it states `len <= 255` only as a debug assertion) and this caller passes slices of unconstrained length: for %s the u8 rows wrap and the index/arithmetic checks in the loop panic" % (witness[0]["val"], witness[0]["model"]))
        else:
            ck.undecided(rule, key, g.loc(t["ln"]), "narrowing not proved bounded; no free counter-assignment")


def _len_derived(g, rv):
    from ..prov import Prov, flatten
    pv = Prov(g)
    for side in ("a", "b"):
        for o in flatten(pv.trace_operand(rv[side])):
            if o[0] == "call" and last(norm(o[3] or o[2] or "")) == "len":
                return True
    return False


# helpers that must be total ---------------------------------------------------------------------------
PANICKY = {"index", "index_mut", "swap", "drain", "split_off", "remove", "swap_remove", "insert", "unwrap", "expect", "copy_within", "rotate_left", "rotate_right",
           "split_at", "split_at_mut", "chunks", "chunks_exact", "windows", "copy_from_slice", "clone_from_slice", "get_unchecked", "get_unchecked_mut", "set_len", "from_raw_parts"}


def _total(ck, p):
    """VecExt::remove_indices documents `assumes sorted indices`, but not every caller establishes that
    (Markdown::remove_hidden_wikilink_tokens builds its queue per pipe token and restarts from the opening
    bracket when one link has two pipes).  The helper therefore has to be total: no panicking operation."""
    rule = "R-C01-total"
    ck.rule(rule, "VecExt::remove_indices is total: its body and closures contain no operation that can panic (no indexing, swap, drain, split_off, remove, insert, unwrap/expect, subtraction overflow; additions of counters excepted) - its callers do not all establish the `sorted indices` assumption it documents")
    byk = fns_by_key(p)
    fs = byk.get("<Vec as VecExt>::remove_indices")
    if not ck.anchor(rule, "<Vec as VecExt>::remove_indices", fs):
        return
    f = fs[0]
    bad = []
    n_ops = 0
    bodies = [f]
    todo = [f]
    while todo:
        x = todo.pop()
        for c in p.closures_of(x.name):
            bodies.append(c)
            todo.append(c)
    for b in bodies:
        ck.saw(b)
        for bi, blk in enumerate(b.blocks):
            if blk["cleanup"]:
                continue
            t = blk["t"]
            n_ops += 1
            if t["k"] == "assert":
                msg = t.get("msg")
                op = str(t.get("op", ""))
                if msg == "overflow" and op.startswith("Add"):
                    continue
                bad.append((t.get("ln"), "a checked %s%s" % (msg, " (%s)" % op if op else "")))
            elif t["k"] == "call":
                m = method(t)
                if m in PANICKY:
                    bad.append((t.get("ln"), "%s()" % m))
            for sx in blk["s"]:
                if sx["k"] == "assign":
                    for pl in [sx["lhs"]] + ([place_of(sx["rv"]["op"])] if sx["rv"]["k"] == "use" and place_of(sx["rv"]["op"]) else []):
                        if pl and any(isinstance(e, list) and e[0] == "i" for e in pl[1:]):
                            bad.append((sx.get("ln"), "an indexed place"))
    # who calls it with a queue that is not the ascending counter of one scan
    if bad:
        ck.refuted(rule, "<Vec@VecExt>::remove_indices", f.loc(bad[0][0]), "the helper contains %s: a queue with a repeated or out-of-order index (which Markdown::remove_hidden_wikilink_tokens produces for a rejected wikilink with two pipes, e.g. `[[||]]`) makes it panic" % ", ".join(sorted({w for _, w in bad})))
    else:
        ck.proved(rule, "<Vec@VecExt>::remove_indices", f.span, "no panicking operation among the %d terminators of the helper and its closures" % n_ops)


def _twin_scans(ck, p):
    """Span::new(first position from the front, len - first position from the back): start <= end holds because both
    scans skip the SAME characters (an all-skipped text gives start = end = len).  Different predicates break it."""
    import json as _json
    rule = "R-C01-span"
    n = 0
    for f in sorted(p.fns.values(), key=lambda f: f.name):
        if not SCOPE.match(f.name) or f.get("kind") in ("Closure", "Promoted"):
            continue
        spans = [(bi, t) for bi, t in f.calls() if norm(t["f"].get("inst") or "") == "harper_core::span::{impl}::new"]
        poss = [(bi, t) for bi, t in f.calls() if method(t) in ("position", "rposition")]
        if not spans or len(poss) != 2:
            continue
        from ..prov import Prov, flatten
        pv = Prov(f)
        # both positions feed the same Span::new, one per operand
        feeds = []
        for sb, st in spans:
            for ai, a in enumerate(st["args"][:2]):
                for o in flatten(pv.trace_operand(a)):
                    pass
            roots = [set(o[1] for o in _call_roots(f, pv, a) if o[0] == "call") for a in st["args"][:2]]
            if poss[0][0] in roots[0] | roots[1] and poss[1][0] in roots[0] | roots[1] and not ({poss[0][0], poss[1][0]} <= roots[0]) and not ({poss[0][0], poss[1][0]} <= roots[1]):
                feeds.append((sb, st))
        if not feeds:
            continue
        clos = []
        for pb, pt in poss:
            for o in pv.trace_operand(pt["args"][1]):
                if o[0] == "agg" and o[1] == "closure":
                    c = p.fns.get(o[2])
                    if c is not None:
                        clos.append(c)
        if len(clos) != 2:
            continue
        n += 1
        ck.saw(f)

        def strip(o):
            if isinstance(o, dict):
                return {k: strip(v) for k, v in sorted(o.items()) if k not in ("ln", "cl", "exp", "ty", "span", "loc")}
            if isinstance(o, list):
                return [strip(x) for x in o]
            return o

        def shape(c):
            out = []
            for b in c.blocks:
                if b["cleanup"]:
                    continue
                out.append([strip(sx) for sx in b["s"] if sx["k"] == "assign"])
                t = b["t"]
                out.append([t["k"], (t.get("f") or {}).get("inst") or (t.get("f") or {}).get("def") or "", strip(t.get("args", [])), strip(t.get("targets", "")), strip(t.get("discr", ""))])
            return _json.dumps(out, sort_keys=True).replace(c.name, "C")
        same = shape(clos[0]) == shape(clos[1])
        key = "%s:twin-scans" % keyname(p, f)
        if same:
            ck.proved(rule, key, f.loc(feeds[0][1]["ln"]), "the forward and the backward scan that bound the span use the same predicate (identical closure bodies): start <= end")
            continue
        # different text: compare the two predicates on every character class either of them can distinguish
        from ..interp import Interp, Stuck
        consts = set()

        def collect(c, seen):
            if c.name in seen:
                return
            seen.add(c.name)
            for b in c.blocks:
                def walk(o):
                    if isinstance(o, dict):
                        if "int" in o and str(o.get("txt", "")).startswith("'"):
                            consts.add(int(o["int"]))
                        for v in o.values():
                            walk(v)
                    elif isinstance(o, list):
                        for v in o:
                            walk(v)
                walk(b["s"])
                t = b["t"]
                if t["k"] == "switch":
                    for v, _ in t["targets"]:
                        if 1 < int(v) < 0x110000:
                            consts.add(int(v))
                if t["k"] == "call":
                    g = p.fns.get(inst_of(t)) or p.fns.get(norm(inst_of(t)))
                    if g is not None:
                        collect(g, seen)
        for c in clos:
            collect(c, set())
        classes = set(consts)
        for v in list(consts):
            classes.update((v - 1, v + 1))
        classes.update(ord(x) for x in " \tazAZ09_.\u00e9\u3000")
        classes = sorted(v for v in classes if 0 < v < 0x110000 and not 0xD800 <= v < 0xE000)

        def ev(c, ch, depth=0, args=None):
            if depth > 6:
                raise Stuck("helper nesting")
            def call(t, a):
                inst = norm(inst_of(t))
                g = p.fns.get(inst_of(t)) or p.fns.get(inst)
                if last(inst) == "is_whitespace" and a and a[0][0] == "char":
                    return ("bool", chr(a[0][1]).isspace())
                if g is not None and a and all(x[0] in ("char", "bool", "int") for x in a):
                    return ev(g, None, depth + 1, a)
                raise Stuck("call to %s" % inst)
            env = {}
            if args is None:
                env[2] = ("char", ch)
            else:
                for i, x in enumerate(args):
                    env[i + 1] = x
            r, _ = Interp(c, max_steps=400).run(env, hooks={"call": call})
            if r[0] != "bool":
                raise Stuck("predicate result is %s" % (r,))
            return r
        diff = None
        try:
            for ch in classes:
                r0, r1 = ev(clos[0], ch), ev(clos[1], ch)
                if r0 != r1:
                    diff = (ch, r0[1], r1[1])
                    break
        except Stuck as e:
            ck.undecided(rule, key, f.loc(feeds[0][1]["ln"]), "the forward and backward scans use differently written predicates and one of them is beyond the evaluator (%s)" % e)
            continue
        if diff is None:
            ck.proved(rule, key, f.loc(feeds[0][1]["ln"]), "the forward and backward scans use differently written predicates that agree on all %d character classes either can distinguish: start <= end" % len(classes))
        else:
            ck.refuted(rule, key, f.loc(feeds[0][1]["ln"]), "the span runs from the first character the forward scan keeps to the last character the backward scan keeps, but the scans disagree on %r (forward keeps it: %s, backward keeps it: %s): a text whose only kept character under one scan is %r gives start > end and Span::new panics" % (chr(diff[0]), diff[1], diff[2], chr(diff[0])))
    ck.extra["twin_scan_sites"] = n


def _call_roots(f, pv, op, depth=0, seen=None):
    from ..common import arg_roots
    return arg_roots(f, pv, op)


def _md_breaks(ck, p):
    """A Markdown block break is placed behind the tokens of the block it closes.  pulldown-cmark's End events carry the
    range of the whole block, so the translator's cursor still points at the start of the block's last run of text when
    the break is pushed; a break placed at the bare cursor precedes tokens of its own block, and a rule that builds
    Span::new(first.span.start, last.span.end) over a sentence ending in that break (LongSentences) panics."""
    rule = "R-C01-span"
    fs = [f for f in p.fns.values() if keyname(p, f) == "<Markdown as Parser>::parse"]
    if not ck.anchor(rule, "<Markdown as Parser>::parse", fs):
        return
    f = fs[0]
    ck.saw(f)
    from ..prov import Prov, flatten
    from ..common import arg_roots
    pv = Prov(f)
    sites = []
    for bi, b in enumerate(f.blocks):
        if b["cleanup"]:
            continue
        for sx in b["s"]:
            if sx["k"] == "assign" and sx["rv"]["k"] == "agg" and str(sx["rv"].get("name", "")).endswith("token::Token"):
                kinds = [o for op in sx["rv"]["ops"] for o in pv.trace_operand(op) if o[0] == "agg" and o[1] == "adt" and "ParagraphBreak" in str(o)]
                if kinds:
                    sites.append((bi, sx))
    if not ck.anchor(rule, "ParagraphBreak tokens built in Markdown::parse", sites):
        return
    for i, (bi, sx) in enumerate(sites):
        span_op = sx["rv"]["ops"][0]
        roots = arg_roots(f, pv, span_op)
        names = {last(norm(o[3] or o[2] or "")) for o in roots if o[0] == "call"}
        key = "<Markdown@Parser>::parse:break-placement%s" % ("" if i == 0 else ":%d" % i)
        behind = bool(names & {"last", "max", "last_mut"}) or any("span" in str(o) and "end" in str(o) for o in flatten(pv.trace_operand(span_op)) if o[0] == "field")
        if behind:
            ck.proved(rule, key, f.loc(sx["ln"]), "the break's position derives from the end of the last token pushed (%s)" % sorted(names & {"last", "max", "new_with_len"}))
        else:
            ck.refuted(rule, key, f.loc(sx["ln"]), "the block break is placed at the bare cursor (%s): an End event carries the range of the whole block, so the cursor still points at the start of the block's last run of text and the break precedes tokens of its own block; a sentence slice that ends in it has last.span.end < first.span.start, and LongSentences' Span::new(first.start, last.end) panics for a sentence of more than 40 words that does not open its paragraph and has no full stop" % sorted(names))


# ---------------------------------------------------------------------------------------------------
PANIC_CALLEES = re.compile(r"^(core::panicking::(panic|panic_fmt|panic_explicit|unreachable_display|panic_display|panic_str_2015|panic_nounwind)|std::rt::begin_panic|core::panicking::panic_const::.*)$")
VARLEN_STEPS = ("then_whitespace", "then_one_or_more")


def _matchlen(ck, p):
    """A pattern rule's match_to_lint is handed exactly the tokens its pattern matched.  Where the body
    switches on how many there are and panics in the default arm (unreachable!(), panic!()), the count
    must be one of a fixed set - which it is not once the pattern has a step that matches a *run* of
    tokens: WhitespacePattern (then_whitespace) takes every consecutive whitespace token, and a blank
    followed by a line break is two tokens."""
    rule = "R-C01-matchlen"
    ck.rule(rule, "linting: a PatternLinter::match_to_lint body that switches on matched_tokens.len() and panics in the default arm (unreachable!/panic!) belongs to a pattern without variable-length steps (then_whitespace / WhitespacePattern, then_one_or_more, RepeatingPattern): a run of whitespace tokens - a blank followed by a line break - otherwise produces a length the arms do not list")
    impls = [f for f in p.fns.values() if f.name.startswith("harper_core::linting::") and f.name.endswith("::match_to_lint") and f.get("kind") != "Closure"]
    ck.floor(rule, "PatternLinter::match_to_lint bodies in harper_core::linting", len(impls), 26)
    sites = 0
    for f in sorted(impls, key=lambda x: x.name):
        cfg = Cfg(f)
        pv = Prov(f)
        panics = [(bi, t) for bi, t in f.calls() if bi in cfg.reach0 and PANIC_CALLEES.match(norm(inst_of(t)) or "") and not f.blocks[bi]["cleanup"]]
        if not panics:
            continue
        lens = []
        for bi, b in enumerate(f.blocks):
            t = b["t"]
            if t["k"] != "switch" or bi not in cfg.reach0:
                continue
            for o in arg_roots(f, pv, t["discr"]):
                if o[0] == "call" and method(f.blocks[o[1]]["t"]) == "len":
                    la = f.blocks[o[1]]["t"]["args"]
                    if la and ("arg", 2) in arg_roots(f, pv, la[0]):
                        lens.append(bi)
        for bi, t in panics:
            gate = [sb for sb in lens if f.blocks[sb]["t"].get("otherwise") is not None and (f.blocks[sb]["t"]["otherwise"] == bi or bi in cfg.reachable_from([f.blocks[sb]["t"]["otherwise"]], avoid=[x for _, x in f.blocks[sb]["t"]["targets"]]))]
            if not gate:
                continue
            sites += 1
            ck.saw(f)
            key = "%s:default-arm" % keyname(p, f)
            mod = f.name.rsplit("::", 2)[0]
            mod = re.sub(r"::\{impl[^}]*\}$", "", mod)
            var = []
            for g in p.fns.values():
                if g.name.startswith(mod + "::") and g is not f:
                    for _, ct in g.calls():
                        m = method(ct)
                        if m in VARLEN_STEPS or "WhitespacePattern" in str(inst_of(ct)) or "RepeatingPattern" in str(inst_of(ct)):
                            var.append("%s (%s)" % (m, g.loc(ct["ln"])))
            arms = sorted(v for v, _ in f.blocks[gate[0]]["t"]["targets"])
            if var:
                ck.refuted(rule, key, f.loc(t["ln"]), "the body panics unless matched_tokens.len() is one of %s, but the rule's pattern has variable-length steps: %s - with a blank followed by a line break between two of the words the whitespace step matches two tokens and the length is none of those" % (arms, ", ".join(sorted(set(var))[:4])))
            else:
                ck.proved(rule, key, f.loc(t["ln"]), "default arm after arms %s panics; the pattern of this rule is built without variable-length steps (no then_whitespace / then_one_or_more / RepeatingPattern in %s)" % (arms, mod))
    ck.floor(rule, "match_to_lint bodies with a length switch whose default arm panics", sites, 1)


CHAR_METHODS = {
    "is_whitespace": lambda x: x.isspace(),
    "is_ascii_whitespace": lambda x: x in " \t\n\r\x0c",
    "is_ascii_digit": lambda x: "0" <= x <= "9",
    "is_ascii_hexdigit": lambda x: x in "0123456789abcdefABCDEF",
    "is_ascii_alphabetic": lambda x: ("a" <= x <= "z") or ("A" <= x <= "Z"),
    "is_ascii_alphanumeric": lambda x: ("a" <= x <= "z") or ("A" <= x <= "Z") or ("0" <= x <= "9"),
    "is_ascii_uppercase": lambda x: "A" <= x <= "Z",
    "is_ascii_lowercase": lambda x: "a" <= x <= "z",
    "is_ascii_punctuation": lambda x: x in "!\"#$%&'()*+,-./:;<=>?@[\\]^_`{|}~",
    "is_ascii": lambda x: ord(x) < 128,
    "is_ascii_control": lambda x: ord(x) < 32 or ord(x) == 127,
    "is_alphabetic": lambda x: x.isalpha(),
    "is_numeric": lambda x: x.isnumeric(),
    "is_alphanumeric": lambda x: x.isalnum(),
    "is_control": lambda x: ord(x) < 32 or 127 <= ord(x) < 160,
}


def eval_char_pred(p, c, ch, depth=0, args=None):
    """evaluate a closure / function over one character (the closure's argument is `&char` or `char`);
    returns a bool or raises interp.Stuck"""
    from ..interp import Interp, Stuck
    if depth > 6:
        raise Stuck("helper nesting")

    def call(t, a):
        inst = norm(inst_of(t))
        g = p.fns.get(inst_of(t)) or p.fns.get(inst)
        if a and a[0][0] == "char" and "char::methods" in inst and last(inst) in CHAR_METHODS:
            return ("bool", bool(CHAR_METHODS[last(inst)](chr(a[0][1]))))
        if g is not None and a and all(x[0] in ("char", "bool", "int") for x in a):
            return ("bool", eval_char_pred(p, g, None, depth + 1, a))
        raise Stuck("call to %s" % inst)
    env = {}
    if args is None:
        ty = c.local_tystr(2) or ""
        if "(usize, &char)" in ty or "(usize, char)" in ty:
            env[2] = ("tuple", [("int", 0), ("char", ch)])
        else:
            env[2] = ("char", ch)
    else:
        for i, x in enumerate(args):
            env[i + 1] = x
    r, _ = Interp(c, max_steps=400).run(env, hooks={"call": call})
    if r[0] != "bool":
        raise Stuck("predicate result is %s" % (r,))
    return r[1]


# ---------------------------------------------------------------------------------------------------
DIV_SCOPE = re.compile(r"^(harper_core|harper_comments|harper_html|harper_typst|harper_literate_haskell|harper_tree_sitter|harper_ls::git_commit_parser)(::|$)")


def _div(ck, p):
    """integer division and remainder panic on a zero divisor (there is no wrapping form in use)"""
    from ..util import const_int
    rule = "R-C01-div"
    ck.rule(rule, "every integer division / remainder on the document-building and linting paths has a divisor that cannot be zero: a non-zero constant, or a value tested against zero on the way; a counter (starts at 0, incremented under a condition inside a loop) or an element count used as a divisor without such a test is zero for a text in which the condition never holds")
    n = 0
    for f in sorted((g for g in p.fns.values() if DIV_SCOPE.match(g.name)), key=lambda g: g.name):
        sites = [(bi, b) for bi, b in enumerate(f.blocks) if not b["cleanup"] and b["t"]["k"] == "assert" and b["t"].get("msg") in ("div0", "rem0")]
        if not sites:
            continue
        ck.saw(f)
        cfg = Cfg(f)
        pv = Prov(f)
        for k, (bi, b) in enumerate(sites):
            if bi not in cfg.reach0:
                continue
            n += 1
            key = "%s:%s#%d" % (keyname(p, f), "div" if b["t"]["msg"] == "div0" else "rem", k)
            where = f.loc(b["t"].get("ln", 0))
            cl = place_of(b["t"]["cond"])
            test = None
            for sx in b["s"]:
                if sx["k"] == "assign" and cl and sx["lhs"] == cl and sx["rv"]["k"] == "bin" and sx["rv"]["op"] == "Eq":
                    test = sx["rv"]
            if test is None:
                ck.undecided(rule, key, where, "the zero test of this division was not found in its block")
                continue
            c = const_int(test["a"])
            if c is not None:
                ck.decide(rule, key, c != 0, where, "constant divisor %d" % c)
                continue
            dl = place_of(test["a"])
            # follow plain copies back to the variable
            root = dl[0] if dl and len(dl) == 1 else None
            for _ in range(6):
                ds = [x for (b2, si, kk, x) in pv.defs.get(root, [])] if root is not None else []
                if len(ds) == 1 and ds[0].get("k") == "assign" and ds[0]["rv"]["k"] == "use" and place_of(ds[0]["rv"]["op"]) and len(place_of(ds[0]["rv"]["op"])) == 1:
                    root = place_of(ds[0]["rv"]["op"])[0]
                else:
                    break
            if root is None:
                ck.undecided(rule, key, where, "the divisor is not a plain variable; whether it can be zero is not decided")
                continue
            aliases = {root}
            for l, ds in pv.defs.items():
                for (b2, si, kk, x) in ds:
                    if kk == "assign" and x["rv"]["k"] == "use" and place_of(x["rv"]["op"]) == [root]:
                        aliases.add(l)
            # guard: a switch that dominates the division, decided by the variable (directly or through a
            # comparison with a constant), whose arm for "the variable is 0" cannot reach the division
            guarded = False
            for gb, blk in enumerate(f.blocks):
                if blk["cleanup"] or blk["t"]["k"] != "switch" or gb == bi or not cfg.dominates(gb, bi):
                    continue
                sw = blk["t"]
                d = place_of(sw["discr"])
                zero_arm = None
                if d and len(d) == 1 and d[0] in aliases:
                    zero_arm = dict((v, x) for v, x in sw["targets"]).get("0", sw.get("otherwise"))
                elif d:
                    r0 = _cmp_at_zero(f, pv, d[0], aliases)
                    if r0 is not None:
                        zero_arm = dict((v, x) for v, x in sw["targets"]).get("1" if r0 else "0", sw.get("otherwise"))
                if zero_arm is not None and bi not in cfg.reachable_from([zero_arm]):
                    guarded = True
            defs = [x for (b2, si, kk, x) in pv.defs.get(root, []) if kk == "assign"]
            calls = [x for (b2, si, kk, x) in pv.defs.get(root, []) if kk == "call"]
            zero_init = any(x["rv"]["k"] == "use" and const_int(x["rv"]["op"]) == 0 for x in defs)
            incs = [x for x in defs if x["rv"]["k"] == "use" and place_of(x["rv"]["op"]) and len(place_of(x["rv"]["op"])) == 2]
            counter = zero_init and len(incs) >= 1 and len(incs) + 1 == len(defs) and not calls
            counted = any(method(x) in ("count", "len") for x in calls) and not defs
            names = f.debug_names()
            nm = names.get(root, "_%d" % root)
            if guarded:
                ck.proved(rule, key, where, "the divisor `%s` is compared with a constant (or matched on) before the division" % nm)
            elif counter or counted:
                ck.refuted(rule, key, where, "the divisor `%s` is %s and is not tested before the division: for a text in which nothing is counted it is 0 and the division panics (attempt to divide by zero)" % (nm, "a counter that starts at 0 and is only incremented under a condition" if counter else "an element count"))
            else:
                ck.undecided(rule, key, where, "whether the divisor `%s` can be zero is not decided" % nm)
    ck.floor(rule, "integer divisions / remainders in the front ends and rules", n, 4)


def _cmp_at_zero(f, pv, l, aliases):
    """l = <alias> op <const> (or the reverse): the value of the comparison when the alias is 0; None if l is not that"""
    from ..util import const_int
    for (b2, si, kk, x) in pv.defs.get(l, []):
        if kk != "assign" or x["rv"]["k"] != "bin" or x["rv"]["op"] not in ("Eq", "Ne", "Gt", "Ge", "Lt", "Le"):
            continue
        a, b = x["rv"]["a"], x["rv"]["b"]

        def is_alias(o):
            pl = place_of(o)
            if not pl or len(pl) != 1:
                return False
            cur = pl[0]
            for _ in range(4):
                if cur in aliases:
                    return True
                ds = [y for (b3, s3, k3, y) in pv.defs.get(cur, []) if k3 == "assign"]
                if len(ds) == 1 and ds[0]["rv"]["k"] == "use" and place_of(ds[0]["rv"]["op"]) and len(place_of(ds[0]["rv"]["op"])) == 1:
                    cur = place_of(ds[0]["rv"]["op"])[0]
                else:
                    return False
            return False
        ops = {"Eq": lambda u, v: u == v, "Ne": lambda u, v: u != v, "Gt": lambda u, v: u > v, "Ge": lambda u, v: u >= v, "Lt": lambda u, v: u < v, "Le": lambda u, v: u <= v}
        if is_alias(a) and const_int(b) is not None:
            return ops[x["rv"]["op"]](0, const_int(b))
        if is_alias(b) and const_int(a) is not None:
            return ops[x["rv"]["op"]](const_int(a), 0)
    return None


# ---------------------------------------------------------------------------------------------------
INT_TYS = {"u8", "u16", "u32", "u64", "u128", "usize", "i8", "i16", "i32", "i64", "i128", "isize"}


def _intparse(ck, p):
    """Parsing digits into a fixed-width integer fails on overflow however carefully the characters were
    validated: the number of digits in a text is not bounded.  A front end that unwraps such a parse panics
    on the keystroke that adds the digit too many."""
    rule = "R-C01-intparse"
    ck.rule(rule, "no front end unwraps the result of parsing text into a fixed-width integer (from_str_radix, str::parse::<int>): validation of the characters does not bound their number, and the parse fails with PosOverflow on a literal that is too long (a 0x-prefixed hash or address) - the error has to lead to `not this kind of token`, not to a panic")
    n = 0
    bad = []
    for f in sorted((g for g in p.fns.values() if DIV_SCOPE.match(g.name)), key=lambda g: g.name):
        pv = None
        for bi, t in f.calls():
            if method(t) not in ("from_str_radix", "parse", "from_str"):
                continue
            inst = norm(inst_of(t) or def_of(t) or "")
            if method(t) == "parse" and "core::str" not in inst:
                continue
            if method(t) in ("from_str_radix",) or True:
                dty = f.local_tystr(t["dest"][0]) if t.get("dest") else ""
                m = re.search(r"Result<(\w+),", dty or "")
                if not m or m.group(1) not in INT_TYS:
                    continue
            n += 1
            pv = pv or Prov(f)
            for b2, t2 in f.calls():
                if method(t2) in ("unwrap", "expect", "unwrap_unchecked") and t2["args"] and any(o[0] == "call" and o[1] == bi for o in arg_roots(f, pv, t2["args"][0])):
                    bad.append((f, t2, t, m.group(1)))
    ck.floor(rule, "integer parses of text in the front ends", n, 1)
    for f, t2, t, ty in bad:
        ck.saw(f)
        ck.refuted(rule, "%s:%s" % (keyname(p, f), method(t)), f.loc(t2["ln"]), "%s of the result of %s into %s: for a run of valid digits that does not fit the type the parse returns Err(PosOverflow) and this panics - e.g. a 0x-prefixed literal with more than 16 hex digits (an address, a digest); the text is typed digit by digit, so the panic arrives with one keystroke" % (method(t2), method(t), ty))
    if not bad:
        ck.proved(rule, "integer-parses", "", "%d integer parse(s) of text in the front ends; none is unwrapped" % n)


# ---------------------------------------------------------------------------------------------------
def _typst_range(ck, p):
    """typst-syntax represents a child that is missing from the source (`#set ` before its target is typed,
    `#f(..)`) by a default node with a *detached* span, for which Source::range returns None."""
    rule = "R-C01-detached"
    ck.rule(rule, "the Typst front end never unwraps Source::range(span): for a child that is missing from the source - every state of a code expression while it is being typed - typst-syntax's typed accessors return a default node with a detached span, and range() is None")
    n = 0
    bad = []
    for f in sorted((g for g in p.fns.values() if g.name.startswith("harper_typst::")), key=lambda g: g.name):
        pv = None
        for bi, t in f.calls():
            i = norm(inst_of(t) or def_of(t) or "")
            if not (method(t) == "range" and "typst_syntax" in i and "source" in i.lower()):
                continue
            n += 1
            pv = pv or Prov(f)
            for b2, t2 in f.calls():
                if method(t2) in ("unwrap", "expect", "unwrap_unchecked") and t2["args"] and any(o[0] == "call" and o[1] == bi for o in pv.trace_operand(t2["args"][0])):
                    bad.append((f, t2))
    ck.floor(rule, "Source::range calls in harper-typst", n, 2)
    seen = set()
    for f, t2 in bad:
        k = "%s:range-unwrap" % keyname(p, f)
        if k in seen:
            continue
        seen.add(k)
        ck.saw(f)
        ck.refuted(rule, k, f.loc(t2["ln"]), "%s of Source::range(span): the span of a node that is missing from the source is detached and has no range - `#set `, `#show : `, `#for x in `, `#f(..)`, `#{a.b.}` (what a user has on screen while typing a code expression) panic here" % method(t2))
    if not bad:
        ck.proved(rule, "range-results", "", "%d Source::range call(s); none is unwrapped" % n)


# ---------------------------------------------------------------------------------------------------
def _kept_neighbour(ck, p):
    """byte_spans_to_char_spans drops spans that overlap an earlier one and then walks the rest assuming they
    are disjoint and ascending (it slices source[last_end..start]).  The filter therefore has to compare each
    span with the last one it KEPT.  Comparing with the previous element of a copy taken before the filtering
    lets a span through whose predecessor was itself dropped: outer comment kept, first inner comment dropped,
    second inner comment compared with the dropped one - kept - and the slice runs backwards."""
    rule = "R-C01-kept"
    ck.rule(rule, "the overlap filter in front of byte_spans_to_char_spans' cursor walk compares each span with the last span it kept (a running state assigned where it returns true), not with an element of a copy of the unfiltered vector: the walk slices source[previous end .. next start] and panics when a kept span starts inside the previous kept one (two sibling comments nested in a third)")
    byk = fns_by_key(p)
    fs = byk.get("harper_tree_sitter::byte_spans_to_char_spans")
    if not ck.anchor(rule, "harper_tree_sitter::byte_spans_to_char_spans", fs):
        return
    f = fs[0]
    ck.saw(f)
    pv = Prov(f)
    rets = [(bi, t) for bi, t in f.calls() if method(t) in ("retain", "retain_mut", "dedup_by", "filter")]
    key = "byte_spans_to_char_spans:overlap-filter"
    if not rets:
        ck.undecided(rule, key, f.span, "no retain / dedup_by on the span vector found: how overlapping spans are removed is not of a recognised form")
        return
    clones = {t["dest"][0] for bi, t in f.calls() if method(t) == "clone" and t.get("dest") and "Vec<" in (f.local_tystr(t["dest"][0]) or "")}
    verdict = None
    for bi, t in rets:
        for x in pv.trace_operand(t["args"][-1]):
            if not (x[0] == "agg" and x[1] == "closure" and x[2] in p.fns):
                continue
            c = p.fns[x[2]]
            ck.saw(c)
            ups = c.get("upvar_tys") or []
            reads_copy = any(method(t2) in ("get", "index", "get_unchecked", "first", "last", "iter") and t2["args"] and "Vec<" in (c.local_tystr(place_of(t2["args"][0])[0]) or "") + str(c.local_tystr(1)) and "Span" in str(c.local_tystr(1)) for _, t2 in c.calls())
            idx_copy = any(method(t2) in ("get", "index", "get_unchecked") for _, t2 in c.calls())
            cpv = Prov(c)

            def through_upvar(l):
                return any(kind == "assign" and x["rv"]["k"] == "use" and place_of(x["rv"]["op"]) and place_of(x["rv"]["op"])[0] == 1 for (_, _, kind, x) in cpv.defs.get(l, []))
            state_writes = []
            for b in c.blocks:
                if b["cleanup"]:
                    continue
                keeps = any(sx["k"] == "assign" and sx["lhs"] == [0] and sx["rv"]["k"] == "use" and str(sx["rv"]["op"].get("k", {}).get("txt")) == "true" for sx in b["s"])
                for sx in b["s"]:
                    if sx["k"] == "assign" and len(sx["lhs"]) >= 2 and (sx["lhs"][0] == 1 or through_upvar(sx["lhs"][0])) and keeps:
                        state_writes.append(sx)
            if idx_copy and clones:
                verdict = ("refuted", c.loc(c.blocks[0]["t"].get("ln", 0)) if c.blocks else f.span)
            elif state_writes and not idx_copy:
                verdict = verdict or ("proved", f.span)
    if verdict is None:
        ck.undecided(rule, key, f.span, "the filter closure neither indexes a copy of the vector nor keeps a running state: not of a recognised form")
    elif verdict[0] == "refuted":
        ck.refuted(rule, key, verdict[1], "the filter decides by an element of a copy of the vector taken before filtering (its sorted predecessor), which may itself have been removed: with two sibling comments nested in a third (Scala `/* /* one */ /* two */ */`) the second inner span is compared with the dropped first one, kept, and the conversion then slices source[25..12] and panics")
    else:
        ck.proved(rule, key, f.span, "the filter keeps a running state that it assigns where it keeps a span, and indexes no copy of the vector")
