"""C19 — the statistics log reads back what was written (format discipline).

One compact JSON document per line, same record type on both sides, append mode, symmetric serde
derive over the whole Record graph, one count per applied lint.  The value round trip itself
(e.g. non-finite numbers) is not decided.
"""
import re

from .. import facts, serde_audit
from ..cfg import Cfg
from ..common import arg_fields, arg_roots, calls_to, def_of, inst_of, method, target_of
from ..prov import Prov, flatten
from ..util import fns_by_key, keyname, place_of, const_str, norm, last

LEVEL = "other"


def run(ck, tier):
    ck.rule("R-C19-line", "Stats::write: per record one serde_json *compact* serialisation (type-resolved formatter) followed on every path by exactly one newline write, errors propagated; Stats::read: BufRead::lines + serde_json::from_str::<Record>, pushed in order")
    ck.rule("R-C19-append", "Backend::save_stats opens the log with append(true) and without truncate/File::create; harper_wasm import_stats_file appends to the record list")
    ck.rule("R-C19-serde", "the type graph of Record derives Serialize+Deserialize with no asymmetric attribute")
    ck.rule("R-C19-count", "Stats::summarize calls inc_lint_count once per Lint record (outside the inner token loop); inc_lint_count adds 1 to total_applied exactly once")
    ck.not_decided += ["value round trip of every field (e.g. a Number token holding a non-finite float serialises to null)", "serde_json's escaping of control characters inside strings (trusted property of the library)"]
    ck.assumptions += ["serde_json's compact formatter never emits a raw newline (control characters in strings are escaped)"]
    p = facts.load()
    byk = fns_by_key(p)
    _write(ck, p, byk)
    _read(ck, p, byk)
    _append(ck, p, byk)
    n = serde_audit.audit(ck, p, "R-C19-serde", "harper_stats::record::Record", "Record")
    ck.floor("R-C19-serde", "ADTs in the serde graph of Record", n, 9)
    _count(ck, p, byk)
    _finite(ck, facts.load())


def _write(ck, p, byk):
    rule = "R-C19-line"
    fs = byk.get("Stats::write")
    if not ck.anchor(rule, "Stats::write", fs):
        return
    f = fs[0]
    ck.saw(f)
    cfg = Cfg(f)
    pv = Prov(f)
    loops = cfg.natural_loops()
    ser = [(bi, t) for bi, t in f.calls() if def_of(t).endswith("ser::Serialize::serialize")]
    if not ser and _batch_form(ck, p, f, cfg, pv, rule):
        return
    if not ser and _to_writer_form(ck, p, f, cfg, pv, rule, loops):
        return
    ck.floor(rule, "Serialize::serialize calls in Stats::write", len(ser), 1)
    for bi, t in ser:
        key = "Stats::write:serialize"
        # the record comes from iterating self.records
        rec_ok = "records" in arg_fields(pv, t["args"][0]) or any("records" in arg_fields(pv, f.blocks[o[1]]["t"]["args"][0]) for o in arg_roots(f, pv, t["args"][0]) if o[0] == "call")
        in_loop = any(bi in body for body in loops.values())
        # serializer type: serde_json::Serializer<_, CompactFormatter>
        sty = f.ty(t["f"]["targs"][1]) if len(t["f"].get("targs", [])) > 1 else None
        fmt = None
        cur = sty
        for _ in range(3):
            if cur is None:
                break
            if cur["k"] == "ref":
                cur = f.ty(cur["in"])
                continue
            if cur["k"] == "adt" and cur["name"] == "serde_json::ser::Serializer":
                fmt = f.ty(cur["args"][1])["s"] if len(cur["args"]) > 1 else None
            break
        compact = fmt is not None and fmt.endswith("CompactFormatter")
        # result is propagated (flows into Try::branch whose Break arm returns)
        nxt = f.blocks[t["target"]]["t"] if t["target"] is not None else None
        propagated = bool(nxt and nxt["k"] == "call" and def_of(nxt).endswith("Try::branch") and place_of(nxt["args"][0]) == t["dest"])
        ck.decide(rule, key, rec_ok and in_loop and compact and propagated, f.loc(t["ln"]),
                  "inside the loop over self.records=%s/%s; serializer formatter=%s; error propagated with ?=%s" % (rec_ok, in_loop, fmt, propagated))
        # exactly one newline write on every path back to the loop head
        nl = []
        other_w = []
        for wb, wt in f.calls():
            d = def_of(wt)
            if d.startswith("std::io::Write::") and method(wt) in ("write_fmt", "write_all", "write"):
                txt = _fmt_literal(f, pv, wt)
                if txt == "\n" or txt == "\\n":
                    nl.append(wb)
                else:
                    other_w.append((wb, wt, txt))
        heads = [h for h, body in loops.items() if bi in body]
        ok, wit = cfg.every_path_passes(bi, nl, to=heads)
        # "exactly one": no newline-write block can reach another one without passing the loop head
        twice = any(cfg.reaches(a, [b], avoid=heads) for a in nl for b in nl)
        ck.decide(rule, "Stats::write:newline", bool(nl) and ok and not twice and not other_w, f.loc(t["ln"]),
                  "newline writes at bb%s; on every path from serialize to the next iteration=%s%s; second newline reachable within one iteration=%s; other raw writes=%s" % (
                      nl, ok, "" if ok else " (path %s)" % wit, twice, [(x[0], x[2]) for x in other_w]))
        for wb in nl:
            wt = f.blocks[wb]["t"]
            nxt = f.blocks[wt["target"]]["t"] if wt["target"] is not None else None
            prop = bool(nxt and nxt["k"] == "call" and def_of(nxt).endswith("Try::branch"))
            ck.decide(rule, "Stats::write:newline-error", prop, f.loc(wt["ln"]), "result of the newline write is propagated with ?=%s" % prop)


def _fmt_literal(f, pv, wt):
    """the constant text of a write_fmt(format_args!("lit")) / write_all(b"lit") argument, else None"""
    a = wt["args"][1]
    for o in flatten(pv.trace_operand(a)):
        if o[0] == "const":
            m = re.match(r'^b?"(.*)"$', o[1], re.S)
            if m:
                return m.group(1).encode().decode("unicode_escape") if "\\" in m.group(1) else m.group(1)
        if o[0] == "call":
            t = f.blocks[o[1]]["t"]
            n = target_of(t)
            if n.startswith("core::fmt::{impl}::") and method(t) in ("from_str", "new_const", "new"):
                for x in t["args"]:
                    s = const_str(x)
                    if s is not None:
                        return s.encode().decode("unicode_escape") if "\\" in s else s
                    for y in flatten(pv.trace_operand(x)):
                        if y[0] == "const":
                            m = re.search(r'"(.*)"', y[1], re.S)
                            if m:
                                return m.group(1).encode().decode("unicode_escape") if "\\" in m.group(1) else m.group(1)
    return None


def _read(ck, p, byk):
    rule = "R-C19-line"
    fs = byk.get("Stats::read")
    if not ck.anchor(rule, "Stats::read", fs):
        return
    f = fs[0]
    ck.saw(f)
    pv = Prov(f)
    lines = [(bi, t) for bi, t in f.calls() if def_of(t) == "std::io::BufRead::lines"]
    parse = [(bi, t) for bi, t in f.calls() if inst_of(t) == "serde_json::de::from_str"]
    pushes = [(bi, t) for bi, t in f.calls() if method(t) in ("push", "insert", "push_front", "extend")]
    ok = len(lines) == 1 and len(parse) == 1
    detail = "lines()=%d from_str=%d" % (len(lines), len(parse))
    if len(lines) == 1 and not parse:
        # the same loop as an adaptor chain: lines().map(|line| from_str(&line?)).collect::<io::Result<Vec<_>>>()
        cparse = [(c, t) for c in p.closures_of(f.name) for _, t in c.calls() if inst_of(t) == "serde_json::de::from_str"]
        coll = [(bi, t) for bi, t in f.calls() if method(t) == "collect"]
        adapt = {method(f.blocks[o[1]]["t"]) for bi, t in coll for o in arg_roots(f, pv, t["args"][0]) if o[0] == "call"}
        if len(cparse) == 1 and coll:
            c, pt = cparse[0]
            ty = c.ty(pt["f"]["targs"][0])["s"]
            rec = ty.endswith("record::Record") or ty == "Record"
            from_line = any(o[0] == "arg" and o[1] == 2 for o in arg_roots(c, Prov(c), pt["args"][0]))
            reorder = adapt & {"rev", "sorted", "sorted_by", "sorted_by_key", "filter", "filter_map", "skip", "take", "step_by", "dedup", "unique", "chain", "skip_while", "take_while"}
            ck.decide(rule, "Stats::read", rec and from_line and "lines" in adapt and "map" in adapt and not reorder, f.span,
                      "lines().map(from_str::<%s>).collect(): parses each line as the written type=%s; the closure parses its own line=%s; adaptors %s" % (ty, rec, from_line, sorted(adapt)))
            ck.decide(rule, "Stats::read:order", not reorder, f.span, "the records are collected in line order (adaptors %s)" % sorted(adapt))
            return
        ck.undecided(rule, "Stats::read", f.span, detail + ": neither the loop form nor lines().map(from_str).collect()")
        return
    if ok:
        pt = parse[0][1]
        ty = f.ty(pt["f"]["targs"][0])["s"]
        rec = ty.endswith("record::Record") or ty == "Record"
        from_line = any(o[0] == "call" and last(norm(o[3] or "")) == "next" for o in arg_roots(f, pv, pt["args"][0]))
        push_ok = [m for m in (method(t) for _, t in pushes)] == ["push"]
        pushed_parsed = push_ok and any(o[0] == "call" and o[1] == parse[0][0] for o in arg_roots(f, pv, pushes[0][1]["args"][1]))
        ok = rec and from_line and pushed_parsed
        detail += "; parses each line as %s (same type as written)=%s; line comes from lines().next()=%s; parsed record pushed at the end=%s" % (ty, rec, from_line, pushed_parsed)
    ck.decide(rule, "Stats::read", ok, f.span, detail)
    # file order is record order: the record vector only ever receives `push`
    if pushes:
        from .c13 import ops_on, _base_local
        rl = _base_local(f, pv, pushes[0][1]["args"][0])
        ops = sorted({m for m, _, _ in ops_on(f, pv, rl)})
        reorder = [m for m in ops if m not in ("push", "new", "with_capacity", "len", "is_empty", "reserve", "shrink_to_fit", "capacity", "deref", "iter", "as_slice")]
        ck.decide(rule, "Stats::read:order", not reorder, f.span, "operations on the record vector in read(): %s%s" % (ops, "" if not reorder else " - %s changes the order or the set of the records after they were read: reading back no longer yields the records in the order they were written (two appended batches are not their concatenation)" % reorder))


def _append(ck, p, byk):
    rule = "R-C19-append"
    fs = [f for f in byk.get("Backend::save_stats::{closure}", []) + byk.get("Backend::save_stats", []) if f.get("coroutine") or f.get("kind") == "Closure"]
    if ck.anchor(rule, "Backend::save_stats", fs):
        f = fs[0]
        ck.saw(f)
        flags = {}
        creates = []
        for bi, t in f.calls():
            n = (t["f"].get("pretty") or "")
            i = inst_of(t)
            if "OpenOptions" in n:
                v = None
                if len(t["args"]) > 1:
                    k = t["args"][1].get("k", {})
                    v = k.get("int")
                flags[method(t)] = v
            if re.search(r"(^|::)File::create(_new)?$", n) or i.endswith("fs::write") or i.endswith("file::{impl}::create"):
                creates.append(n)
        ok = flags.get("append") == "1" and flags.get("truncate") in (None, "0") and "open" in flags and not creates
        ck.decide(rule, "Backend::save_stats", ok, f.span, "OpenOptions chain %s; truncating creators: %s" % (flags, creates))
        # what is written is self.stats through Stats::write
        w = [(bi, t) for bi, t in f.calls() if inst_of(t) == "harper_stats::{impl}::write"]
        ck.decide(rule, "Backend::save_stats:writer", len(w) == 1, f.span, "Stats::write calls: %d" % len(w))
        # save_stats appends every record held in memory and keeps them: a second call in the same session writes them again
        pv = Prov(f)
        drains = any(method(t) in ("clear", "drain", "take", "truncate", "split_off") and "records" in arg_fields(pv, t["args"][0]) for _, t in f.calls() if t["args"]) or \
            any(norm(inst_of(t)) in ("core::mem::take", "core::mem::replace") and "stats" in str(arg_fields(pv, t["args"][0])) for _, t in f.calls() if t["args"])
        callers = sorted({keyname(p, g).replace("::{closure}", "") for g in p.fns.values() if g.name.startswith("harper_ls::") for _, t in g.calls() if norm(inst_of(t)) == "harper_ls::backend::{impl}::save_stats"})
        once = all(c.endswith("::shutdown") for c in callers)
        if drains:
            ck.proved(rule, "Backend::save_stats:once", f.span, "save_stats empties the in-memory records it has written; callers: %s" % callers)
        elif once and callers:
            ck.proved(rule, "Backend::save_stats:once", f.span, "the in-memory records are appended once per session: save_stats is called from %s only" % callers)
        else:
            ck.refuted(rule, "Backend::save_stats:once", f.span, "save_stats appends every record held in memory and does not remove them, and it is called from %s: everything recorded before the first call is written again by the next one, so the log holds duplicates and the summary counts lints twice" % callers)
    fs = [f for f in byk.get("Linter::import_stats_file", []) if f.name.startswith("harper_wasm::")]
    if ck.anchor(rule, "harper_wasm Linter::import_stats_file", fs):
        f = fs[0]
        ck.saw(f)
        pv = Prov(f)
        app = [(bi, t) for bi, t in f.calls() if method(t) in ("append", "extend", "extend_from_slice") and "records" in arg_fields(pv, t["args"][0])]
        rd = [(bi, t) for bi, t in f.calls() if inst_of(t) == "harper_stats::{impl}::read"]
        other = [method(t) for bi, t in f.calls() if "records" in arg_fields(pv, t["args"][0]) and method(t) not in ("append",)] if True else []
        ck.decide(rule, "wasm:import_stats_file", len(app) == 1 and len(rd) == 1, f.span, "Stats::read=%d, self.stats.records.append/extend(..)=%d" % (len(rd), len(app)))


def _count(ck, p, byk):
    rule = "R-C19-count"
    fs = byk.get("Stats::summarize")
    if ck.anchor(rule, "Stats::summarize", fs):
        f = fs[0]
        ck.saw(f)
        cfg = Cfg(f)
        loops = cfg.natural_loops()
        incs = [(bi, t) for bi, t in f.calls() if inst_of(t).endswith("::inc_lint_count")]
        ok = len(incs) == 1
        detail = "inc_lint_count call sites: %d" % len(incs)
        if ok:
            bi = incs[0][0]
            depth = sum(1 for body in loops.values() if bi in body)
            ok = depth == 1
            detail += "; loop nesting depth of the call = %d (1 = once per record)" % depth
        ck.decide(rule, "Stats::summarize", ok, f.span, detail)
    fs = byk.get("Summary::inc_lint_count")
    if ck.anchor(rule, "Summary::inc_lint_count", fs):
        f = fs[0]
        ck.saw(f)
        cfg = Cfg(f)
        loops = cfg.natural_loops()
        adds = []
        for bi, b in enumerate(f.blocks):
            if b["cleanup"]:
                continue
            for s in b["s"]:
                if s["k"] == "assign" and s["lhs"][-1:] and isinstance(s["lhs"][-1], list) and s["lhs"][-1][0] == "f" and s["lhs"][-1][2] == "total_applied":
                    adds.append((bi, s))
        ok = len(adds) == 1 and not any(adds[0][0] in body for body in loops.values())
        detail = "assignments to total_applied: %d" % len(adds)
        if ok:
            bi, s = adds[0]
            pv = Prov(f)
            src = pv.trace_operand(s["rv"]["op"]) if s["rv"]["k"] == "use" else set()
            one = any(o[0] == "field" and o[1][0] == "bin" and o[1][1] in ("AddWithOverflow", "Add") and ("const", "1") in o[1][3] for o in src) or any(o[0] == "bin" and o[1] == "Add" and ("const", "1") in o[3] for o in src)
            ok = one
            detail += "; value = total_applied + 1: %s" % one
        ck.decide(rule, "Summary::inc_lint_count", ok, f.span, detail)


def _batch_form(ck, p, f, cfg, pv, rule):
    """Stats::write rewritten to build the text first (serde_json::to_string per record, join) and write it in one call.
    Decides the one thing that form gets wrong: join separates, it does not terminate.  True when the form was recognised."""
    from ..util import with_closures
    tos = [(h, t) for h in with_closures(p, f) for _, t in h.calls() if norm(inst_of(t)).startswith("serde_json::ser::to_") or any(norm(x).startswith("serde_json::ser::to_") for x in _fn_consts(t))]
    joins = [(bi, t) for bi, t in f.calls() if method(t) in ("join", "concat", "connect")]
    if not joins:
        return False
    key = "Stats::write:newline"
    sep = None
    for bi, t in joins:
        if len(t["args"]) > 1:
            for o in flatten(pv.trace_operand(t["args"][1])):
                if o[0] == "const":
                    sep = o[1]
            k = t["args"][1].get("k") if isinstance(t["args"][1], dict) else None
            if k and "const" in k:
                sep = k["const"]
    writes = [(wb, wt) for wb, wt in f.calls() if def_of(wt).startswith("std::io::Write::") and method(wt) in ("write_fmt", "write_all", "write")]
    joined_w = [(wb, wt) for wb, wt in writes if any(o[0] == "call" and o[1] in {j[0] for j in joins} for o in arg_roots(f, pv, wt["args"][1]))]
    nl_w = [wb for wb, wt in writes if _fmt_literal(f, pv, wt) in ("\n", "\\n")]
    if not joined_w:
        return False
    jb = joined_w[0][0]
    after = [wb for wb in nl_w if cfg.reaches(jb, [wb])]
    ok, wit = cfg.every_path_passes(jb, after, to=cfg.returns()) if after and hasattr(cfg, "returns") else (bool(after), None)
    if not after:
        ck.refuted(rule, key, f.loc(joined_w[0][1]["ln"]), "the records are written as one text built with join(%s): join puts the separator between the records, not after each, and no newline is written afterwards - a batch does not end in a newline, so the next batch appended to the same log continues its last line and the whole log fails to read" % (sep or "?"))
    else:
        ck.undecided(rule, key, f.loc(joined_w[0][1]["ln"]), "batch form (join(%s) then a newline write): per-record format and error propagation of this form are not decided" % (sep or "?"))
    return True


def _fn_consts(t):
    out = []
    for a in t.get("args", []):
        k = a.get("k") if isinstance(a, dict) else None
        if k and "fn" in k:
            out.append(k["fn"] if isinstance(k["fn"], str) else str(k["fn"]))
    return out


def _to_writer_form(ck, p, f, cfg, pv, rule, loops):
    """Stats::write with serde_json::to_writer(&mut *w, record) per record (= Serializer::new(w) + record.serialize(..), compact)"""
    tw = [(bi, t) for bi, t in f.calls() if norm(inst_of(t)) == "serde_json::ser::to_writer"]
    if not tw:
        return False
    bi, t = tw[0]
    rec_ok = "records" in arg_fields(pv, t["args"][1]) or any("records" in arg_fields(pv, f.blocks[o[1]]["t"]["args"][0]) for o in arg_roots(f, pv, t["args"][1]) if o[0] == "call" and f.blocks[o[1]]["t"]["args"])
    in_loop = any(bi in body for body in loops.values())
    nxt = f.blocks[t["target"]]["t"] if t["target"] is not None else None
    propagated = bool(nxt and nxt["k"] == "call" and (def_of(nxt).endswith("Try::branch") or method(nxt) in ("map_err", "from")))
    ck.decide(rule, "Stats::write:serialize", len(tw) == 1 and rec_ok and in_loop and propagated, f.loc(t["ln"]),
              "serde_json::to_writer (compact) inside the loop over self.records=%s/%s; error propagated=%s" % (rec_ok, in_loop, propagated))
    nl, other_w = [], []
    for wb, wt in f.calls():
        if def_of(wt).startswith("std::io::Write::") and method(wt) in ("write_fmt", "write_all", "write"):
            txt = _fmt_literal(f, pv, wt)
            (nl if txt in ("\n", "\\n") else other_w).append(wb)
    heads = [h for h, body in loops.items() if bi in body]
    ok, wit = cfg.every_path_passes(bi, nl, to=heads) if nl else (False, None)
    twice = any(cfg.reaches(a, [b], avoid=heads) for a in nl for b in nl)
    ck.decide(rule, "Stats::write:newline", bool(nl) and ok and not twice and not other_w, f.loc(t["ln"]),
              "newline writes at bb%s; on every path from to_writer to the next iteration=%s; second newline within one iteration=%s; other raw writes=%s" % (nl, ok, twice, other_w))
    return True


# ---------------------------------------------------------------------------------------------------
def _finite(ck, p):
    """A record carries the tokens around the lint, numbers among them, and the log is JSON: serde_json writes a
    non-finite f64 as `null`, which does not read back as a number - one such token makes Stats::read fail for the
    whole file.  Number values come from the lexer's `parse::<f64>()`, which yields infinity for `1e999`."""
    from ..util import fns_by_key, with_closures
    from ..common import method
    rule = "R-C19-finite"
    ck.rule(rule, "every number that can end up in a record is finite: the number lexer keeps a parsed f64 only if it is finite (is_finite / !is_infinite && !is_nan on the parse result) - serde_json writes infinity and NaN as null, and a log line with such a token does not read back")
    fs = fns_by_key(p).get("harper_core::lexing::lex_number")
    if not ck.anchor(rule, "lexing::lex_number", fs):
        return
    f = fs[0]
    ck.saw(f)
    parses = [(g, t) for g in with_closures(p, f) for _, t in g.calls() if method(t) == "parse"]
    tests = sorted({method(t) for g in with_closures(p, f) for _, t in g.calls() if method(t) in ("is_finite", "is_infinite", "is_nan", "is_normal", "classify")})
    key = "lex_number:finite-value"
    if not parses:
        ck.undecided(rule, key, f.span, "no str::parse in lex_number: how the value is obtained is not of a recognised form")
    elif tests:
        ck.proved(rule, key, f.loc(parses[0][1]["ln"]), "the parsed value is tested (%s) before it becomes a token" % ", ".join(tests))
    else:
        ck.refuted(rule, key, f.loc(parses[0][1]["ln"]), "the result of parse::<f64>() becomes the token's value without a finiteness test: `1e999` lexes to a number token whose value is infinity, serde_json writes it as \"value\":null, and reading that line back fails (invalid type: null, expected f64) - the statistics log is unreadable from then on")
