"""C06 — misspelt exactly when the dictionary lacks the word (three mechanism clauses).

The 130k-word quantifier is data (affix expansion) and is not decided.  Decided: word identity
normalisation, the accept condition of the spell checker, the dialect filter on suggestions."""
import re

from .. import facts
from ..cfg import Cfg, bool_edges
from ..common import arg_fields, arg_roots, def_of, inst_of, method, target_of
from ..prov import Prov, flatten, field_names
from ..util import fns_by_key, keyname, place_of, norm, last, with_closures

LEVEL = "other"


def chain(f, pv, op, names):
    """the operand derives from names[0](names[1](...(x))) — returns the innermost argument origins or None"""
    cur = [op]
    for n in names:
        nxt = []
        for o in cur:
            for r in flatten(pv.trace_operand(o)):
                if r[0] == "call" and last(norm(r[3] or r[2] or "")) == n:
                    nxt.append(f.blocks[r[1]]["t"]["args"][0])
        if not nxt:
            return None
        cur = nxt
    out = set()
    for o in cur:
        out |= arg_roots(f, pv, o)
    return out


def run(ck, tier):
    ck.rule("R-C06-id", "WordId::from_word_chars hashes to_lower(normalized(chars)); WordMap::insert derives the id from the entry's own canonical_spelling; MutableDictionary::contains_exact_word normalises its argument and compares with canonical_spelling")
    ck.rule("R-C06-accept", "in SpellCheck::lint a word is skipped only on paths through the true edge of the dialect predicate and of contains_exact_word(word) or contains_exact_word(to_lower(word)) for that same word; every other path pushes a lint whose span is the word token's span")
    ck.rule("R-C06-dialect", "in cached_suggest_correct_spelling both the list stored in the memo and every returned list are dialect-filtered: retained in place (retain on every path from the fuzzy search) or derived from filter(..), with a predicate that looks up the entry's metadata and compares .dialect with the configured dialect; a cache hit returns what was stored; the lint's suggestions derive from that function")
    ck.rule("R-C06-glue", "pattern constants vs. word list: a word that a Document pass glues a following period onto (WordSet literals of the Latin-abbreviation pattern, matched in any capitalisation) is listed in dictionary.dict in lower case together with the period - otherwise the listed bare word, written directly before a full stop, becomes a token the dictionary does not list in that spelling and is reported")
    ck.rule("R-C06-exact", "the exact-spelling test compares like with like: the character normalisation (typographic apostrophes -> ') applied to the queried word in MutableDictionary::contains_exact_word is applied to the stored spelling as well - at the comparison or where entries are stored - otherwise a listed word written with a typographic apostrophe can never match its own entry and is reported as misspelt")
    ck.not_decided += ["membership of concrete words (the affix expansion of the 130k-word list is data)", "capitalisation variants accepted by to_lower", "what the fuzzy search returns"]
    p = facts.load()
    byk = fns_by_key(p)
    _id(ck, p, byk)
    _accept(ck, p, byk)
    _dialect(ck, p, byk)
    # the dictionary SpellCheck asks is, in every front end, a MergedDictionary: a word is "in the dictionary"
    # when ANY part lists that spelling
    from . import c15
    ck.rule("R-C06-union", "the merged dictionary answers contains_exact_word / contains_word as the union of its parts: each folds the same-named query over self.children (rule instances of R-C15-merged) - otherwise a spelling the user added is still reported when an earlier part knows the same letters in another capitalisation")
    c15._merged(ck, p, c15.dictionary_impls(p), rule="R-C06-union", only=["contains_word", "contains_exact_word"])
    c15.add_always(ck, p, "R-C06-union")
    like_with_like(ck, p, byk, "R-C06-exact")
    dialect_first_wins(ck, p, byk, "R-C06-union")
    _glued(ck, p, byk)
    _contraction(ck, p)
    ck.rule("R-C06-nomemo", "what Document::parse attaches to a word comes from the dictionary it was given, every time: no static with interior mutability in the workspace other than the registered, individually justified memos (rule instances of R-C05-statics) - a look-up cache keyed by the word alone would replay one dictionary's answer for another")
    try:
        from . import c05
        c05._statics(c05._Sub(ck, "R-C06-nomemo", ""), p, byk)
    except Exception as e:
        import traceback
        ck.refuted("R-C06-nomemo", "internal:%s" % type(e).__name__, "", "rule could not run: %s" % traceback.format_exc()[-600:])


def _id(ck, p, byk):
    rule = "R-C06-id"
    fs = byk.get("WordId::from_word_chars")
    if ck.anchor(rule, "WordId::from_word_chars", fs):
        f = fs[0]
        ck.saw(f)
        pv = Prov(f)
        hs = [(bi, t) for bi, t in f.calls() if method(t) == "hash_one"]
        ok = len(hs) == 1
        detail = "hash_one calls: %d" % len(hs)
        if ok:
            inner = chain(f, pv, hs[0][1]["args"][1], ["to_lower", "normalized"])
            ok = inner is not None and ("arg", 1) in inner
            fixed = "FixedState" in " ".join(f.ty(x)["s"] for x in hs[0][1]["f"].get("targs", []))
            ok = ok and fixed
            detail = "hash_one(to_lower(normalized(chars))) with the parameter innermost: %s; hasher is a FixedState: %s" % (inner is not None and ("arg", 1) in inner, fixed)
        ck.decide(rule, "WordId::from_word_chars", ok, f.span, detail)
    fs = byk.get("WordMap::insert")
    if ck.anchor(rule, "WordMap::insert", fs):
        f = fs[0]
        ck.saw(f)
        pv = Prov(f)
        ids = [(bi, t) for bi, t in f.calls() if inst_of(t).endswith("word_id::{impl}::from_word_chars")]
        ins = [(bi, t) for bi, t in f.calls() if method(t) == "insert" and "inner" in arg_fields(pv, t["args"][0])]
        ok = len(ids) == 1 and len(ins) == 1
        if ok:
            from_entry = "canonical_spelling" in arg_fields(pv, ids[0][1]["args"][0]) and ("arg", 2) in arg_roots(f, pv, ids[0][1]["args"][0])
            key_is_id = any(o[0] == "call" and o[1] == ids[0][0] for o in flatten(pv.trace_operand(ins[0][1]["args"][1])))
            val_is_entry = ("arg", 2) in flatten(pv.trace_operand(ins[0][1]["args"][2]))
            ok = from_entry and key_is_id and val_is_entry
        ck.decide(rule, "WordMap::insert", ok, f.span, "inner.insert(WordId::from_word_chars(&entry.canonical_spelling), entry): %s" % ok)
    fs = byk.get("<MutableDictionary@Dictionary>::contains_exact_word".replace("@", " as "))
    if ck.anchor(rule, "MutableDictionary::contains_exact_word", fs):
        f = fs[0]
        ck.saw(f)
        pv = Prov(f)
        nz_all = [(bi, t) for bi, t in f.calls() if method(t) == "normalized"]
        # the normalisation of the queried word (a second one, on the stored spelling, is R-C06-exact's business)
        nz = [(bi, t) for bi, t in nz_all if ("arg", 2) in arg_roots(f, pv, t["args"][0]) and "canonical_spelling" not in arg_fields(pv, t["args"][0])]
        gets = [(bi, t) for bi, t in f.calls() if inst_of(t).endswith("word_map::{impl}::get_with_chars")]
        eqs = [(bi, t) for bi, t in f.calls() if def_of(t).endswith("cmp::PartialEq::eq")]
        if not eqs and any(def_of(t).endswith("cmp::PartialEq::eq") for c in p.closures_of(f.name) for _, t in c.calls()) and len(nz) == 1 and len(gets) == 1:
            arg_norm = ("arg", 2) in arg_roots(f, pv, nz[0][1]["args"][0])
            lookup_norm = any(o[0] == "call" and o[1] == nz[0][0] for o in arg_roots(f, pv, gets[0][1]["args"][1]))
            ck.decide(rule, "MutableDictionary::contains_exact_word", arg_norm and lookup_norm, f.span, "normalises the argument=%s; looks up the normalised form=%s; the comparison with the stored spelling sits in a closure (decided by R-C06-exact)" % (arg_norm, lookup_norm))
            fs = None
        ok = len(nz) == 1 and len(gets) == 1 and bool(eqs)
        detail = "normalized=%d get_with_chars=%d comparisons=%d" % (len(nz), len(gets), len(eqs))
        if ok:
            arg_norm = ("arg", 2) in arg_roots(f, pv, nz[0][1]["args"][0])
            lookup_norm = any(o[0] == "call" and o[1] == nz[0][0] for o in arg_roots(f, pv, gets[0][1]["args"][1]))
            cmp_ok = False
            for bi, t in eqs:
                sides = [arg_roots(f, pv, a) for a in t["args"]]
                has_canon = any("canonical_spelling" in arg_fields(pv, a) or any("canonical_spelling" in arg_fields(pv, f.blocks[o[1]]["t"]["args"][0]) for o in r if o[0] == "call" and f.blocks[o[1]]["t"]["args"]) for a, r in zip(t["args"], sides))
                has_norm = any(any(o[0] == "call" and o[1] == nz[0][0] for o in r) for r in sides)
                cmp_ok = cmp_ok or (has_canon and has_norm)
            e = [bool_edges(f, bi) for bi, _ in eqs]
            ok = arg_norm and lookup_norm and cmp_ok
            detail += "; normalises the argument=%s; looks up the normalised form=%s; compares it with found.canonical_spelling=%s" % (arg_norm, lookup_norm, cmp_ok)
        if fs is not None:
            ck.decide(rule, "MutableDictionary::contains_exact_word", ok, f.span, detail)


def _accept(ck, p, byk):
    rule = "R-C06-accept"
    fs = byk.get("<SpellCheck as Linter>::lint")
    if not ck.anchor(rule, "<SpellCheck as Linter>::lint", fs):
        return
    f = fs[0]
    ck.saw(f)
    cfg = Cfg(f)
    pv = Prov(f)
    loops = cfg.natural_loops()
    pushes = [(bi, t) for bi, t in f.calls() if method(t) == "push" and _base_name(f, pv, t["args"][0]) == "lints"]
    nexts = [(bi, t) for bi, t in f.calls() if method(t) == "next" and any(bi in body and (pushes and pushes[0][0] in body) for body in loops.values())]
    if len(pushes) != 1 or not nexts:
        ck.refuted(rule, "SpellCheck::lint:shape", f.span, "expected one lints.push inside the word loop (found %d) and the loop's next()" % len(pushes))
        return
    pb = pushes[0][0]
    # outer loop = the one containing the push with the largest body
    heads = [h for h, body in loops.items() if pb in body]
    head = max(heads, key=lambda h: len(loops[h]))
    nb = [bi for bi, t in nexts if bi in loops[head] and cfg.dominates(bi, pb)]
    nb = min(nb) if nb else None
    exact = [(bi, t) for bi, t in f.calls() if def_of(t) == "harper_core::spell::dictionary::Dictionary::contains_exact_word"]
    dial = [(bi, t) for bi, t in f.calls() if method(t) == "is_none_or"]
    ck.floor(rule, "contains_exact_word tests in SpellCheck::lint", len(exact), 2)
    t_exact = [bool_edges(f, bi)[0] for bi, _ in exact if bool_edges(f, bi)]
    t_dial = [bool_edges(f, bi)[0] for bi, _ in dial if bool_edges(f, bi)]
    # skip paths: from the item block back to the loop head without the push
    some_blk = [s for s in cfg.succ[f.blocks[nb]["t"]["target"]]] if nb is not None else []
    start = f.blocks[nb]["t"]["target"] if nb is not None else None
    ok1, w1 = cfg.every_path_passes(start, set(t_exact) | {pb}, to=[head]) if start is not None else (False, None)
    ok2, w2 = cfg.every_path_passes(start, set(t_dial) | {pb}, to=[head]) if start is not None else (False, None)
    ck.decide(rule, "SpellCheck::lint:skip-needs-exact-match", bool(t_exact) and ok1, f.span, "every path that skips the lint passes the true edge of a contains_exact_word test: %s%s" % (ok1, "" if ok1 else " (path %s)" % w1))
    ck.decide(rule, "SpellCheck::lint:skip-needs-dialect", bool(t_dial) and ok2, f.span, "every path that skips the lint passes the true edge of the dialect predicate: %s%s" % (ok2, "" if ok2 else " (path %s)" % w2))
    # the tested strings are the word itself and its lower-cased form
    item = ("call", nb)
    shapes = []
    for bi, t in exact:
        roots = arg_roots(f, pv, t["args"][1])
        gsc = [o for o in roots if o[0] == "call" and last(norm(o[3] or "")) == "get_span_content"]
        from_item = any(o[0] == "call" and o[1] == nb for o in roots)
        low = any(o[0] == "call" and last(norm(o[3] or o[2] or "")) == "to_lower" for o in roots)
        shapes.append((bool(gsc) and from_item, low))
    ok = any(s == (True, False) for s in shapes) and all(s[0] for s in shapes)
    ck.decide(rule, "SpellCheck::lint:tested-word", ok, f.span, "contains_exact_word is asked about the span content of the loop's own word (plain: %s, lower-cased: %s)" % (any(s == (True, False) for s in shapes), any(s == (True, True) for s in shapes)))
    # the other direction: a word is REPORTED only when it is listed neither as written nor in lower case
    # (the call blocks are used, not the false-edge blocks: when the tests sit in a helper their results are merged
    # before the branch; a test that was passed on the way to the lint was false because no true edge leads there)
    f_plain = [bi for (bi, _), sh in zip(exact, shapes) if sh == (True, False)]
    f_low = [bi for (bi, _), sh in zip(exact, shapes) if sh == (True, True)]
    true_to_lint = [bi for bi, _ in exact if bool_edges(f, bi) and cfg.reaches(bool_edges(f, bi)[0], [pb], avoid=[head])]
    f_dial = [bool_edges(f, bi)[1] for bi, _ in dial if bool_edges(f, bi)]
    blind = [bi for bi, _ in exact if not bool_edges(f, bi)]
    # a word token without metadata is a word the dictionary did not know when the text was parsed: the None edge of
    # the switch on that Option also leads to the lint
    for b in f.blocks:
        sw = b["t"]
        if b["cleanup"] or sw["k"] != "switch":
            continue
        dl = place_of(sw["discr"])
        for sx in b["s"]:
            if sx["k"] == "assign" and sx["lhs"] == dl and sx["rv"]["k"] == "discr":
                src = sx["rv"].get("place") or []
                ty = (f.local_tystr(src[0]) or "") if src and all(e == "*" for e in src[1:]) else ""
                if ty and "Option<" in ty and "WordMetadata" in ty:
                    none = [x for v, x in sw["targets"] if v == "0"] or [sw["otherwise"]]
                    f_dial += none
    if start is not None:
        okp, wp = cfg.every_path_passes(start, set(f_plain) | set(f_dial), to=[pb])
        okl, wl = cfg.every_path_passes(start, set(f_low) | set(f_dial), to=[pb])
        key = "SpellCheck::lint:report-needs-both-misses"
        detail = "every path to the lint has asked contains_exact_word(word): %s; and contains_exact_word(to_lower(word)): %s (or the false edge of the dialect predicate, or the None edge of the token's metadata)" % (okp, okl)
        if okp and okl and f_plain and f_low and not true_to_lint:
            ck.proved(rule, key, f.span, detail)
        elif blind or true_to_lint:
            ck.undecided(rule, key, f.span, detail + "; the branch on %d of the tests was not found" % len(blind))
        else:
            ck.refuted(rule, key, f.span, detail + ": a path reports the word without having asked for %s - a listed word written in another capitalisation (all capitals with an apostrophe, inner capitals) is reported as misspelt although the dictionary contains it%s"
                       % ("its lower-cased form" if not okl else "the word as written", " (path %s)" % (wl if not okl else wp)))
    # the pushed lint covers the word token's span
    lints = [s for b in f.blocks if not b["cleanup"] for s in b["s"] if s["k"] == "assign" and s["rv"]["k"] == "agg" and s["rv"].get("name", "").endswith("lint::Lint")]
    ok = len(lints) == 1
    detail = "Lint constructions: %d" % len(lints)
    if ok:
        rv = lints[0]["rv"]
        fields = dict(zip(rv["fields"], rv["ops"]))
        sp = pv.trace_operand(fields["span"])
        span_ok = any(_is_field_of_item(o, "span", nb) for o in sp)
        kind_ok = "Spelling" in str(pv.trace_operand(fields["lint_kind"])) or "Spelling" in str(fields["lint_kind"])
        ok = span_ok
        detail = "Lint.span = word.span of the loop item: %s; kind Spelling: %s" % (span_ok, kind_ok)
    ck.decide(rule, "SpellCheck::lint:span", ok, f.span, detail)


def _is_field_of_item(o, name, nb):
    x = o
    seen_name = False
    for _ in range(8):
        if not isinstance(x, tuple):
            return False
        if x[0] == "field":
            if x[3] == name:
                seen_name = True
            x = x[1]
            continue
        if x[0] == "call":
            return seen_name and x[1] == nb
        return False
    return False


def _base_name(f, pv, op):
    pl = place_of(op)
    if not pl:
        return None
    l = pv.mut_base.get(pl[0], pl[0])
    return f.debug_names().get(l)


def _is_dialect_pred(p, fn, depth=0, seen=None):
    """does this body (or a workspace helper / closure it calls, depth <= 3) look up the entry's metadata and
    compare its `.dialect` with a dialect value?"""
    seen = set() if seen is None else seen
    if fn.name in seen or depth > 3:
        return False
    seen.add(fn.name)
    bodies = with_closures(p, fn)
    s = " ".join(str(c.blocks) for c in bodies).replace('"', "'")
    cmp_eq = any(def_of(t).endswith("cmp::PartialEq::eq") for c in bodies for _, t in c.calls()) or any(
        sx["k"] == "assign" and sx["rv"]["k"] == "bin" and sx["rv"]["op"] == "Eq" for c in bodies for b in c.blocks for sx in b["s"])
    meta = any(def_of(t).endswith("Dictionary::get_word_metadata") for c in bodies for _, t in c.calls())
    if "'dialect'" in s and cmp_eq and meta:
        return True
    for c in bodies:
        for _, t in c.calls():
            g = p.fns.get(t["f"].get("inst") or "")
            if g is not None and g.name.startswith("harper_core::linting::spell_check::") and _is_dialect_pred(p, g, depth + 1, seen):
                return True
    return False


def _closure_args(p, f, pv, t):
    out = []
    for a in t["args"][1:]:
        for o in pv.trace_operand(a):
            if o[0] == "agg" and o[1] == "closure":
                c = p.fns.get(o[2].split(":")[0]) or p.fns.get(o[2])
                if c is not None:
                    out.append(c)
    return out


def _dialect(ck, p, byk):
    rule = "R-C06-dialect"
    fs = byk.get("SpellCheck::cached_suggest_correct_spelling")
    if not ck.anchor(rule, "SpellCheck::cached_suggest_correct_spelling", fs):
        return
    f = fs[0]
    ck.saw(f)
    cfg = Cfg(f)
    pv = Prov(f)
    search = [(bi, t) for bi, t in f.calls() if inst_of(t).endswith("spell::suggest_correct_spelling")]
    puts = [(bi, t) for bi, t in f.calls() if inst_of(t).startswith("lru::{impl}::") and method(t) == "put"]
    gets = [(bi, t) for bi, t in f.calls() if inst_of(t).startswith("lru::{impl}::") and method(t) in ("get", "peek", "get_mut")]
    # dialect filters: retain(pred) in place, or filter(pred) in an iterator chain
    filters = []
    for bi, t in f.calls():
        if method(t) in ("retain", "retain_mut", "filter"):
            cl = _closure_args(p, f, pv, t)
            if cl and any(_is_dialect_pred(p, c) for c in cl):
                filters.append((bi, t))
                for c in cl:
                    ck.saw(c)
    detail = "search=%d dialect filters=%d (%s) put=%d" % (len(search), len(filters), ",".join(sorted({method(t) for _, t in filters})), len(puts))
    if not (search and puts and filters):
        ck.refuted(rule, "cached_suggest_correct_spelling", f.span, detail + ": no retain/filter whose predicate looks up the entry's metadata and compares .dialect with the configured dialect")
    else:
        def filtered(op, at_bb):
            """is the value of `op`, used in block at_bb, dialect-filtered?"""
            roots = arg_roots(f, pv, op)
            # idiom B: data dependence on a filter(..) call
            if any(o[0] == "call" and any(o[1] == fb and method(ft) == "filter" for fb, ft in filters) for o in roots):
                return "derives from filter(pred)"
            # the cache-hit path hands back what an earlier put stored
            if any(o[0] == "call" and any(o[1] == gb for gb, _ in gets) for o in roots) and not any(o[0] == "call" and o[1] == search[0][0] for o in roots):
                return "comes out of the cache"
            # idiom A: the same list was retained in place on every path from the search
            base = _value_base(f, pv, op)
            for fb, ft in filters:
                if method(ft) in ("retain", "retain_mut") and base is not None and _base_name(f, pv, ft["args"][0]) == base:
                    ok, _w = cfg.every_path_passes(search[0][0], [fb], to=[at_bb])
                    if ok:
                        return "retained in place on every path from the search"
            return None
        bad = []
        why = []
        for pb, pt in puts:
            r = filtered(pt["args"][2], pb)
            why.append("put value %s" % (r or "NOT FILTERED"))
            if not r:
                bad.append("the value stored in the suggestion memo")
        n_ret = 0
        for bi, b in enumerate(f.blocks):
            if b["cleanup"]:
                continue
            for sx in b["s"]:
                if sx["k"] == "assign" and sx["lhs"] == [0] and sx["rv"]["k"] == "use":
                    n_ret += 1
                    r = filtered(sx["rv"]["op"], bi)
                    why.append("return value %s" % (r or "NOT FILTERED"))
                    if not r:
                        bad.append("a returned list")
            t = b["t"]
            if t["k"] == "call" and t.get("dest") == [0]:
                n_ret += 1
                r = None
                for a in t["args"]:
                    r = r or filtered(a, bi)
                why.append("return value %s" % (r or "NOT FILTERED"))
                if not r:
                    bad.append("a returned list")
        ok = not bad and n_ret >= 1
        ck.decide(rule, "cached_suggest_correct_spelling", ok, f.span, detail + "; " + "; ".join(why) + ("" if ok else " — %s bypasses the dialect filter" % ", ".join(sorted(set(bad)) or ["(no return value found)"])))
    # SpellCheck::lint: suggestions derive from that list
    fs = byk.get("<SpellCheck as Linter>::lint")
    if fs:
        g = fs[0]
        gpv = Prov(g)
        lints = [s for b in g.blocks if not b["cleanup"] for s in b["s"] if s["k"] == "assign" and s["rv"]["k"] == "agg" and s["rv"].get("name", "").endswith("lint::Lint")]
        if lints:
            fields = dict(zip(lints[0]["rv"]["fields"], lints[0]["rv"]["ops"]))
            roots = arg_roots(g, gpv, fields["suggestions"])
            ok = any(o[0] == "call" and (o[3] or "").endswith("cached_suggest_correct_spelling") for o in roots)
            ck.decide(rule, "SpellCheck::lint:suggestions", ok, g.span, "Lint.suggestions derive from cached_suggest_correct_spelling(word): %s" % ok)


def _value_base(f, pv, op):
    return _put_value_base(f, pv, {"args": [None, None, op]})


def _put_value_base(f, pv, t):
    for o in flatten(pv.trace_operand(t["args"][2])):
        pass
    # value = suggestions.clone(): base local of the clone receiver
    for o in pv.trace_operand(t["args"][2]):
        pass
    pl = place_of(t["args"][2])
    if not pl:
        return None
    l = pl[0]
    for _ in range(6):
        if l in f.debug_names():
            break
        nxt = None
        for (bi, si, kind, x) in pv.defs.get(l, []):
            if kind == "assign" and x["rv"]["k"] in ("use", "ref"):
                q = x["rv"].get("place") or place_of(x["rv"]["op"])
                if q:
                    nxt = q[0]
            elif kind == "call" and method(x) == "clone" and place_of(x["args"][0]):
                nxt = place_of(x["args"][0])[0]
        if nxt is None:
            break
        l = nxt
    return f.debug_names().get(l)


# ---------------------------------------------------------------------------------------------------
CHAR_NORMALISERS = {"normalized", "to_lower", "to_lowercase", "to_upper", "to_uppercase", "to_ascii_lowercase", "to_ascii_uppercase", "nfc", "nfkc", "nfd", "nfkd"}


def like_with_like(ck, p, byk, rule):
    fs = byk.get("<MutableDictionary as Dictionary>::contains_exact_word")
    if not ck.anchor(rule, "<MutableDictionary as Dictionary>::contains_exact_word", fs):
        return
    f = fs[0]
    ck.saw(f)
    pv = Prov(f)
    cmps = [(bi, t) for bi, t in f.calls() if (def_of(t) or "").endswith("cmp::PartialEq::eq") or (def_of(t) or "").endswith("cmp::PartialEq::ne")]
    host = f
    if not cmps:
        # the comparison may sit in a closure (get_with_chars(..).is_some_and(|entry| entry.spelling == query))
        for c in p.closures_of(f.name):
            cc = [(bi, t) for bi, t in c.calls() if (def_of(t) or "").endswith("cmp::PartialEq::eq") or (def_of(t) or "").endswith("cmp::PartialEq::ne")]
            if cc:
                cmps, host = cc, c
                break
    if not cmps:
        ck.undecided(rule, "<MutableDictionary as Dictionary>::contains_exact_word:like-with-like", f.span, "no comparison of spellings found in contains_exact_word or its closures: form not recognised")
        return
    parent, parent_pv = f, pv
    if host is not f:
        f, pv = host, Prov(host)
    # are entries normalised where they are stored?
    stored_norm = True
    n_store = 0
    for g in p.fns.values():
        if not g.name.startswith("harper_core::spell::"):
            continue
        gv = None
        for bi, b in enumerate(g.blocks):
            for sx in b["s"]:
                if sx["k"] == "assign" and sx["rv"]["k"] == "agg" and str(sx["rv"].get("name", "")).endswith("WordMapEntry"):
                    gv = gv or Prov(g)
                    n_store += 1
                    names = set()
                    for op in sx["rv"]["ops"]:
                        names |= {last(norm(o[3] or o[2] or "")) for o in arg_roots(g, gv, op) if o[0] == "call"}
                    if "normalized" not in names:
                        stored_norm = False
    for bi, t in cmps:
        sides = []
        for a in t["args"][:2]:
            fields = set()
            names = _conversions(f, pv, a, fields=fields) & CHAR_NORMALISERS
            stored = "canonical_spelling" in fields
            if f is not parent and not stored:
                # a captured value: continue with what the parent did to it before capturing
                from .c16 import _upvar_fields
                ups = _upvar_fields(f, pv, a) | {u for o in arg_roots(f, pv, a) if o[0] == "call" and f.blocks[o[1]]["t"]["args"] for u in _upvar_fields(f, pv, f.blocks[o[1]]["t"]["args"][0])}
                for b in parent.blocks:
                    for sx in b["s"]:
                        if sx["k"] == "assign" and sx["rv"]["k"] == "agg" and sx["rv"].get("agg") == "closure" and sx["rv"].get("name") == f.name:
                            for idx in ups:
                                if idx < len(sx["rv"]["ops"]):
                                    names |= _conversions(parent, parent_pv, sx["rv"]["ops"][idx]) & CHAR_NORMALISERS
            sides.append((names, stored))
        key = "<MutableDictionary as Dictionary>::contains_exact_word:like-with-like"
        q = [n for n, st in sides if not st]
        s_ = [n for n, st in sides if st]
        if len(q) != 1 or len(s_) != 1:
            ck.undecided(rule, key, f.loc(t["ln"]), "comparison operands not recognised as (stored spelling, queried word): %s" % sides)
            continue
        missing = q[0] - s_[0]
        if not missing or (missing == {"normalized"} and stored_norm and n_store):
            ck.proved(rule, key, f.loc(t["ln"]), "queried word through %s, stored spelling through %s%s" % (sorted(q[0]) or "nothing", sorted(s_[0]) or "nothing", " (entries are normalised where they are stored)" if missing else ""))
        else:
            ck.refuted(rule, key, f.loc(t["ln"]), "the queried word goes through %s before the comparison, the stored canonical spelling does not (and the %d places that store entries keep the spelling as given): an entry spelt with a typographic apostrophe (a word added from a document that uses them) never equals its own query, so the word stays reported although the dictionary lists it" % (sorted(missing), n_store))


def _conversions(f, pv, op, depth=0, seen=None, fields=None):
    """names of the value-to-value conversions an operand went through (receiver chain only: the result of a lookup is
    the stored entry, whatever the key went through)"""
    seen = set() if seen is None else seen
    out = set()
    if fields is not None:
        fields |= set(arg_fields(pv, op))
    for o in flatten(pv.trace_operand(op)):
        if o[0] != "call" or o in seen:
            continue
        seen.add(o)
        t = f.blocks[o[1]]["t"]
        m = method(t)
        if m in CHAR_NORMALISERS or m in ("as_ref", "deref", "borrow", "as_slice", "clone", "to_owned", "into", "as_str", "to_vec", "into_owned", "as_mut", "to_smallvec", "iter", "copied", "collect", "map"):
            out.add(m)
            if t["args"] and depth < 10:
                out |= _conversions(f, pv, t["args"][0], depth + 1, seen, fields)
    return out


def dialect_first_wins(ck, p, byk, rule):
    """membership of the merged dictionary is a union over its parts (R-C06-union) but the entry whose dialect the spell
    checker tests is the first part's: sibling disagreement between contains_* and get_word_metadata"""
    fs = byk.get("<MergedDictionary as Dictionary>::get_word_metadata")
    if not ck.anchor(rule, "<MergedDictionary as Dictionary>::get_word_metadata", fs):
        return
    f = fs[0]
    ck.saw(f)
    cfg = Cfg(f)
    pv = Prov(f)
    key = "MergedDictionary::get_word_metadata:dialect"
    loops = cfg.natural_loops()
    first = None
    for bi, b in enumerate(f.blocks):
        if b["cleanup"]:
            continue
        for sx in b["s"]:
            if sx["k"] == "assign" and sx["lhs"] == [0] and sx["rv"]["k"] == "agg" and sx["rv"].get("vname") == "Some" and any(cfg.dominates(h, bi) for h in loops):
                srcs = {last(norm(o[3] or o[2] or "")) for o in flatten(pv.trace_operand(sx["rv"]["ops"][0])) if o[0] == "call"}
                if "get_word_metadata" in srcs:
                    first = sx["ln"]
        t = b["t"]
        if t["k"] == "call" and t.get("dest") == [0] and method(t) in ("find_map", "find", "next"):
            first = t["ln"]
    reads_dialect = False
    sc = byk.get("<SpellCheck as Linter>::lint")
    if sc:
        for h in with_closures(p, sc[0]):
            for b in h.blocks:
                for sx in b["s"]:
                    if sx["k"] == "assign" and "dialect" in repr(sx["rv"]):
                        reads_dialect = True
    if first and reads_dialect:
        ck.refuted(rule, key, f.loc(first), "the merged dictionary answers get_word_metadata with the entry of the first part that knows the letters, and SpellCheck::lint rejects a word whose entry names another dialect: a word the user dictionary lists for every dialect is still reported when the curated list has it for another dialect only (membership is a union over the parts, the dialect is the first part's)")
    elif first:
        ck.proved(rule, key, f.span, "first part's entry is returned, but the spell checker does not test its dialect")
    else:
        ck.undecided(rule, key, f.span, "get_word_metadata does not return the first part's entry; how it combines the parts' dialects is not decided")


def _glued(ck, p, byk):
    import os
    from ..facts import REPO
    rule = "R-C06-glue"
    fs = byk.get("Document::uncached_latin_pattern")
    if not ck.anchor(rule, "Document::uncached_latin_pattern", fs):
        return
    f = fs[0]
    ck.saw(f)
    has_period = any(method(t) == "then_period" for _, t in f.calls())
    words = set()

    def strs(obj):
        if isinstance(obj, dict):
            c = obj.get("const")
            if isinstance(c, str) and re.match(r'^".*"$', c, re.S):
                words.add(c[1:-1])
            for v in obj.values():
                strs(v)
        elif isinstance(obj, list):
            for v in obj:
                strs(v)
    # the literals handed to WordSet::new (arrays of &str live in the function's promoted constants)
    ws = [(bi, t) for bi, t in f.calls() if norm(inst_of(t)).endswith("word_set::{impl}::new")]
    for h in p.fns.values():
        if re.sub(r"::promoted\[\d+\]$", "", h.name) == f.name and h.name != f.name:
            # only promoteds that hold an array of string literals
            if any(sx["k"] == "assign" and sx["rv"]["k"] == "agg" and sx["rv"].get("agg") == "array" for b in h.blocks for sx in b["s"]):
                strs(h.d.get("blocks", []))
    for bi, t in ws:
        strs(t["args"])
    if not ws or not has_period:
        ck.proved(rule, "Document::uncached_latin_pattern:word-set", f.span, "no WordSet followed by a period in the pattern")
        return
    if not ck.anchor(rule, "string literals of the WordSet in uncached_latin_pattern", sorted(words)):
        return
    path = os.path.join(REPO, "harper-core", "dictionary.dict")
    entries = set()
    try:
        with open(path, encoding="utf-8") as fh:
            for line in fh:
                w = re.split(r"[/\s#]", line.strip(), 1)[0]
                if w:
                    entries.add(w)
    except OSError:
        ck.undecided(rule, "Document::uncached_latin_pattern:word-set", f.span, "dictionary.dict not readable")
        return
    ck.floor(rule, "entries read from dictionary.dict", len(entries), 10000)
    bad = []
    for w in sorted(words):
        lw = w.lower()
        if lw + "." in entries:
            continue
        if lw in entries or any(x in entries for x in (lw.capitalize(),)) and lw in entries:
            bad.append(w)
    key = "Document::uncached_latin_pattern:word-set"
    if bad:
        ck.refuted(rule, key, f.span, "the pattern glues a following period onto %s in any capitalisation, but dictionary.dict lists %s as ordinary words and has no lower-case dotted entry for them (%s): written directly before a full stop these listed words become tokens like `%s.` that match no entry in that spelling and are reported as misspelt, with a span that includes the full stop" % (sorted(words), bad, ", ".join(b.lower() + "." for b in bad), bad[0].lower()))
    else:
        ck.proved(rule, key, f.span, "WordSet literals %s: each has a lower-case dotted entry in dictionary.dict, or its bare form is not a listed word" % sorted(words))


# ---------------------------------------------------------------------------------------------------
def _contraction(ck, p):
    """`isn't`, `giant's`: the lexer yields word, apostrophe, word; Document::condense_contractions glues
    them into the one word the dictionary lists.  The pattern engine is greedy and never backtracks, so a
    repetition step inside the contraction pattern - `(word ')+ word` - swallows `t'` of `isn't'` when a
    closing quote follows, finds no final word, and the whole match fails: the fragments `isn` and `t`
    stay separate tokens and are reported as misspelt inside a listed word."""
    from ..util import fns_by_key
    rule = "R-C06-contraction"
    ck.rule(rule, "a listed contraction or possessive is one token wherever it stands: the pattern that Document uses to glue word-apostrophe-word is a plain sequence of single-token steps - no repetition step (RepeatingPattern / then_one_or_more), which the greedy, non-backtracking matcher would let run into a following apostrophe (a closing quote) and so fail on the very contraction in front of it")
    byk = fns_by_key(p)
    fs = byk.get("Document::uncached_contraction_pattern") or byk.get("Document::contraction_pattern")
    if not ck.anchor(rule, "Document::uncached_contraction_pattern", fs):
        return
    f = fs[0]
    ck.saw(f)
    steps, reps = [], []
    for g in with_closures(p, f):
        for bi, t in g.calls():
            i = norm(inst_of(t) or def_of(t) or "")
            m = method(t)
            if "sequence_pattern" in i and m.startswith("then"):
                steps.append(m)
            if m in ("then_one_or_more",) or "repeating_pattern" in i.lower() or "RepeatingPattern" in str(t.get("f")):
                reps.append((m, g.loc(t["ln"])))
    key = "Document::contraction-pattern"
    if reps:
        ck.refuted(rule, key, f.loc(reps[0][1]) if False else reps[0][1], "the contraction pattern contains a repetition step (%s): the matcher is greedy and does not backtrack, so when the contraction is directly followed by another apostrophe - a closing single quote, as in 'it isn't' - the repetition takes `t'` as one more piece, the final word is missing and nothing is glued: `isn` and `t` stay separate tokens and a word the dictionary lists is reported as misspelt" % ", ".join(sorted({m for m, _ in reps})))
    elif steps:
        ck.proved(rule, key, f.span, "sequence of single-token steps: %s" % steps)
    else:
        ck.undecided(rule, key, f.span, "the contraction pattern is not built from SequencePattern steps here; its shape is not decided")
