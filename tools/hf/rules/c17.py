"""C17 — ordinal suffixes are judged correctly for every number (exact on the integer core).

The residue table is obtained by abstract interpretation of NumberSuffix::correct_suffix_for from
the point where the u64 is produced: the value is represented by its residue class mod 100 and
the MIR decision structure is followed for each of the 100 classes."""
import json
import re

from .. import facts
from ..cfg import Cfg, bool_edges
from ..common import arg_fields, arg_roots, def_of, inst_of, method, target_of, gate_for
from ..interp import Interp, Stuck
from ..prov import Prov, flatten, field_names
from ..util import fns_by_key, keyname, place_of, norm, last

LEVEL = "other"


def expected(r):
    if r in (11, 12, 13):
        return "Th"
    return {1: "St", 2: "Nd", 3: "Rd"}.get(r % 10, "Th")


def run(ck, tier):
    ck.rule("R-C17-table", "abstract interpretation of NumberSuffix::correct_suffix_for over the 100 residue classes mod 100 (exact for `% k` with k | 100, comparisons and range matches on residues): the extracted table equals the English rule (11,12,13 -> th; else last digit 1/2/3 -> st/nd/rd; else th); negative, fractional and > u64::MAX inputs return None before the cast")
    ck.rule("R-C17-boundary", "digits directly followed by suffix letters reach the number lexer: a lexer-table entry that is tried before lex_number and matches a fixed-length shape ending in a letter must look at the character after its match (sibling entries of that kind do); otherwise `<digits>s` + letters is split inside the word and the ordinal is never seen as number + suffix")
    ck.rule("R-C17-whole", "the recognised suffix is the whole word: NumberSuffix::from_chars returns Some only for a slice of exactly two characters (prover: on every Some return the length equals 2), because the rule's span is the last two characters of the merged token and its suggestion replaces exactly them")
    ck.rule("R-C17-untouched", "the suffix word reaches condense_number_suffixes as the lexer produced it: no Document pass that runs before it in Document::parse matches the bare words st / nd / rd / th (any letter case) as part of a longer stretch to merge (string constants of the pass, its closures, its pattern constructors and thread-local pattern statics)")
    ck.rule("R-C17-flow", "CorrectNumberSuffix::lint emits a lint iff the token's suffix differs from correct_suffix_for(value); its span is Span::new_with_len(tok.span.end, 2).pulled_by(2) = [end-2, end); the suggestion is ReplaceWith(correct.to_chars()) of the same value; from_chars/to_chars agree on the four suffixes in every letter case; condense_number_suffixes merges exactly two tokens")
    ck.not_decided += ["exactness of the f64 path for n < 2^53 (IEEE arithmetic and str::parse, assumed)", "that the lexer produces the right number token"]
    ck.assumptions += ["`as u64` of a non-negative integral f64 below 2^53 is exact"]
    p = facts.load()
    byk = fns_by_key(p)
    _table(ck, p, byk)
    _flow(ck, p, byk)
    _tables(ck, p, byk)


    _boundary(ck, p, byk)

    _whole(ck, p, byk)

    _untouched(ck, p, byk)
    _writers(ck, p)
    ck.rule("R-C17-verbatim", "the lint's span is an offset into the text the caller holds: every Document constructor that takes a text builds its character vector from it by chars().collect() and copies only - no normalising step (line endings folded, characters dropped or replaced), behind which the reported suffix span would sit one character early")
    from . import c08
    c08.verbatim_source(ck, p, "R-C17-verbatim", lambda g: g.name.startswith("harper_core::document::"), "Document constructors that take a text", 1)
    from . import c02, c05
    ck.rule("R-C17-annotate", "the suffix found for a number is stored on that number's token: condense_number_suffixes does not address self.tokens after its removal with positions counted before it (rule instance of R-C02-stale after-removal) - otherwise only the first ordinal of a document keeps its suffix and a wrong suffix later in the text is never reported")
    c02.stale_use(c05._Sub(ck, "R-C17-annotate", ""), p, "R-C17-annotate")

def _table(ck, p, byk):
    rule = "R-C17-table"
    fs = byk.get("NumberSuffix::correct_suffix_for")
    if not ck.anchor(rule, "NumberSuffix::correct_suffix_for", fs):
        return
    f = fs[0]
    ck.saw(f)
    cfg = Cfg(f)
    cast = None
    for bi, b in enumerate(f.blocks):
        for si, s in enumerate(b["s"]):
            if s["k"] == "assign" and s["rv"]["k"] == "cast" and s["rv"]["kind"] == "float_to_int":
                cast = (bi, si, s)
    if cast is None:
        ck.undecided(rule, "correct_suffix_for:table", f.span, "no float->integer cast found: the function no longer has the shape this rule interprets")
        return
    bi, si, s = cast
    it = Interp(f)
    table = {}
    stuck = None
    for r in range(100):
        env = {s["lhs"][0]: ("res", r, 100)}
        try:
            v, trace = it.run(env, bi, si + 1)
        except Stuck as e:
            stuck = "residue %d: %s" % (r, e)
            break
        if v[0] == "variant" and v[3] == "Some" and v[4] and v[4][0][0] == "variant":
            table[r] = v[4][0][3]
        elif v[0] == "variant" and v[3] == "None":
            table[r] = "None"
        else:
            stuck = "residue %d: result %s" % (r, str(v)[:60])
            break
    if stuck:
        ck.undecided(rule, "correct_suffix_for:table", f.span, "abstract interpretation left the residue domain (%s)" % stuck)
    else:
        wrong = {r: (table[r], expected(r)) for r in range(100) if table[r] != expected(r)}
        ck.extra["residue_table"] = {str(r): table[r] for r in range(100)}
        ck.extra["exhaustive"] = True
        if wrong:
            r0 = min(wrong)
            ck.refuted(rule, "correct_suffix_for:table", f.span, "for integers ≡ %s (mod 100) the function returns a suffix different from English usage: %s (got, expected); smallest witness %d" % (sorted(wrong)[:8], [wrong[r] for r in sorted(wrong)[:4]], r0), {"wrong": {str(k): v for k, v in wrong.items()}})
        else:
            ck.proved(rule, "correct_suffix_for:table", f.span, "all 100 residue classes agree with the English rule: th=%d st=%d nd=%d rd=%d" % tuple(sum(1 for v in table.values() if v == x) for x in ("Th", "St", "Nd", "Rd")))
    # entry conditions
    cb = bi
    guards = []
    pv = Prov(f)
    for gb, b in enumerate(f.blocks):
        t = b["t"]
        if t["k"] != "switch" or not cfg.dominates(gb, cb) or gb == cb:
            continue
        # which comparison?
        d = place_of(t["discr"])
        cmpop = None
        for s2 in b["s"]:
            if s2["k"] == "assign" and d and s2["lhs"] == [d[0]] and s2["rv"]["k"] == "bin":
                cmpop = s2["rv"]
        if cmpop is None:
            # the comparison was computed earlier into a named boolean: follow the discriminant back to it
            for o in pv.trace_operand(t["discr"]):
                if o[0] == "bin" and o[1] in ("Lt", "Gt", "Le", "Ge"):
                    for b2 in f.blocks:
                        for s2 in b2["s"]:
                            if s2["k"] == "assign" and s2["rv"]["k"] == "bin" and s2["rv"]["op"] == o[1] and frozenset(pv.trace_operand(s2["rv"]["a"])) == o[2] and frozenset(pv.trace_operand(s2["rv"]["b"])) == o[3]:
                                cmpop = s2["rv"]
        if cmpop is None:
            continue
        # the taken edge towards the cast and the other edge
        succ = [x for _, x in t["targets"]] + [t["otherwise"]]
        to_cast = [x for x in succ if x == cb or cfg.reaches(x, [cb]) or x == cb]
        away = [x for x in succ if x not in to_cast]
        guards.append((cmpop["op"], _desc(cmpop), bool(away) and all(not (x == cb or cfg.reaches(x, [cb])) for x in away)))
    ops = sorted(g[0] for g in guards)
    ok = len(guards) == 3 and all(g[2] for g in guards) and ops == ["Gt", "Gt", "Lt"]
    if not guards:
        ck.undecided(rule, "correct_suffix_for:entry", f.span, "no comparison guarding the cast was recognised (the guards may be computed in a form this rule does not follow)")
    else:
        ck.decide(rule, "correct_suffix_for:entry", ok, f.span, "comparisons that must fail before the cast is reached: %s" % [(g[0], g[1]) for g in guards])


def _desc(rv):
    def o(x):
        k = x.get("k")
        if k:
            return k.get("txt") or k.get("const") or "?"
        return "_%d" % place_of(x)[0]
    return "%s(%s, %s)" % (rv["op"], o(rv["a"]), o(rv["b"]))


def _flow(ck, p, byk):
    rule = "R-C17-flow"
    fs = byk.get("<CorrectNumberSuffix as Linter>::lint")
    if not ck.anchor(rule, "<CorrectNumberSuffix as Linter>::lint", fs):
        return
    f = fs[0]
    ck.saw(f)
    cfg = Cfg(f)
    pv = Prov(f)
    pushes = [(bi, t) for bi, t in f.calls() if method(t) == "push"]
    cs = [(bi, t) for bi, t in f.calls() if inst_of(t).endswith("number::{impl}::correct_suffix_for")]
    if len(pushes) != 1 or len(cs) != 1:
        ck.refuted(rule, "CorrectNumberSuffix::lint:shape", f.span, "expected one push and one correct_suffix_for call, found %d/%d" % (len(pushes), len(cs)))
        return
    pb = pushes[0][0]
    # guarded by suffix != correct
    ne = [(bi, t) for bi, t in f.calls() if def_of(t).endswith("cmp::PartialEq::ne") or def_of(t).endswith("cmp::PartialEq::eq")]
    ok = False
    detail = "comparisons found: %d" % len(ne)
    for bi, t in ne:
        e = bool_edges(f, bi)
        if not e:
            continue
        want = e[0] if def_of(t).endswith("::ne") else e[1]
        sides = [arg_roots(f, pv, a) for a in t["args"]]
        has_correct = any(any(o[0] == "call" and o[1] == cs[0][0] for o in r) for r in sides)
        has_suffix = any("suffix" in arg_fields(pv, a) or "suffix" in str(pv.trace_operand(a)) for a in t["args"])
        if cfg.dominates(want, pb) and len(cfg.pred[want]) == 1 and has_correct and has_suffix:
            ok = True
            detail = "push is dominated by the edge on which token.suffix != correct_suffix_for(value)"
    ck.decide(rule, "CorrectNumberSuffix::lint:iff-different", ok, f.span, detail)
    # ... and only then: nothing else may route a suffixed number around the push
    from ..common import skip_switches
    loops = cfg.natural_loops()
    inside = [h for h, bd in loops.items() if pb in bd]
    if inside:
        head = max(inside, key=lambda h: len(loops[h]))
        extra = []
        n_ok = 0
        for b2, t2 in skip_switches(f, cfg, loops[head], head, pb):
            dl = place_of(t2["discr"])[0] if place_of(t2["discr"]) else None
            kind = None
            for (b3, si, k3, x3) in pv.defs.get(dl, []):
                if k3 == "assign" and x3["rv"]["k"] == "discr":
                    src = x3["rv"]["place"]
                    names_ = {e[2] for e in src[1:] if isinstance(e, list) and e[0] == "f"} | set(field_names(pv.trace_local(src[0])))
                    roots_ = {last(norm(o[3] or o[2] or "")) for o in flatten(pv.trace_local(src[0])) if o[0] == "call"}
                    if roots_ & {"pulled_by", "correct_suffix_for", "next"} or names_ & {"kind", "suffix"}:
                        kind = "option/variant test"
                elif k3 == "call" and (def_of(x3).endswith("cmp::PartialEq::ne") or def_of(x3).endswith("cmp::PartialEq::eq")):
                    kind = "suffix comparison"
                elif k3 == "assign" and x3["rv"]["k"] == "use" and place_of(x3["rv"]["op"]):
                    for (b4, s4, k4, x4) in pv.defs.get(place_of(x3["rv"]["op"])[0], []):
                        if k4 == "call" and (def_of(x4).endswith("cmp::PartialEq::ne") or def_of(x4).endswith("cmp::PartialEq::eq")):
                            kind = "suffix comparison"
            if kind:
                n_ok += 1
            else:
                extra.append(f.loc(t2.get("ln") or 0))
        ck.decide(rule, "CorrectNumberSuffix::lint:only-if-same", not extra and n_ok >= 2, f.span,
                  "a number with a suffix is skipped only because the suffix is right (or the token has no suffix / correct_suffix_for has no answer): %d recognised tests%s" % (
                      n_ok, "" if not extra else "; but another condition (at %s) also suppresses the lint: a wrong suffix goes unreported whenever it holds" % ", ".join(sorted(set(extra)))))
    # value passed is the token's value
    val_ok = "value" in str(pv.trace_operand(cs[0][1]["args"][0])) or "value" in arg_fields(pv, cs[0][1]["args"][0])
    ck.decide(rule, "CorrectNumberSuffix::lint:value", val_ok, f.loc(cs[0][1]["ln"]), "correct_suffix_for receives the number token's own value: %s" % val_ok)
    # span and suggestion
    lints = [s for b in f.blocks if not b["cleanup"] for s in b["s"] if s["k"] == "assign" and s["rv"]["k"] == "agg" and s["rv"].get("name", "").endswith("lint::Lint")]
    if len(lints) != 1:
        ck.refuted(rule, "CorrectNumberSuffix::lint:lint", f.span, "expected one Lint construction")
        return
    fields = dict(zip(lints[0]["rv"]["fields"], lints[0]["rv"]["ops"]))
    roots = arg_roots(f, pv, fields["span"])
    pulled = [o for o in roots if o[0] == "call" and last(norm(o[3] or "")) == "pulled_by"]
    nwl = [o for o in roots if o[0] == "call" and last(norm(o[3] or "")) == "new_with_len"]
    ok = len(pulled) == 1 and len(nwl) == 1
    detail = "pulled_by=%d new_with_len=%d" % (len(pulled), len(nwl))
    if ok:
        pt = f.blocks[pulled[0][1]]["t"]
        nt = f.blocks[nwl[0][1]]["t"]
        by = pt["args"][1].get("k", {}).get("int")
        ln = nt["args"][1].get("k", {}).get("int")
        st = pv.trace_operand(nt["args"][0])
        from_end = any(_field_path(o)[:2] == ["end", "span"] for o in st)
        ok = by == "2" and ln == "2" and from_end
        detail = "Span::new_with_len(tok.span.end=%s, %s).pulled_by(%s)" % (from_end, ln, by)
    ck.decide(rule, "CorrectNumberSuffix::lint:span", ok, f.span, detail)
    # suggestion: an aggregate Suggestion::ReplaceWith(x) with x = to_chars(correct) (the vec![..] wrapper is std plumbing)
    rws = [s2 for b in f.blocks if not b["cleanup"] for s2 in b["s"] if s2["k"] == "assign" and s2["rv"]["k"] == "agg" and s2["rv"].get("vname") == "ReplaceWith"]
    ok = False
    if len(rws) == 1:
        for o in arg_roots(f, pv, rws[0]["rv"]["ops"][0]):
            if o[0] == "call" and last(norm(o[3] or "")) == "to_chars":
                ok = any(x[0] == "call" and x[1] == cs[0][0] for x in arg_roots(f, pv, f.blocks[o[1]]["t"]["args"][0]))
    others = [s2["rv"].get("vname") for b in f.blocks if not b["cleanup"] for s2 in b["s"] if s2["k"] == "assign" and s2["rv"]["k"] == "agg" and s2["rv"].get("name", "").endswith("suggestion::Suggestion") and s2["rv"].get("vname") != "ReplaceWith"]
    ck.decide(rule, "CorrectNumberSuffix::lint:suggestion", ok and not others, f.span, "the only suggestion built is ReplaceWith(correct_suffix.to_chars()) of the value compared above: %s (other suggestion kinds: %s)" % (ok, others))
    # Span helpers
    g = byk.get("Span::new_with_len")
    if ck.anchor(rule, "Span::new_with_len", g):
        g = g[0]
        gpv = Prov(g)
        ag = [s for b in g.blocks for s in b["s"] if s["k"] == "assign" and s["rv"]["k"] == "agg" and s["rv"].get("name", "").endswith("span::Span")]
        ok = False
        if len(ag) == 1:
            fl = dict(zip(ag[0]["rv"]["fields"], ag[0]["rv"]["ops"]))
            st = flatten(gpv.trace_operand(fl["start"]))
            en = gpv.trace_operand(fl["end"])
            add = any((o[0] == "field" and o[1][0] == "bin" and o[1][1].startswith("Add") and ("arg", 1) in flatten(o[1][2]) and ("arg", 2) in flatten(o[1][3])) or (o[0] == "bin" and o[1].startswith("Add")) for o in en)
            ok = st == {("arg", 1)} and add
        ck.decide(rule, "Span::new_with_len", ok, g.span, "Span { start, end: start + len }: %s" % ok)
    g = byk.get("Span::pulled_by")
    if ck.anchor(rule, "Span::pulled_by", g):
        g = g[0]
        subs = []
        for b in g.blocks:
            for s in b["s"]:
                if s["k"] == "assign" and s["rv"]["k"] == "bin" and s["rv"]["op"].startswith("Sub"):
                    subs.append(s)
        fields_written = sorted({s["lhs"][-1][2] for b in g.blocks for s in b["s"] if s["k"] == "assign" and len(s["lhs"]) > 1 and isinstance(s["lhs"][-1], list) and s["lhs"][-1][0] == "f"})
        if not subs:
            # written as a delegation: copy, then pull_by(by) on the copy
            deleg = [t for _, t in g.calls() if inst_of(t) == "harper_core::span::{impl}::pull_by"]
            pb = byk.get("Span::pull_by")
            if len(deleg) == 1 and pb:
                h = pb[0]
                hsubs = [s for b in h.blocks for s in b["s"] if s["k"] == "assign" and s["rv"]["k"] == "bin" and s["rv"]["op"].startswith("Sub")]
                hw = sorted({s["lhs"][-1][2] for b in h.blocks for s in b["s"] if s["k"] == "assign" and len(s["lhs"]) > 1 and isinstance(s["lhs"][-1], list) and s["lhs"][-1][0] == "f"})
                by_arg = ("arg", 2) in flatten(Prov(g).trace_operand(deleg[0]["args"][1]))
                ck.decide(rule, "Span::pulled_by", len(hsubs) == 2 and hw == ["end", "start"] and by_arg, g.span, "delegates to pull_by(by) on a copy; pull_by subtracts from start and end (%d subtractions, fields %s)" % (len(hsubs), hw))
                subs = None
    if g and subs is not None and not isinstance(g, list):
        ck.decide(rule, "Span::pulled_by", len(subs) == 2 and fields_written == ["end", "start"], g.span, "subtracts `by` from start and end of a copy (%d subtractions, fields written %s)" % (len(subs), fields_written))
    # condense_number_suffixes merges exactly two tokens
    g = byk.get("Document::condense_number_suffixes")
    if ck.anchor(rule, "Document::condense_number_suffixes", g):
        g = g[0]
        ck.saw(g)
        ci = [(bi, t) for bi, t in g.calls() if inst_of(t).endswith("::condense_indices")]
        ok = len(ci) == 1 and ci[0][1]["args"][-1].get("k", {}).get("int") == "2"
        ck.decide(rule, "condense_number_suffixes:two-tokens", ok, g.span, "condense_indices(.., 2): %s" % ok)


def _field_path(o):
    out = []
    x = o
    while isinstance(x, tuple) and x[0] == "field":
        out.append(x[3])
        x = x[1]
    return out


def _tables(ck, p, byk):
    rule = "R-C17-flow"
    tc = byk.get("NumberSuffix::to_chars")
    fc = byk.get("NumberSuffix::from_chars")
    if not (ck.anchor(rule, "NumberSuffix::to_chars", tc) and ck.anchor(rule, "NumberSuffix::from_chars", fc)):
        return
    tc, fc = tc[0], fc[0]
    ck.saw(tc); ck.saw(fc)
    d = p.adts["harper_core::number::NumberSuffix"]
    vnames = {v["idx"]: v["name"] for v in d["variants"]}
    cfg = Cfg(tc)
    # the switch on self's discriminant: the first switch reached from the entry (a helper spliced in puts a goto first)
    b0, hops = 0, 0
    while tc.blocks[b0]["t"]["k"] == "goto" and hops < 6:
        b0, hops = tc.blocks[b0]["t"]["target"], hops + 1
    sw = tc.blocks[b0]["t"]
    to = {}
    if sw["k"] == "switch":
        for v, blk in sw["targets"]:
            seen = set()
            work = [blk]
            found = None
            while work and found is None:
                b = work.pop()
                if b in seen:
                    continue
                seen.add(b)
                for s in tc.blocks[b]["s"]:
                    if s["k"] == "assign" and s["rv"]["k"] == "agg" and s["rv"].get("agg") == "array" and len(s["rv"]["ops"]) == 2:
                        cs = [o.get("k", {}).get("int") for o in s["rv"]["ops"]]
                        if all(c is not None for c in cs):
                            found = "".join(chr(int(c)) for c in cs)
                if found is None:
                    work += cfg.succ[b]
            to[vnames.get(int(v), v)] = found
    ok_to = to == {"Th": "th", "St": "st", "Nd": "nd", "Rd": "rd"}
    ck.decide(rule, "NumberSuffix::to_chars", ok_to, tc.span, "variant -> letters: %s" % to)
    it = Interp(fc)
    bad = []
    n = 0
    for want, word in (("Th", "th"), ("St", "st"), ("Nd", "nd"), ("Rd", "rd")):
        for c0 in (word[0], word[0].upper()):
            for c1 in (word[1], word[1].upper()):
                n += 1

                def read(pl, env, c0=c0, c1=c1):
                    if pl == [1] or pl == [1, "*"]:
                        return ("tuple", [("char", ord(c0)), ("char", ord(c1))])      # the slice itself (its length is asked for)
                    ci = [e for e in pl[1:] if isinstance(e, list) and e[0] == "ci"]
                    if pl[0] == 1 and ci:
                        return ("char", ord(c0 if ci[0][1] == 0 else c1))             # constant index of a slice pattern
                    if pl[0] == 1 and any(isinstance(e, list) and e[0] == "i" for e in pl[1:]):
                        idx = [e for e in pl[1:] if isinstance(e, list) and e[0] == "i"][0][1]
                        v = env.get(idx)
                        if v and v[0] == "int":
                            return ("char", ord(c0 if v[1] == 0 else c1))
                    return None

                def call(t, args):
                    if method(t) == "len":
                        return ("int", 2)
                    return None
                try:
                    v, _ = it.run({}, 0, 0, {"read": read, "call": call})
                    got = v[4][0][3] if v[0] == "variant" and v[3] == "Some" else v[3] if v[0] == "variant" else str(v)
                except Stuck as e:
                    got = "stuck: %s" % e
                if got != want:
                    bad.append((c0 + c1, got, want))
    if bad and all(str(g).startswith("stuck") for _, g, _ in bad):
        ck.undecided(rule, "NumberSuffix::from_chars", fc.span, "from_chars is beyond the table evaluator (%s)" % bad[0][1])
        bad = None
    if bad is None:
        return
    ck.floor(rule, "letter-case variants interpreted through from_chars", n, 16)
    ck.decide(rule, "NumberSuffix::from_chars", not bad, fc.span, "all 16 case variants map to the variant whose to_chars is their lower-case form%s" % ("" if not bad else "; mismatches: %s" % bad))


def _const_of(f, pv, local):
    ds = [x for (bi, si, kind, x) in pv.defs.get(local, []) if kind == "assign"]
    if len(ds) == 1 and ds[0]["rv"]["k"] == "use" and "k" in ds[0]["rv"]["op"] and "int" in ds[0]["rv"]["op"]["k"]:
        return int(ds[0]["rv"]["op"]["k"]["int"])
    return None


def _boundary(ck, p, byk):
    from .c01 import _fnitem_of
    rule = "R-C17-boundary"
    fs = byk.get("harper_core::lexing::lex_token")
    if not ck.anchor(rule, "lexing::lex_token", fs):
        return
    f = fs[0]
    table = None
    for b in f.blocks:
        for sx in b["s"]:
            if sx["k"] == "assign" and sx["rv"]["k"] == "agg" and sx["rv"].get("agg") == "array":
                names = [_fnitem_of(f, o) for o in sx["rv"]["ops"]]
                if names and all(names) and len(names) >= 5:
                    table = names
    if table is None or not any(n.endswith("::lex_number") for n in table):
        ck.refuted(rule, "anchor-missing:lexer-table", f.span, "the lexer table with lex_number in it was not found")
        return
    before = table[:[i for i, n in enumerate(table) if n.endswith("::lex_number")][0]]
    ck.floor(rule, "table entries tried before lex_number", len(before), 3)
    for nm in before:
        g = p.fns.get(nm)
        if g is None:
            ck.undecided(rule, "entry:%s" % last(nm), f.span, "no MIR")
            continue
        ck.saw(g)
        pv = Prov(g)
        reads = {}          # constant index -> locals holding source[index]
        var_reads = 0
        for b in g.blocks:
            if b["cleanup"]:
                continue
            for sx in b["s"]:
                if sx["k"] != "assign":
                    continue
                pl = None
                if sx["rv"]["k"] == "use" and place_of(sx["rv"]["op"]):
                    pl = place_of(sx["rv"]["op"])
                elif sx["rv"]["k"] == "ref":
                    pl = sx["rv"]["place"]
                if pl and pl[0] == 1 and any(isinstance(e, list) and e[0] == "i" for e in pl[1:]):
                    il = [e[1] for e in pl[1:] if isinstance(e, list) and e[0] == "i"][0]
                    c = _const_of(g, pv, il)
                    if c is None:
                        var_reads += 1
                    else:
                        reads.setdefault(c, set()).add(sx["lhs"][0] if len(sx["lhs"]) == 1 else None)
        # source.get(k) / first() etc. with a constant index also look at that position
        for bi, t in g.calls():
            if method(t) in ("get", "get_unchecked") and len(t["args"]) > 1 and ("arg", 1) in flatten(pv.trace_operand(t["args"][0])):
                pl = place_of(t["args"][1])
                c = _const_of(g, pv, pl[0]) if pl else (int(t["args"][1]["k"]["int"]) if "k" in t["args"][1] and "int" in t["args"][1]["k"] else None)
                if c is None:
                    var_reads += 1
                else:
                    reads.setdefault(c, set()).add(t["dest"][0] if len(t["dest"]) == 1 else None)
        # returned constant token lengths
        rets = set()
        for b in g.blocks:
            for sx in b["s"]:
                if sx["k"] == "assign" and sx["rv"]["k"] == "agg" and sx["rv"].get("name", "").endswith("FoundToken") :
                    fields = dict(zip(sx["rv"].get("fields", []), sx["rv"]["ops"]))
                    ni = fields.get("next_index")
                    if ni is not None and "k" in ni and "int" in ni["k"]:
                        rets.add(int(ni["k"]["int"]))
                    elif ni is not None:
                        rets.add(None)
        # letters the last matched character is compared with
        letters = {}
        for b in g.blocks:
            for sx in b["s"]:
                if sx["k"] == "assign" and sx["rv"]["k"] == "bin" and sx["rv"]["op"] in ("Eq", "Ne"):
                    a, c = sx["rv"]["a"], sx["rv"]["b"]
                    for x, y in ((a, c), (c, a)):
                        if "k" in y and place_of(x):
                            txt = y["k"].get("txt", "")
                            m = re.match(r"^'([A-Za-z])'$", txt)
                            if m:
                                for idx, ls in reads.items():
                                    if place_of(x)[0] in ls:
                                        letters.setdefault(idx, set()).add(m.group(1))
        key = "entry:%s" % last(nm)
        fixed = [n for n in rets if n is not None]
        if len(rets) == 1 and fixed and not var_reads:
            n = fixed[0]
            looks_after = any(i >= n for i in reads)
            if (n - 1) in letters and not looks_after:
                ck.refuted(rule, key, g.span, "matches a fixed %d-character shape whose last character is the letter %s and never looks at the character after it: digits + `%s` + more letters are split inside the word (`1000st` becomes the decade `1000s` followed by `t`), so the ordinal never reaches the number-suffix rule" % (n, sorted(letters[n - 1]), sorted(letters[n - 1])[0]))
                continue
            ck.proved(rule, key, g.span, "fixed %d-character shape; ends on a letter: %s; looks at the following character: %s" % (n, (n - 1) in letters, looks_after))
        else:
            ck.proved(rule, key, g.span, "not a fixed-length shape (token length is computed: %s)" % (sorted(map(str, rets)) or "none"))


def _whole(ck, p, byk):
    from ..prover import Ctx, Lin, analyze, entails, counter_model, V_slice
    rule = "R-C17-whole"
    fs = byk.get("NumberSuffix::from_chars")
    if not ck.anchor(rule, "NumberSuffix::from_chars", fs):
        return
    f = fs[0]
    ck.saw(f)
    cx = Ctx(p, {})
    L = Lin.sym(cx.fresh("len(chars)"))
    cx.lens = [L]
    sub = analyze(cx, f, [V_slice(L)], [L])
    somes = 0
    for st, v in sub.rets:
        if v[0] == "opt":
            if v[3] == [] or v[3] == ():      # cannot be None here / is Some on this path
                pass
            # paths on which the result may be Some: the "some" facts are satisfiable
            facts_some = list(st.facts) + list(v[2])
            from ..prover import satisfiable
            if not satisfiable(facts_some):
                continue
            somes += 1
            goal = [L.plus(-2), Lin.konst(2).sub(L)]
            if not all(entails(facts_some, g) for g in goal):
                cm = None
                for g in goal:
                    if not entails(facts_some, g):
                        cm = counter_model(facts_some, g)
                        break
                ck.refuted(rule, "NumberSuffix::from_chars", f.span, "from_chars can return Some for a slice that is not exactly two characters long (%s): a word that merely begins with st/nd/rd/th is merged into the number (`3things`), the lint then covers the last two characters of that word and the suggestion rewrites them" % cx.show_model(cm))
                return
        else:
            ck.undecided(rule, "NumberSuffix::from_chars", f.span, "a return value is not an Option the prover tracks")
            return
    if somes == 0:
        ck.undecided(rule, "NumberSuffix::from_chars", f.span, "no path returning Some was found")
    else:
        ck.proved(rule, "NumberSuffix::from_chars", f.span, "on all %d abstract paths that can return Some the slice length is exactly 2" % somes)


def _str_consts(obj, out):
    if isinstance(obj, dict):
        c = obj.get("const") if "const" in obj else None
        if isinstance(c, str):
            m = re.match(r'^"(.*)"$', c, re.S)
            if m:
                out.add(m.group(1))
        for v in obj.values():
            _str_consts(v, out)
    elif isinstance(obj, list):
        for v in obj:
            _str_consts(v, out)


def _untouched(ck, p, byk):
    rule = "R-C17-untouched"
    fs = byk.get("Document::parse")
    if not ck.anchor(rule, "Document::parse", fs):
        return
    f = fs[0]
    cfg = Cfg(f)
    cns = [(bi, t) for bi, t in f.calls() if inst_of(t).endswith("document::{impl}::condense_number_suffixes")]
    if len(cns) != 1:
        ck.refuted(rule, "anchor-missing:condense_number_suffixes", f.span, "expected one call of condense_number_suffixes in Document::parse, found %d" % len(cns))
        return
    nb = cns[0][0]
    doc = "harper_core::document::"
    from .. import callgraph
    cg = callgraph.CallGraph(p.snap)
    blocked = [q for q in cg.funcs if q.startswith(doc) and (q.endswith("::parse") or "::new" in q.split(doc)[1])]
    offenders = []
    n_pass = 0
    # passes that are new since the reference tree were spliced into parse: they count as passes too
    spliced = [(None, {"ln": f.blocks[0]["t"].get("ln", 0)}, h) for n_, h in getattr(p, "new_helpers", {}).items() if n_ in f.d.get("inlined", []) and n_.startswith(doc)]
    for bi, t, g in [(bi, t, p.fns.get(t["f"].get("inst") or "")) for bi, t in f.calls()] + spliced:
        if g is None or not g.name.startswith(doc) or (bi is not None and (not cfg.dominates(bi, nb) or bi == nb)):
            continue
        n_pass += 1
        # the pass and everything of the document module it reaches (closures, pattern constructors, the
        # thread-local pattern statics and their initialisers): whole-program call graph, which has edges
        # out of promoted constants, statics and consts
        par = cg.reach([g.name], blocked=blocked)
        seen = {q for q in par if q.startswith(doc)}
        consts = set()
        for h in p.fns.values():
            base = re.sub(r"::promoted\[\d+\]$", "", h.name)
            if base in seen:
                _str_consts(h.d.get("blocks", []), consts)
        hit = sorted(c for c in consts if c.lower() in ("st", "nd", "rd", "th"))
        if hit:
            offenders.append((last(g.name), hit, t["ln"]))
    ck.floor(rule, "Document passes that run before condense_number_suffixes", n_pass, 2)
    if offenders:
        nm, hit, ln = offenders[0]
        ck.refuted(rule, "Document::parse:before-number-suffixes", f.loc(ln), "%s runs before condense_number_suffixes and matches the bare word(s) %s: an ordinal like `2st.` loses its suffix word to that pass (merged with its neighbour), so the number-suffix rule never sees it or sees it with the wrong extent" % (nm, hit))
    else:
        ck.proved(rule, "Document::parse:before-number-suffixes", f.span, "%d passes run before condense_number_suffixes; none names st / nd / rd / th among its string constants" % n_pass)


# ---------------------------------------------------------------------------------------------------
def _writers(ck, p):
    """The rule judges the suffix against Number.value.  That value is the number that is written only
    as long as nobody but the lexer produces it: a pass behind the lexer that builds or rewrites Number
    values (folds a sign in, scales, merges) makes the rule judge - or, for a value it does not handle,
    skip - something else than the digits in the text."""
    rule = "R-C17-writers"
    ck.rule(rule, "who may write a number token's value: Number values are built only by the number lexers (harper_core::lexing) and the type's own module (Default / serde); behind the lexer only the ordinal suffix is written, and only by Document::condense_number_suffixes - no parser, Document pass or rule constructs a Number or assigns its value / radix / precision")
    n = 0
    bad, new_lexers = [], []
    for f in sorted(p.fns.values(), key=lambda g: g.name):
        if not f.name.startswith("harper_core::") or f.name.startswith("harper_core::number::"):
            continue
        for b in f.blocks:
            if b["cleanup"]:
                continue
            for sx in b["s"]:
                if sx["k"] != "assign":
                    continue
                rv = sx["rv"]
                what = None
                if rv["k"] == "agg" and str(rv.get("name", "")).endswith("number::Number"):
                    what = "builds a Number"
                fl = [e[2] for e in sx["lhs"][1:] if isinstance(e, list) and e[0] == "f"]
                if fl and fl[-1] in ("value", "radix", "precision") and "Number" in (f.local_tystr(sx["lhs"][0]) or "") + str(sx["lhs"]):
                    what = "assigns Number.%s" % fl[-1]
                if fl and fl[-1] == "suffix" and not f.name.endswith("::condense_number_suffixes"):
                    what = "assigns Number.suffix"
                if what is None:
                    if fl and fl[-1] == "suffix":
                        n += 1
                    continue
                n += 1
                if f.name.startswith("harper_core::lexing::"):
                    if last(f.name) not in ("lex_number", "lex_hex_number"):
                        new_lexers.append((f, sx["ln"], what))
                else:
                    bad.append((f, sx["ln"], what))
    ck.floor(rule, "writes of number values and suffixes in harper_core", n, 2)
    for f, ln, what in bad[:3]:
        ck.saw(f)
        ck.refuted(rule, "%s:%s" % (keyname(p, f), what.split()[0]), f.loc(ln), "%s %s behind the lexer: the value the number-suffix rule judges is then not the number written in the text (a sign folded in makes it negative and the rule skips it; a scaled or merged value gets another suffix demanded)" % (keyname(p, f), what))
    for f, ln, what in new_lexers[:3]:
        ck.saw(f)
        ck.undecided(rule, "%s:%s" % (keyname(p, f), what.split()[0]), f.loc(ln), "a lexer function other than lex_number / lex_hex_number %s; whether its value is the number written is not decided" % what)
    if not bad and not new_lexers:
        ck.proved(rule, "number-writers", "", "Number values are built only in lex_number / lex_hex_number (and the type's own module); the suffix is assigned only in condense_number_suffixes")
