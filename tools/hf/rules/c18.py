"""C18 — title-casing only changes letter case (length and case-only clauses)."""
import re

from .. import facts
from ..cfg import Cfg, bool_edges
from ..common import arg_fields, arg_roots, def_of, inst_of, method, target_of, gate_for
from ..prov import Prov, flatten
from ..util import fns_by_key, keyname, place_of, norm, last, with_closures
from .c13 import ops_on, _base_local

LEVEL = "other"
GROW_SHRINK = {"push", "insert", "remove", "truncate", "extend", "extend_from_slice", "resize", "resize_with", "drain", "clear", "pop", "append", "split_off", "swap_remove", "retain", "dedup", "splice", "extend_from_within", "set_len", "reserve_exact", "shrink_to"}
ELEMENT_ACCESS = {"index_mut", "index", "iter_mut", "iter", "deref", "deref_mut", "as_mut_slice", "as_slice", "len", "is_empty", "get", "get_mut"}


def strip_versions(o):
    """provenance term with block numbers of calls removed (for comparing two index expressions)"""
    if isinstance(o, frozenset):
        return frozenset(strip_versions(x) for x in o)
    if isinstance(o, tuple):
        if o and o[0] == "call":
            return ("call", o[2])
        return tuple(strip_versions(x) for x in o)
    return o


def _ascii_case_map(p, o):
    """'upper' / 'lower' if the call origin is char::to_ascii_uppercase / lowercase, directly or through a
    workspace helper whose whole body is that call on its own parameter"""
    full = norm(o[3] or o[2] or "")
    nm = last(full)
    if nm == "to_ascii_uppercase":
        return "upper"
    if nm == "to_ascii_lowercase":
        return "lower"
    g = p.fns.get(o[3] or "")
    if g is not None and g["argc"] == 1:
        calls_ = [t for _, t in g.calls()]
        if len(calls_) == 1 and last(norm(inst_of(calls_[0]))) in ("to_ascii_uppercase", "to_ascii_lowercase") and calls_[0].get("dest") == [0]:
            gpv = Prov(g)
            if ("arg", 1) in flatten(gpv.trace_operand(calls_[0]["args"][0])):
                return "upper" if last(norm(inst_of(calls_[0]))) == "to_ascii_uppercase" else "lower"
    return None


def run(ck, tier):
    ck.rule("R-C18-length", "effects: in make_title_case the output buffer is created as a copy of the span's characters, receives only element stores (no push/insert/remove/truncate/extend/resize/drain) and is the returned value; make_title_case_str converts chars<->String without filtering")
    ck.rule("R-C18-first", "the first word-like token is capitalised whatever it is: the word loop compares the ordinal of the word-like token (the enumerate() counter over iter_word_likes()) with 0, and the true edge of that test reaches the upper-casing store before the next iteration on every path")
    ck.rule("R-C18-caseonly", "every store output[i] = v has v = to_ascii_uppercase/lowercase of output[i] at the same index expression, or an element of the dictionary's canonical capitalisation of that same word under the is_proper_noun guard; the entry found for a word is filed under its lower-cased, apostrophe-normalised spelling and nothing coarser (WordId::from_word_chars, WordMap::insert: rule instances of R-C06-id), so that spelling has the word's own letters")
    ck.not_decided += ["idempotence (depends on should_capitalize_token's values)", "in-bounds-ness of correct_caps[idx]"]
    ck.rule("R-C18-parser", "same length: make_title_case returns the characters between the first and the last token, so a caller of make_title_case_str / _chars must hand it a parser whose tokens cover the whole text - the plain-English parser (R-C02-tile); a Markdown or other masking parser leaves markup, code spans and outer blanks outside the tokens and the result is cut short")
    ck.rule("R-C18-idem", "premise of idempotence: what make_title_case decides for a word depends on the word's letters regardless of their case (dictionary look-ups by word id, lower-cased comparisons), on its kind and on its position - never on the case the letters currently have; with the three case-only operations (upper-case the first letter, lower-case the word, copy the canonical spelling) that makes a second pass decide the same and change nothing. A decision that reads the current case is reported as undecided, not refuted: it can still be idempotent")
    p = facts.load()
    byk = fns_by_key(p)
    _idem(ck, p)
    _casefree_condensers(ck, p)
    _callers(ck, p)
    fs = byk.get("harper_core::title_case::make_title_case")
    if not ck.anchor("R-C18-length", "title_case::make_title_case", fs):
        return
    f = fs[0]
    ck.saw(f)
    cfg = Cfg(f)
    pv = Prov(f)
    # (a helper spliced in may have a parameter of the same name: the function's own local is the one with the lowest number)
    out_local = min([l for l, n in f.debug_names().items() if n == "output"], default=None)
    if out_local is None:
        ck.refuted("R-C18-length", "anchor-missing:output", f.span, "the output buffer local was not found")
        return
    ops = ops_on(f, pv, out_local)
    names = sorted({m for m, _, _ in ops})
    bad = [(m, t) for m, _, t in ops if m in GROW_SHRINK]
    unknown = [(m, t) for m, _, t in ops if m not in GROW_SHRINK and m not in ELEMENT_ACCESS]
    for m, t in bad:
        ck.refuted("R-C18-length", "make_title_case:%s" % m, f.loc(t["ln"]), "the output buffer is passed to %s: the result may be longer or shorter than the input" % target_of(t))
    for m, t in unknown:
        ck.undecided("R-C18-length", "make_title_case:%s" % m, f.loc(t["ln"]), "operation %s on the output buffer is outside the classified vocabulary" % target_of(t))
    if not bad:
        ck.proved("R-C18-length", "make_title_case:ops", f.span, "operations on `output`: %s" % names)
    # created as a copy of the span content, and returned
    creators = [x for (bi, si, kind, x) in pv.defs.get(out_local, []) if kind == "call"]
    created = len(creators) == 1 and method(creators[0]) == "to_vec" and any(o[0] == "call" and last(norm(o[3] or "")) == "get_content" for o in arg_roots(f, pv, creators[0]["args"][0]))
    ret = pv.trace_local(0)
    rets_ok = all((o[0] == "call" and ((o[1] in [bi for (bi, si, k, x) in pv.defs.get(out_local, []) if k in ("call", "mutcall")]) or last(norm(o[3] or "")) == "new")) for o in flatten(ret))
    ck.decide("R-C18-length", "make_title_case:copy-and-return", created and rets_ok, f.span, "output = span.get_content(source).to_vec(): %s; the function returns output (or an empty Vec for no tokens): %s" % (created, rets_ok))
    # the string wrapper
    ws = byk.get("harper_core::title_case::make_title_case_str")
    if ck.anchor("R-C18-length", "title_case::make_title_case_str", ws):
        w = ws[0]
        ck.saw(w)
        ms = [method(t) for _, t in w.calls()]
        filt = [m for m in ms if m in ("filter", "filter_map", "skip", "take", "skip_while", "take_while", "trim", "trim_start", "trim_end", "replace", "dedup")]
        ck.decide("R-C18-length", "make_title_case_str", not filt and "make_title_case_chars" in ms, w.span, "calls %s; filtering adaptors: %s" % (sorted(set(ms)), filt))

    # ---- case-only stores
    rule = "R-C18-caseonly"
    stores = []
    for bi, b in enumerate(f.blocks):
        if b["cleanup"]:
            continue
        for s in b["s"]:
            if s["k"] == "assign" and len(s["lhs"]) == 2 and s["lhs"][1] == "*":
                ptr = s["lhs"][0]
                src = [x for (cb, si, kind, x) in pv.defs.get(ptr, []) if kind == "call" and method(x) == "index_mut"]
                if src and _base_local(f, pv, src[0]["args"][0]) == out_local:
                    stores.append((bi, s, src[0]))
    n_sites = len(stores)
    # in-place case change of one element: output[i].make_ascii_uppercase() - case-only and on its own index by definition
    for bi, t in f.calls():
        if method(t) in ("make_ascii_uppercase", "make_ascii_lowercase") and "char" in norm(inst_of(t)) and t["args"]:
            src = [x for x in flatten(pv.trace_operand(t["args"][0])) if x[0] == "call" and last(norm(x[3] or "")) == "index_mut"]
            if src and all(_base_local(f, pv, f.blocks[x[1]]["t"]["args"][0]) == out_local for x in src):
                n_sites += 1
                ck.proved(rule, "make_title_case:store:%s" % ("upper" if "upper" in method(t) else "lower"), f.loc(t["ln"]), "output[i].%s(): an ASCII case change of that element in place" % method(t))
    for bi, s, imut in stores:
        val = pv.trace_operand(s["rv"]["op"]) if s["rv"]["k"] == "use" else set()
        ok = False
        detail = "stored value: %s" % sorted(map(str, flatten(val)))[:2]
        for o in flatten(val):
            if o[0] == "call" and _ascii_case_map(p, o):
                ct = f.blocks[o[1]]["t"]
                rd = [x for x in flatten(pv.trace_operand(ct["args"][0])) if x[0] == "call" and last(norm(x[3] or "")) == "index"]
                for x in rd:
                    it = f.blocks[x[1]]["t"]
                    same_buf = _base_local(f, pv, it["args"][0]) == out_local
                    i1 = strip_versions(frozenset(pv.trace_operand(it["args"][1])))
                    i2 = strip_versions(frozenset(pv.trace_operand(imut["args"][1])))
                    ok = same_buf and i1 == i2
                    detail = "output[i] = output[i].to_ascii_%scase() with the same index expression: %s" % (_ascii_case_map(p, o), ok)
        ck.decide(rule, "make_title_case:store:%s" % ("upper" if "uppercase" in detail else "lower" if "lowercase" in detail else "other"), ok, f.loc(s["ln"]), detail)
    # the proper-noun copy through for_each over output[a..b].iter_mut()
    for c in p.closures_of(f.name):
        cst = [s for b in c.blocks if not b["cleanup"] for s in b["s"] if s["k"] == "assign" and len(s["lhs"]) == 2 and s["lhs"][1] == "*"]
        if not cst:
            continue
        ck.saw(c)
        n_sites += 1
        cpv = Prov(c)
        # in the parent: the closure is the argument of for_each over iter_mut(index_mut(output, range))
        fe = [(bi, t) for bi, t in f.calls() if method(t) == "for_each"]
        over_output = False
        guard = False
        caps_ok = False
        for bi, t in fe:
            roots = arg_roots(f, pv, t["args"][0])
            over_output = any(o[0] == "call" and last(norm(o[3] or "")) == "index_mut" and _base_local(f, pv, f.blocks[o[1]]["t"]["args"][0]) == out_local for o in roots)
            g = gate_for(f, cfg, bi, lambda x: method(x) == "is_proper_noun", want=True)
            guard = bool(g)
            # the captured slice is get_correct_capitalization_of(word text)
            for b in f.blocks:
                for s in b["s"]:
                    if s["k"] == "assign" and s["rv"]["k"] == "agg" and s["rv"].get("agg") == "closure" and s["rv"].get("name") == c.name:
                        for o in s["rv"]["ops"]:
                            rs = arg_roots(f, pv, o)
                            gc = [r for r in rs if r[0] == "call" and last(norm(r[3] or r[2] or "")) == "get_correct_capitalization_of"]
                            for r in gc:
                                gt = f.blocks[r[1]]["t"]
                                caps_ok = any(x[0] == "call" and last(norm(x[3] or "")) == "get_content" for x in arg_roots(f, pv, gt["args"][1]))
        val = cpv.trace_operand(cst[0]["rv"]["op"]) if cst[0]["rv"]["k"] == "use" else set()
        from_caps = any("correct_caps" in str(o) for o in val)
        ok = over_output and guard and caps_ok and from_caps
        ck.decide(rule, "make_title_case:store:canonical-copy", ok, c.span,
                  "*c = correct_caps[idx] over output[word span].iter_mut()=%s, under is_proper_noun=%s, correct_caps = dict.get_correct_capitalization_of(the word's own text)=%s/%s" % (over_output, guard, caps_ok, from_caps))
    ck.floor(rule, "store sites into the output buffer", n_sites, 2)
    # the canonical spelling that is copied over a proper noun is the word's own letters in another case only if the
    # dictionary files an entry under nothing coarser than its lower-cased, apostrophe-normalised spelling
    # (rule instances of R-C06-id: a word id that also folds accents makes `bogota` find `Bogotá`)
    from . import c05, c06
    from .c03 import _Only
    c06._id(c05._Sub(_Only(ck, ("WordId::from_word_chars", "WordMap::insert")), rule, "lookup:"), p, fns_by_key(p))


    _first(ck, p, byk)

def _first(ck, p, byk):
    rule = "R-C18-first"
    fs = byk.get("harper_core::title_case::make_title_case")
    if not fs:
        return
    f = fs[0]
    cfg = Cfg(f)
    pv = Prov(f)
    ups = [bi for bi, t in f.calls() if _ascii_case_map(p, ("call", bi, def_of(t), inst_of(t))) == "upper" or (method(t) == "make_ascii_uppercase" and "char" in norm(inst_of(t)))]
    eqs = []
    for bi, b in enumerate(f.blocks):
        if b["cleanup"]:
            continue
        for sx in b["s"]:
            if sx["k"] == "assign" and sx["rv"]["k"] == "bin" and sx["rv"]["op"] == "Eq":
                a, c = sx["rv"]["a"], sx["rv"]["b"]
                zero = [x for x in (a, c) if "k" in x and str(x["k"].get("int")) == "0"]
                other = [x for x in (a, c) if "k" not in x]
                if len(zero) == 1 and len(other) == 1 and f.local_tystr(place_of(other[0])[0]) == "usize":
                    eqs.append((bi, sx, other[0]))
    if not ups:
        ck.refuted(rule, "anchor-missing:upper-casing-store", f.span, "no to_ascii_uppercase in make_title_case")
        return
    ordinal, position = [], []
    for bi, sx, op in eqs:
        roots = arg_roots(f, pv, op)
        names = {last(norm(o[3] or o[2] or "")) for o in roots if o[0] == "call"}
        if "enumerate" in names and "iter_word_likes" in names and "next" in names:
            ordinal.append((bi, sx))
        elif names & {"iter_word_like_indices", "iter_word_indices", "position", "first_word_like_index"} or ("next" in names and "enumerate" not in names):
            position.append((bi, sx, sorted(names)))
    heads = cfg.natural_loops()
    if ordinal:
        bi, sx = ordinal[0]
        t = f.blocks[bi]["t"]
        if t["k"] != "switch":
            # the result was bound to a name (`let is_first = index == 0`) and is branched on later
            flag = sx["lhs"][0]
            later = []
            for b2, blk in enumerate(f.blocks):
                t2 = blk["t"]
                if t2["k"] == "switch" and place_of(t2["discr"]):
                    l2 = place_of(t2["discr"])[0]
                    srcs, grew = {l2}, True
                    while grew:
                        grew = False
                        for l3 in list(srcs):
                            for (b3, si, kind, x2) in pv.defs.get(l3, []):
                                if kind == "assign" and x2["rv"]["k"] == "use" and place_of(x2["rv"]["op"]) and place_of(x2["rv"]["op"])[0] not in srcs:
                                    srcs.add(place_of(x2["rv"]["op"])[0])
                                    grew = True
                    if flag in srcs:
                        later.append(b2)
            if not later:
                ck.undecided(rule, "make_title_case:first-word", f.loc(sx["ln"]), "`ordinal == 0` is computed but no branch on its value was found: how it leads to the upper-casing is not of a recognised form")
                return
            bi = later[0]
            t = f.blocks[bi]["t"]
        reach_ok = False
        gates = set()
        if t["k"] == "switch":
            # the edge taken when the comparison is true
            tgt = [x for v, x in t["targets"] if str(v) != "0"] if isinstance(t.get("targets"), list) else []
            tgt = tgt or ([t["otherwise"]] if t.get("otherwise") is not None else [])
            inside = [h for h, body in heads.items() if bi in body]
            head = max(inside, key=lambda h: len(heads[h])) if inside else None
            if tgt and head is not None:
                def passes_upper(x):
                    return x in ups or cfg.path(x, {head}, avoid=set(ups)) is None
                reach_ok = True
                for x in tgt:
                    if passes_upper(x):
                        continue
                    # `a || b || c` lowering: the true arm stores `true` into a flag that a later switch tests
                    flags, y = set(), x
                    for _ in range(6):
                        for s2 in f.blocks[y]["s"]:
                            if s2["k"] == "assign" and len(s2["lhs"]) == 1 and s2["rv"]["k"] == "use" and "k" in s2["rv"]["op"] and s2["rv"]["op"]["k"].get("txt") == "true":
                                flags.add(s2["lhs"][0])
                        if f.blocks[y]["t"]["k"] != "goto":
                            break
                        y = f.blocks[y]["t"]["target"]
                    ok_x = False
                    for b2 in heads[head]:
                        t2 = f.blocks[b2]["t"]
                        if t2["k"] != "switch" or not place_of(t2["discr"]):
                            continue
                        l2 = place_of(t2["discr"])[0]
                        srcs = {l2} | {place_of(x2["rv"]["op"])[0] for (b3, si, kind, x2) in pv.defs.get(l2, []) if kind == "assign" and x2["rv"]["k"] == "use" and place_of(x2["rv"]["op"])}
                        if srcs & flags:
                            tt = [x3 for v, x3 in t2["targets"] if str(v) != "0"] or ([t2["otherwise"]] if t2.get("otherwise") is not None else [])
                            if tt and all(passes_upper(x3) for x3 in tt) and cfg.path(x, {b2}, avoid={head}) is not None:
                                ok_x = True
                                gates.add(b2)
                    reach_ok = reach_ok and ok_x
        ck.decide(rule, "make_title_case:first-word", reach_ok, f.loc(sx["ln"]), "`ordinal == 0` on the enumerate() counter of iter_word_likes(); its true edge reaches the upper-casing store before the next iteration on every path: %s" % reach_ok)
        # ... and no iteration gets round the test: from the loop header back to it, every path passes the
        # test (or an upper-casing store)
        if t["k"] == "switch":
            inside = [h for h, body in heads.items() if bi in body]
            head = max(inside, key=lambda h: len(heads[h])) if inside else None
            if head is not None:
                # blocks that evaluate the comparison or branch on it
                # `a || index == 0 || c` is lowered to a flag and one later switch on it: that switch is the
                # place every iteration has to pass; a direct `if index == 0` is its own gate
                tests = set(gates) if gates else {bi}
                by = None
                for s0 in cfg.succ[head]:
                    if s0 in tests or s0 in ups:
                        continue
                    by = [s0] if s0 == head else cfg.path(s0, {head}, avoid=tests | set(ups))
                    if by is not None:
                        by = [head] + ([s0] if by and by[0] != s0 else []) + list(by)
                        break
                if by is None:
                    ck.proved(rule, "make_title_case:first-word:every-word", f.loc(sx["ln"]), "every iteration of the word loop passes the first-word test (or upper-cases anyway) before the next one starts")
                else:
                    lns = sorted({f.blocks[b0]["t"].get("ln") for b0 in by if f.blocks[b0]["t"].get("ln")})
                    ck.refuted(rule, "make_title_case:first-word:every-word", f.loc(lns[-1] if lns else sx["ln"]), "an iteration of the word loop can reach the next one without passing the first-word test or an upper-casing store (lines %s): a word that takes this way is not capitalised even when it is the first of the title - e.g. a proper noun whose dictionary spelling starts in lower case (eBay, iOS, macOS)" % lns[:8])
    elif position:
        bi, sx, names = position[0]
        ck.refuted(rule, "make_title_case:first-word", f.loc(sx["ln"]), "the first-word test compares a token position (%s) with 0: a title that opens with a quote, bracket or blank has its first word at a later position, so a leading `the`/`of`/`and` stays lower-case" % ", ".join(names))
    else:
        ck.refuted(rule, "anchor-missing:first-word-test", f.span, "no comparison of a word ordinal with 0 found in make_title_case: the clause `the first word is always capitalised` has no mechanism the check can see (fail closed)")


CASE_READS = {"is_uppercase", "is_lowercase", "is_ascii_uppercase", "is_ascii_lowercase", "is_titlecase", "is_alphabetic_uppercase"}


def _idem(ck, p):
    rule = "R-C18-idem"
    from ..util import with_closures
    fns = [f for f in p.fns.values() if f.name.startswith("harper_core::title_case::") and f.get("kind") != "Promoted" and "::tests::" not in f.name and "::{impl" not in f.name]
    fns = [f for f in fns if not f.name.startswith("harper_core::title_case::tests")]
    if not ck.anchor(rule, "functions of harper_core::title_case", fns):
        return
    reads = []
    n = 0
    for f in sorted(fns, key=lambda f: f.name):
        if "lazy_static" in f.name or "SPECIAL_CONJUNCTIONS" in f.name:
            continue
        n += 1
        ck.saw(f)
        pv = Prov(f)
        for bi, t in f.calls():
            m = method(t)
            if m in CASE_READS:
                reads.append("%s (%s, line %d)" % (m, keyname(p, f), t["ln"]))
            elif m in ("eq", "ne") and (def_of(t) or "").endswith(("cmp::PartialEq::eq", "cmp::PartialEq::ne")):
                tys = " ".join(f.ty(x)["s"] for x in t["f"].get("targs", []) if isinstance(x, int))
                if "char" in tys:
                    conv = set()
                    for a in t["args"][:2]:
                        conv |= {last(norm(o[3] or o[2] or "")) for o in arg_roots(f, pv, a) if o[0] == "call"}
                    if not conv & {"to_lower", "to_lowercase", "to_ascii_lowercase", "to_uppercase", "to_ascii_uppercase"}:
                        reads.append("case-sensitive comparison of characters (%s, line %d)" % (keyname(p, f), t["ln"]))
    key = "title_case:decisions-ignore-current-case"
    if reads:
        ck.undecided(rule, key, "", "a decision reads the current letter case: %s - a second pass sees other cases than the first and may decide differently (for example a word typed pH: not all-caps on the first pass, all-caps PH after it); idempotence is not decided" % "; ".join(reads[:4]))
    else:
        ck.proved(rule, key, "", "%d functions of the module: no case predicate on the text and no case-sensitive comparison of its characters" % n)


def _callers(ck, p):
    rule = "R-C18-parser"
    n = 0
    for f in sorted(p.fns.values(), key=lambda f: f.name):
        if "::tests::" in f.name or f.name.startswith("harper_core::title_case::tests"):
            continue
        for bi, t in f.calls():
            inst = norm(inst_of(t))
            if inst not in ("harper_core::title_case::make_title_case_str", "harper_core::title_case::make_title_case_chars"):
                continue
            if f.name.startswith("harper_core::title_case::") and "make_title_case_chars" in inst:
                continue            # make_title_case_str forwarding its own generic parser
            n += 1
            ck.saw(f)
            tys = [f.ty(x)["s"] for x in t["f"].get("targs", []) if isinstance(x, int)]
            parser = [x for x in tys if "parsers::" in x or "Parser" in x or x.endswith("PlainEnglish")] or tys
            key = "%s:parser" % keyname(p, f)
            txt = " ".join(tys)
            if "PlainEnglish" in txt:
                ck.proved(rule, key, f.loc(t["ln"]), "title-casing with the plain-English parser, whose tokens tile the text")
            elif re.search(r"Markdown|Mask|Typst|JsDoc|JavaDoc|Go\b|Unit\b|CommentParser|HtmlParser|LiterateHaskell|GitCommit|IsolateEnglish|CollapseIdentifiers", txt):
                ck.refuted(rule, key, f.loc(t["ln"]), "title-casing with %s: its tokens do not cover the whole text (markup, code spans, link targets and outer blanks are no tokens), and make_title_case returns only the characters between the first and the last token - the result is shorter than the input" % (parser[:1] or tys))
            else:
                ck.undecided(rule, key, f.loc(t["ln"]), "parser type %s: whether its tokens cover the whole text is not decided" % tys)
    ck.extra["title_case_callers"] = n


# ---------------------------------------------------------------------------------------------------
CASE_SENSITIVE_STEPS = {"then_exact_word", "then_exact_phrase", "then_strict_word"}


def _casefree_condensers(ck, p):
    """Title-casing parses its input, and parses its own output when applied again.  The patterns by
    which Document glues tokens together (`et al.`, contractions, ellipses, `a`/`an` ..) must therefore
    match whatever the case of the letters: a condenser that recognises `et al.` but not `Et al.` glues
    the words on the first pass, is handed `Et al.` on the second, leaves `al` a word of its own - and the
    second pass capitalises it."""
    rule = "R-C18-idem"
    fs = [f for f in p.fns.values() if f.name.startswith("harper_core::document::") and re.search(r"::uncached_\w+_pattern$", f.name)]
    ck.floor(rule, "pattern builders of the Document condensing passes", len(fs), 2)
    for f in sorted(fs, key=lambda g: g.name):
        ck.saw(f)
        hits = []
        for g in with_closures(p, f):
            for bi, t in g.calls():
                if method(t) in CASE_SENSITIVE_STEPS:
                    hits.append((method(t), g.loc(t["ln"])))
        key = "%s:case-free" % keyname(p, f)
        if hits:
            ck.refuted(rule, key, hits[0][1], "the pattern matches a word by its exact characters (%s): the tokens of a text then depend on the case of its letters - title-casing changes that case, so its output is tokenised differently from its input and a second pass capitalises a word the first one had glued into a neighbour (`smith et al.` -> `Smith Et al.` -> `Smith Et Al.`)" % ", ".join(sorted({h[0] for h in hits})))
        else:
            ck.proved(rule, key, f.span, "no case-sensitive word step in the pattern")
