"""C02 — tokens are in bounds, ordered, disjoint (tiling, re-basing and merge clauses)."""
import re

from .. import facts
from ..cfg import Cfg
from ..common import arg_fields, arg_roots, def_of, inst_of, method, target_of
from ..prov import Prov, flatten, field_names
from ..prover import Ctx, Lin, analyze, V_slice, V_int, UNKNOWN, V_opt, V_struct, struct_get, entails
from ..util import fns_by_key, keyname, place_of, norm, last, with_closures
from . import c01

LEVEL = "other"


def run(ck, tier):
    ck.rule("R-C02-tile", "PlainEnglish::parse: every pushed token has span (cursor, cursor + next_index) and the only update of cursor on the way back to the loop head is cursor += next_index with that same next_index, so the lexer stage tiles the text exactly")
    ck.rule("R-C02-rebase", "offset provenance: where a parser hands a sub-slice of its source to an inner parser and shifts the resulting spans, the sub-slice is cut directly out of the source parameter and the shift equals the start of that very cut; line-splitting parsers advance their offset by line.len() + 1 exactly once per iteration on every path")
    ck.rule("R-C02-twins", "quote twins are token *indices*: in Document::parse no call that can change the number or order of tokens (transitively: remove_indices / clear / push / insert / remove / retain / truncate / drain / extend on self.tokens) is reachable after match_quotes")
    ck.rule("R-C02-units", "spans are char offsets: no byte length / byte position of a str or String reaches a span or an index into the char source unconverted, and the Typst translator lexes verbatim source text only (rule instances of R-C04-units)")
    ck.rule("R-C02-adjacent", "a token only swallows its neighbour: where a cursor-loop condensing pass (condense_spaces, condense_newlines) tests adjacency at all, the test compares the span.end of the very token that is then extended with the span.start of the very token it swallows - comparing some third token instead lets the kept token jump over tokens that stay in the stream (overlap)")
    ck.rule("R-C02-stale", "token indices do not survive a resize: in every Document method that removes tokens through an index list, an index collected before an earlier removal of the same method is re-based by exactly the number of tokens that removal takes out in front of it (stretch - 1 per entry of the earlier list); indices used by the first removal are the scan counter itself")
    ck.rule("R-C02-condense", "merging never loses characters: in the queue-based condensing passes of Document every token index pushed onto the removal queue is paired with an assignment that extends a kept token's span (before the push in the same iteration, or on every path from the push to remove_indices)")
    ck.not_decided += ["ordering/disjointness of Markdown / tree-sitter derived tokens (foreign parsers)", "lexical meaning of token text (number values, punctuation identity)", "quote twin validity", "Markdown::parse and Typst offset bookkeeping (byte/char accumulators: see C04)"]
    p = facts.load()
    byk = fns_by_key(p)
    _tile(ck, p, byk)
    _rebase_cut(ck, p, byk)
    _rebase_acc(ck, p, byk)
    _condense(ck, p, byk)
    _quotes_last(ck, p, byk)
    _stale(ck, p, byk)
    stale_use(ck, p, "R-C02-stale")
    collapse_extent(ck, p, "R-C02-condense")
    typst_order(ck, p, "R-C02-order")
    _adjacent(ck, p, byk)
    _fallback(ck, p)
    _md_cover(ck, p, byk)
    from . import c04, c05
    c04._byte_lengths(c05._Sub(ck, "R-C02-units", ""), p)
    c04._typst_verbatim(c05._Sub(ck, "R-C02-units", ""), p)


# ---------------------------------------------------------------------------------------------------
def _tile(ck, p, byk):
    rule = "R-C02-tile"
    fs = byk.get("<PlainEnglish as Parser>::parse")
    if not ck.anchor(rule, "<PlainEnglish as Parser>::parse", fs):
        return
    f = fs[0]
    ck.saw(f)
    cfg = Cfg(f)
    names = {n: l for l, n in f.debug_names().items()}
    cur = names.get("cursor")
    if cur is None:
        ck.refuted(rule, "anchor-missing:cursor", f.span, "no local named cursor")
        return
    spans = []

    def hook(cx, fn, bb, t, a, st, reports):
        r = c01.span_hook(True)(cx, fn, bb, t, a, st, reports)
        if norm(t["f"].get("inst") or "") == "harper_core::span::{impl}::new" and len(a) == 2 and a[0][0] == "int" and a[1][0] == "int":
            spans.append((bb, a[0][1], a[1][1], st.vals.get(cur)))
        return r
    cx = Ctx(p, {"call": hook})
    args, fsx = c01.generic_args(cx, f)
    sub = analyze(cx, f, args, fsx, want_edges=True)
    loops = cfg.natural_loops()
    if len(loops) != 1 or not spans:
        ck.undecided(rule, "PlainEnglish::parse", f.span, "expected one loop and a Span::new with affine operands (loops=%d, spans=%d)" % (len(loops), len(spans)))
        return
    head = list(loops)[0]
    body = loops[head]
    bb, s_lin, e_lin, cur_at_span = spans[-1]
    start_is_cursor = cur_at_span is not None and cur_at_span[0] == "int" and cur_at_span[1] == s_lin
    # value of cursor on every back edge = span end
    backs = [(src, st) for (src, tgt), lst in sub.edges.items() if tgt == head and src in body for st in lst]
    ends_ok = bool(backs) and all(st.vals.get(cur, UNKNOWN)[0] == "int" and st.vals[cur][1] == e_lin for src, st in backs)
    pushes = [bi for bi, t in f.calls() if method(t) == "push"]
    pushed = bool(pushes) and all(any(cfg.dominates(pb, src) for pb in pushes) for src, _ in backs)
    # the panic arm is the only other way on: the token is pushed or the function diverges/returns
    ck.decide(rule, "PlainEnglish::parse", start_is_cursor and ends_ok and pushed, f.span,
              "token span = (%s, %s); span start is the cursor=%s; on every back edge cursor == span end=%s; a token is pushed on every iteration that continues=%s" % (cx.show(s_lin), cx.show(e_lin), start_is_cursor, ends_ok, pushed))
    # the token list only grows: a token taken out again (pop / truncate / remove / retain ...) leaves the
    # characters it covered without a token - and makes the end of the text look different from the same
    # characters in the middle of a longer text
    from .c13 import ops_on, _base_local
    pv_ = Prov(f)
    pcalls = [(bi, t) for bi, t in f.calls() if method(t) == "push"]
    tl = _base_local(f, pv_, pcalls[0][1]["args"][0]) if pcalls else None
    ops = sorted({m for m, _, _ in ops_on(f, pv_, tl)}) if tl is not None else []
    shrink = [m for m in ops if m in ("pop", "truncate", "remove", "swap_remove", "retain", "retain_mut", "drain", "clear", "split_off", "dedup", "dedup_by", "dedup_by_key", "insert", "swap", "reverse", "sort", "sort_by", "sort_by_key")]
    ck.decide(rule, "PlainEnglish::parse:only-grows", bool(ops) and not shrink, f.span, "operations on the token vector: %s%s" % (ops, "" if not shrink else " - %s takes tokens out (or moves them) after they were laid end to end: the text is no longer tiled, and a paragraph at the end of the input is tokenised differently from the same paragraph followed by more text" % shrink))
    # progress: end - start >= 1 under the lexer contract
    ck.extra["tile_progress_uses_lexer_contract"] = True


# ---------------------------------------------------------------------------------------------------
CUT_SITES = ["<Mask as Parser>::parse", "harper_comments::comment_parsers::unit::parse_line", "<Go as Parser>::parse", "harper_comments::comment_parsers::jsdoc::parse_line", "<JavaDoc as Parser>::parse"]
CUTTERS = ("get_content", "try_get_content", "iter_allowed", "index")


def _push_by_sites(p, f):
    out = []
    for b in with_closures(p, f):
        for bi, t in b.calls():
            if inst_of(t) == "harper_core::span::{impl}::push_by":
                out.append((b, bi, t))
    return out


def _rebase_cut(ck, p, byk):
    rule = "R-C02-rebase"
    n = 0
    for key in CUT_SITES:
        fs = byk.get(key)
        if not ck.anchor(rule, key, fs):
            continue
        f = fs[0]
        ck.saw(f)
        n += 1
        pv = Prov(f)
        src_param = None
        for i in range(1, f["argc"] + 1):
            t = f.local_ty(i)
            if t["k"] == "ref" and f.ty(t["in"])["k"] == "slice" and f.debug_names().get(i) == "source":
                src_param = i
        parses = [(bi, t) for bi, t in f.calls() if def_of(t) == "harper_core::parsers::Parser::parse"]
        pbs = _push_by_sites(p, f)
        if src_param is None or len(parses) != 1 or len(pbs) != 1:
            ck.undecided(rule, "cut:" + key, f.span, "expected a `source` slice parameter, one inner Parser::parse and one push_by (found %s/%d/%d)" % (src_param, len(parses), len(pbs)))
            continue
        pb, pt = parses[0]
        # every cut that can produce the inner parser's argument
        cuts = []
        for o in arg_roots(f, pv, pt["args"][1]):
            if o[0] == "call" and last(norm(o[3] or o[2] or "")) in CUTTERS:
                cuts.append(o)
        if not cuts:
            ck.undecided(rule, "cut:" + key, f.loc(pt["ln"]), "the inner parser's argument is not produced by a recognised cut of the source")
            continue
        bad = []
        span_locals = set()
        for o in cuts:
            ct = f.blocks[o[1]]["t"]
            nm = last(norm(o[3] or o[2] or ""))
            base_op = ct["args"][1] if nm in ("get_content", "try_get_content", "iter_allowed") else ct["args"][0]
            base = flatten(pv.trace_operand(base_op))
            if base != {("arg", src_param)}:
                bad.append("%s at %s cuts %s, not the `source` parameter: the shift is relative to a different slice" % (nm, f.loc(ct["ln"]), sorted(map(str, base))[:2]))
            sp = place_of(ct["args"][0])
            if nm in ("get_content", "try_get_content") and sp:
                span_locals.add(_ref_root(f, pv, sp[0]))
        # push_by operand = .start of the span used in the cuts (or of the item yielded by iter_allowed)
        body, bbi, bt = pbs[0]
        off = _offset_source(p, f, pv, body, bt)
        ok_off = off is not None and off[1] == "start" and (not span_locals or off[0] in span_locals or off[0] == "iter_allowed")
        if bad:
            ck.refuted(rule, "cut:" + key, f.loc(pt["ln"]), "; ".join(bad))
        elif not ok_off:
            ck.refuted(rule, "cut:" + key, body.loc(bt["ln"]), "push_by is given %s, not the start of the span the inner parser's slice was cut with (%s)" % (off, sorted(span_locals)))
        else:
            ck.proved(rule, "cut:" + key, f.loc(pt["ln"]), "inner slice = cut of `source` by a span; tokens are shifted by that span's start")
    ck.floor(rule, "span-cut re-basing sites", n, 3)


def _ref_root(f, pv, l):
    for _ in range(6):
        nxt = None
        for (bi, si, kind, x) in pv.defs.get(l, []):
            if kind == "assign" and len(x["lhs"]) == 1 and x["rv"]["k"] in ("ref", "use"):
                q = x["rv"].get("place") or place_of(x["rv"]["op"])
                if q and (len(q) == 1 or all(e == "*" for e in q[1:])):
                    nxt = q[0]
        if nxt is None:
            return l
        l = nxt
    return l


def _offset_source(p, f, pv, body, bt):
    """(span local in f, field) the push_by operand reads; follows a closure capture back to the parent"""
    bpv = Prov(body) if body is not f else pv
    for o in bpv.trace_operand(bt["args"][1]):
        path = []
        x = o
        while isinstance(x, tuple) and x[0] == "field":
            path.append((x[2], x[3]))
            x = x[1]
        if body is f:
            if x[0] == "arg" or True:
                fld = path[0][1] if path else None
                # base local: read from the raw place
                pl = place_of(bt["args"][1])
                root = _value_root(f, pv, pl[0]) if pl else None
                if root:
                    return root
        else:
            # closure: x = ("arg",1) upvar idx -> parent aggregate operand
            if x == ("arg", 1) and path:
                upidx = path[-1][0]
                for b in f.blocks:
                    for s in b["s"]:
                        if s["k"] == "assign" and s["rv"]["k"] == "agg" and s["rv"].get("agg") == "closure" and s["rv"].get("name") == body.name and upidx < len(s["rv"]["ops"]):
                            pl = place_of(s["rv"]["ops"][upidx])
                            if pl:
                                return _value_root(f, pv, pl[0])
    return None


def _value_root(f, pv, l):
    """follow copies/refs to `X.field` and report (root local of X, field) — or ('iter_allowed', 'start')"""
    for _ in range(8):
        nxt = None
        for (bi, si, kind, x) in pv.defs.get(l, []):
            if kind == "assign" and len(x["lhs"]) == 1 and x["rv"]["k"] in ("ref", "use"):
                q = x["rv"].get("place") or place_of(x["rv"]["op"])
                if not q:
                    continue
                fl = [e[2] for e in q[1:] if isinstance(e, list) and e[0] == "f"]
                if fl:
                    base = _ref_root(f, pv, q[0])
                    # item of mask.iter_allowed(source)?
                    for o in flatten(pv.trace_local(q[0])):
                        if o[0] == "call" and last(norm(o[3] or o[2] or "")) == "next":
                            return ("iter_allowed", fl[-1])
                    return (base, fl[-1])
                nxt = q[0]
        if nxt is None:
            return None
        l = nxt
    return None


# ---------------------------------------------------------------------------------------------------
ACC_SITES = ["<Unit as Parser>::parse", "<JsDoc as Parser>::parse"]


def _rebase_acc(ck, p, byk):
    rule = "R-C02-rebase"
    for key in ACC_SITES:
        fs = byk.get(key)
        if not ck.anchor(rule, key, fs):
            continue
        f = fs[0]
        ck.saw(f)
        cfg = Cfg(f)
        names = {n: l for l, n in f.debug_names().items()}
        acc = names.get("chars_traversed")
        loops = cfg.natural_loops()
        if acc is None or not loops:
            ck.undecided(rule, "acc:" + key, f.span, "offset accumulator or loop not found")
            continue
        snap = {}

        def stmt(cx, fn, bb, s, st):
            if s["k"] == "assign" and s["rv"]["k"] == "agg" and s["rv"].get("agg") == "closure":
                c = p.fns.get(s["rv"]["name"])
                if c is not None and any(inst_of(t) == "harper_core::span::{impl}::push_by" for _, t in c.calls()):
                    snap["closure"] = st.vals.get(acc)
        cx = Ctx(p, {"stmt": stmt})
        args, fsx = c01.generic_args(cx, f)
        sub = analyze(cx, f, args, fsx, want_edges=True)
        head = max(loops, key=lambda h: len(loops[h]))
        body = loops[head]
        heads_in = [st for (src, tgt), lst in sub.edges.items() if tgt == head and src in body for st in lst]
        ok = bool(heads_in) and snap.get("closure") is not None and snap["closure"][0] == "int"
        detail = "back-edge states: %d" % len(heads_in)
        if ok:
            phi = snap["closure"][1]            # value of the accumulator where the shift closure is built
            deltas = set()
            for st in heads_in:
                v = st.vals.get(acc, UNKNOWN)
                if v[0] != "int":
                    deltas.add("?")
                    continue
                d = v[1].sub(phi)
                deltas.add(cx.show(d))
            good = all(re.match(r"^\+len\(item\)@bb\d+ \+1$", d) for d in deltas) and len(deltas) == 1
            ok = good
            detail = "tokens are shifted by the offset at the start of the iteration (%s); on every back edge the offset has advanced by %s" % (cx.show(phi), sorted(deltas))
            if not good and "?" in deltas:
                ok = None
        elif not heads_in or snap.get("closure") is None:
            ok = None       # the loop is not of the shape "shift by the accumulator, then advance it"
        if ok is None:
            ck.undecided(rule, "acc:" + key, f.span, "the per-line offset arithmetic could not be summarised (%s): not decided" % detail)
        else:
            ck.decide(rule, "acc:" + key, ok, f.span, detail)


# ---------------------------------------------------------------------------------------------------
CONDENSE = ["Document::condense_spaces", "Document::condense_newlines", "Document::condense_dotted_initialisms", "Document::condense_pattern"]


def _condense(ck, p, byk):
    rule = "R-C02-condense"
    n = 0
    for key in CONDENSE:
        fs = byk.get(key)
        if not ck.anchor(rule, key, fs):
            continue
        f = fs[0]
        ck.saw(f)
        n += 1
        cfg = Cfg(f)
        pv = Prov(f)
        loops = cfg.natural_loops()
        rem = [(bi, t) for bi, t in f.calls() if method(t) == "remove_indices"]
        if len(rem) != 1:
            ck.undecided(rule, key, f.span, "expected one remove_indices call")
            continue
        queue = pv.mut_base.get(place_of(rem[0][1]["args"][1])[0]) if place_of(rem[0][1]["args"][1]) else None
        q = place_of(rem[0][1]["args"][1])
        qlocal = _ref_root(f, pv, q[0]) if q else None
        # queue insertions
        pushes = []
        for bi, t in f.calls():
            if method(t) in ("push_back", "push", "extend", "push_front", "append", "insert"):
                pl = place_of(t["args"][0])
                if pl and pv.mut_base.get(pl[0]) == qlocal:
                    pushes.append((bi, t))
        # span extensions: assignment to `.span` or `.span.end`
        ext = []
        for bi, b in enumerate(f.blocks):
            if b["cleanup"]:
                continue
            for si, s in enumerate(b["s"]):
                if s["k"] == "assign" and len(s["lhs"]) > 1:
                    fl = [e[2] for e in s["lhs"][1:] if isinstance(e, list) and e[0] == "f"]
                    if fl and (fl[-1] == "span" or fl[-2:] == ["span", "end"]):
                        ext.append((bi, si))
        if not pushes:
            ck.undecided(rule, key, f.span, "no insertion into the removal queue found")
            continue
        # typestate "an index has been queued whose characters no kept token covers yet", tracked by the
        # prover along feasible paths (Option-valued locals such as `initialism_start` prune the
        # infeasible combinations); it must be clear wherever remove_indices is called
        push_blocks = {bi for bi, _ in pushes}
        ext_set = set(ext)
        verdict = {}

        def call_hook(cx, fn, bb, t, a, st, reports):
            if fn is not f:
                return None
            if bb in push_blocks:
                # an extension earlier in the same loop iteration pairs with this push
                if not st.vals.get("ext", ("flag", False))[1]:
                    st.vals["pending"] = ("flag", True)
            if bb == rem[0][0]:
                verdict.setdefault("states", []).append(st.vals.get("pending", ("flag", True))[1])
            return c01.matches_hook(cx, fn, bb, t, a, st, reports)

        def stmt_hook(cx, fn, bb, s2, st):
            if fn is not f:
                return
            if s2["k"] == "assign" and len(s2["lhs"]) > 1:
                fl = [e[2] for e in s2["lhs"][1:] if isinstance(e, list) and e[0] == "f"]
                if fl and (fl[-1] == "span" or fl[-2:] == ["span", "end"]):
                    st.vals["pending"] = ("flag", False)
                    st.vals["ext"] = ("flag", True)

        def block_hook(cx, fn, bb, st, is_header):
            if fn is f and is_header:
                st.vals["ext"] = ("flag", False)

        named = set(f.debug_names())

        def pkey(st):
            out = [st.vals.get("pending", ("flag", False))[1]]
            for k, v in sorted((k, v) for k, v in st.vals.items() if isinstance(k, int) and k in named):
                if v[0] == "opt":
                    from ..prover import satisfiable
                    some_ok = satisfiable(list(st.facts) + list(v[2]))
                    none_ok = satisfiable(list(st.facts) + list(v[3]))
                    out.append((k, "S" if some_ok and not none_ok else "N" if none_ok and not some_ok else "?"))
            return tuple(out)
        cx = Ctx(p, {"call": call_hook, "stmt": stmt_hook, "block": block_hook, "partition_key": pkey, "partitions": 8})
        args, fsx = c01.generic_args(cx, f)
        # an extension in the same block *after* the push does not exist in MIR (the push is the terminator),
        # and one before it in the same iteration leaves pending False before the push sets it: pair them here
        sub = analyze(cx, f, args, fsx, init_vals={"pending": ("flag", False), "ext": ("flag", False)})
        states = verdict.get("states", [])
        if not states:
            ck.undecided(rule, key, f.span, "remove_indices was not reached by the analysis")
        elif any(states):
            bi, t = pushes[0]
            ck.refuted(rule, key, f.loc(rem[0][1]["ln"]), "a feasible path reaches remove_indices with a token index queued for removal (first queued at %s) whose characters no kept token's span has been extended over: those characters fall out of every token" % f.loc(t["ln"]))
        else:
            ck.proved(rule, key, f.span, "%d queue insertions; on every feasible path to remove_indices each is followed by a span extension (%d extension sites)" % (len(pushes), len(ext)))
    ck.floor(rule, "queue-based condensing passes", n, 2)
    # condense_indices: the skipped range ends one past the token whose span.end was copied
    fs = byk.get("Document::condense_indices")
    if ck.anchor(rule, "Document::condense_indices", fs):
        f = fs[0]
        ck.saw(f)
        pv = Prov(f)
        # span.end = tokens[idx + stretch_len - 1].span.end ; skip old[a_idx + stretch_len ..]
        s = str(f.blocks)
        adds = 0
        for b in f.blocks:
            for st in b["s"]:
                if st["k"] == "assign" and st["rv"]["k"] == "bin" and st["rv"]["op"] in ("AddWithOverflow", "Add"):
                    ops = [flatten(pv.trace_operand(st["rv"]["a"])), flatten(pv.trace_operand(st["rv"]["b"]))]
                    if any(("arg", 3) in o for o in ops):
                        adds += 1
        for bi, t in f.calls():
            if def_of(t) == "core::ops::arith::Add::add" and any(("arg", 3) in flatten(pv.trace_operand(a)) for a in t["args"]):
                adds += 1
        ext = any(stx["k"] == "assign" and len(stx["lhs"]) > 1 and [e[2] for e in stx["lhs"][1:] if isinstance(e, list)][-2:] == ["span", "end"] for b in f.blocks for stx in b["s"])
        ck.decide(rule, "Document::condense_indices", ext and adds >= 2, f.span, "copies span.end of the token at idx + stretch_len - 1 and resumes copying at idx + stretch_len (uses of stretch_len in index arithmetic: %d)" % adds)


RESIZERS = {"remove_indices", "clear", "push", "insert", "remove", "retain", "retain_mut", "truncate", "drain", "pop", "append", "extend", "extend_from_slice", "split_off", "swap_remove", "dedup", "dedup_by", "dedup_by_key", "resize", "splice"}


def _resizes_tokens(p, f, memo, depth=0):
    """does the Document method (transitively, within harper_core::document) change the length/order of self.tokens?"""
    if f.name in memo:
        return memo[f.name]
    memo[f.name] = False
    pv = Prov(f)
    out = False
    for b in with_closures(p, f):
        bpv = pv if b is f else Prov(b)
        for bi, t in b.calls():
            m = method(t)
            if m in RESIZERS and t["args"]:
                fields = arg_fields(bpv, t["args"][0])
                if "tokens" in fields:
                    out = True
            inst = t["f"].get("inst") or ""
            g = p.fns.get(inst)
            if g is not None and g.name.startswith("harper_core::document::") and depth < 6:
                # only methods that receive &mut self can resize
                if g["argc"] >= 1 and g.local_ty(1)["k"] == "ref" and g.local_ty(1)["mut"]:
                    if _resizes_tokens(p, g, memo, depth + 1):
                        out = True
    memo[f.name] = out
    return out


def _quotes_last(ck, p, byk):
    rule = "R-C02-twins"
    fs = byk.get("Document::parse")
    if not ck.anchor(rule, "Document::parse", fs):
        return
    f = fs[0]
    ck.saw(f)
    cfg = Cfg(f)
    mq = [(bi, t) for bi, t in f.calls() if inst_of(t).endswith("document::{impl}::match_quotes")]
    if len(mq) != 1:
        ck.refuted(rule, "anchor-missing:match_quotes", f.span, "expected exactly one match_quotes call in Document::parse, found %d" % len(mq))
        return
    qb = mq[0][0]
    memo = {}
    later = []
    n = 0
    for bi, t in f.calls():
        if bi == qb or not (cfg.dominates(qb, bi) or cfg.reaches(qb, [bi])):
            continue
        g = p.fns.get(t["f"].get("inst") or "")
        if g is None or not g.name.startswith("harper_core::document::"):
            if method(t) in RESIZERS and "tokens" in arg_fields(Prov(f), t["args"][0]):
                later.append((method(t), t["ln"]))
            continue
        n += 1
        ck.saw(g)
        if g["argc"] >= 1 and g.local_ty(1)["k"] == "ref" and g.local_ty(1)["mut"] and _resizes_tokens(p, g, memo):
            later.append((last(g.name), t["ln"]))
    # sanity: the passes before match_quotes are recognised as resizing (the classifier is alive)
    before = [last(p.fns[t["f"]["inst"]].name) for bi, t in f.calls() if t["f"].get("inst") in p.fns and cfg.dominates(bi, qb) and bi != qb and _resizes_tokens(p, p.fns[t["f"]["inst"]], memo)]
    ck.floor(rule, "token-resizing passes recognised before match_quotes", len(before), 3)
    if later:
        ck.refuted(rule, "Document::parse:after-match_quotes", f.loc(later[0][1]), "%s runs after match_quotes and can remove or insert tokens: every quote after the edit keeps a twin index that no longer points at its partner" % later[0][0])
    else:
        ck.proved(rule, "Document::parse:after-match_quotes", f.span, "%d Document passes run after match_quotes; none can change the number or order of tokens (resizing passes before it: %s)" % (n, before))


def _stale(ck, p, byk, rule="R-C02-stale"):
    from ..prover import Ctx, analyze, UNKNOWN, ref_bases
    methods = [f for f in p.fns.values() if f.name.startswith("harper_core::document::") and f.get("kind") not in ("Closure", "Promoted")]
    n_methods = 0
    for f in sorted(methods, key=lambda f: f.name):
        res = [(bi, t) for bi, t in f.calls() if method(t) in ("condense_indices", "remove_indices") and
               (inst_of(t).endswith("document::{impl}::condense_indices") or inst_of(t).endswith("vec_ext::{impl}::remove_indices"))]
        if not res:
            continue
        n_methods += 1
        ck.saw(f)
        cfg = Cfg(f)
        cx = Ctx(p, {})
        pushes = {}
        stretch = {}

        def call(cx_, fn, bb, t, a, st, reports):
            if fn is not f:
                return None
            m = method(t)
            if m in ("push", "push_back") and len(a) > 1:
                pushes.setdefault(bb, []).append(a[1])
            if m == "condense_indices" and len(a) > 2:
                stretch[bb] = a[2]
            return None
        cx.hooks["call"] = call
        try:
            analyze(cx, f, [UNKNOWN] * f["argc"], [])
        except Exception as e:
            ck.undecided(rule, keyname(p, f), f.span, "prover could not follow the method: %s" % type(e).__name__)
            continue
        rb = ref_bases(cx, f)
        pv = Prov(f)

        def base_of(op):
            pl = place_of(op)
            if not pl:
                return None
            l = pl[0]
            for _ in range(6):
                if l in rb:
                    l = rb[l]
                    continue
                # moves and derefs
                ds = [x for (b2, si, kind, x) in pv.defs.get(l, [])]
                nxt = None
                for x in ds:
                    if "rv" in x and x["rv"]["k"] == "use" and place_of(x["rv"]["op"]):
                        nxt = place_of(x["rv"]["op"])[0]
                    elif "args" in x and method(x) in ("deref", "as_slice", "as_ref", "borrow") and place_of(x["args"][0]):
                        nxt = place_of(x["args"][0])[0]
                if nxt is None or nxt == l:
                    break
                l = nxt
            return l
        # order the removals
        res.sort(key=lambda bt: sum(1 for b2, _ in res if cfg.dominates(b2, bt[0])))
        lists = []
        for bi, t in res:
            is_ci = method(t) == "condense_indices"
            L = base_of(t["args"][1])
            per = None
            if is_ci:
                sv = stretch.get(bi)
                per = (sv[1].c - 1) if sv is not None and sv[0] == "int" and sv[1].is_const() else None
            else:
                per = 1
            lists.append((bi, t, L, per))
        if len(res) == 1:
            ck.proved(rule, keyname(p, f), f.loc(res[0][1]["ln"]), "one removal per call of the method: its indices are used before any resize")
            continue
        ok_all = True
        for j, (bj, tj, Lj, perj) in enumerate(lists):
            psites = [(bi, t) for bi, t in f.calls() if method(t) in ("push", "push_back") and base_of(t["args"][0]) == Lj]
            for pb, pt in psites:
                earlier = [(bi, L, per) for (bi, t, L, per) in lists[:j] if not cfg.dominates(bi, pb)]
                vals = pushes.get(pb, [])
                key = "%s:%s" % (keyname(p, f), f.debug_names().get(Lj, "_%s" % Lj))
                if not vals or any(v[0] != "int" for v in vals) or any(per is None for _, _, per in earlier):
                    ck.undecided(rule, key, f.loc(pt["ln"]), "the pushed index or an earlier stretch length is not an affine value the prover tracks")
                    ok_all = False
                    continue
                want = {}
                for bi, L, per in earlier:
                    sym = cx.callsym.get((f.name, "clen", L))
                    want[sym] = want.get(sym, 0) - per
                verdict = "PROVED"
                detail = ""
                for v in vals:
                    lin = v[1]
                    coeffs = dict(lin.t)
                    counters = [sy for sy, c in coeffs.items() if sy not in want and c == 1 and cx.names.get(sy, "").startswith(("range_", "enum", "iter"))]
                    others = [sy for sy in coeffs if sy not in want and sy not in counters]
                    if len(counters) != 1 or others or lin.c != 0 or None in want:
                        verdict = "UNDECIDED"
                        detail = "pushed value %s is not `counter - k * len(earlier list)`" % cx.show(lin)
                        break
                    got = {sy: coeffs.get(sy, 0) for sy in want}
                    if got != want:
                        verdict = "REFUTED"
                        detail = "pushed value %s, but the removal(s) before it take out %s token(s) per earlier entry: the index points %s token(s) past the intended one for every earlier entry" % (
                            cx.show(lin), ", ".join(str(-c) for c in want.values()), ", ".join(str(got[sy] - want[sy]) for sy in want))
                        break
                    detail = "pushed value %s re-bases by exactly the tokens removed before it" % cx.show(lin)
                ck.ob(rule, key, verdict, f.loc(pt["ln"]), detail)
                ok_all = ok_all and verdict == "PROVED"
    ck.floor(rule, "Document methods that remove tokens through an index list", n_methods, 3)


def _adjacent(ck, p, byk):
    rule = "R-C02-adjacent"
    n = 0
    for key in ("Document::condense_spaces", "Document::condense_newlines"):
        fs = byk.get(key)
        if not ck.anchor(rule, key, fs):
            continue
        f = fs[0]
        ck.saw(f)
        pv = Prov(f)

        def fpath(pl):
            return [e[2] for e in pl[1:] if isinstance(e, list) and e[0] == "f"]

        def base_of(l, depth=0):
            """follow reborrows / copies of a reference to the local it was taken from"""
            for _ in range(6):
                ds = [x for (b2, si, k, x) in pv.defs.get(l, []) if k == "assign"]
                if len(ds) != 1:
                    return l
                rv = ds[0]["rv"]
                if rv["k"] == "ref" and not fpath(rv["place"]) and not any(isinstance(e, list) and e[0] == "i" for e in rv["place"][1:]):
                    l = rv["place"][0]
                elif rv["k"] == "ref" and any(isinstance(e, list) and e[0] == "i" for e in rv["place"][1:]):
                    # &mut vec[idx] / &vec[idx] written as a place: identity = (vector, index variable)
                    il = [e[1] for e in rv["place"][1:] if isinstance(e, list) and e[0] == "i"][0]
                    return ("elem", tuple(fpath(rv["place"])), _canon(il))
                elif rv["k"] == "use" and place_of(rv["op"]) and len(place_of(rv["op"])) == 1:
                    l = place_of(rv["op"])[0]
                else:
                    return l
            return l
        def _canon(l):
            for _ in range(6):
                ds = [x for (b2, si, k, x) in pv.defs.get(l, []) if k == "assign"]
                if len(ds) == 1 and ds[0]["rv"]["k"] == "use" and place_of(ds[0]["rv"]["op"]) and len(place_of(ds[0]["rv"]["op"])) == 1:
                    l = place_of(ds[0]["rv"]["op"])[0]
                else:
                    break
            return l
        _plain_base = base_of

        def base_of(l, depth=0):
            r = _plain_base(l)
            if isinstance(r, tuple):
                return r
            # result of Index::index / index_mut(vec, idx)
            cs = [x for (b2, si, k, x) in pv.defs.get(r, []) if k == "call"]
            if len(cs) == 1 and method(cs[0]) in ("index", "index_mut") and len(cs[0]["args"]) > 1 and place_of(cs[0]["args"][1]):
                vec = arg_fields(pv, cs[0]["args"][0])
                return ("elem", tuple(sorted(vec)), _canon(place_of(cs[0]["args"][1])[0]))
            return r
        loads = {}
        for b in f.blocks:
            for sx in b["s"]:
                if sx["k"] == "assign" and len(sx["lhs"]) == 1 and sx["rv"]["k"] == "use" and place_of(sx["rv"]["op"]):
                    pl = place_of(sx["rv"]["op"])
                    fp = fpath(pl)
                    if fp[-2:] in (["span", "end"], ["span", "start"]):
                        loads[sx["lhs"][0]] = (base_of(pl[0]), fp[-1])
        guards = []
        for b in f.blocks:
            for sx in b["s"]:
                if sx["k"] == "assign" and sx["rv"]["k"] == "bin" and sx["rv"]["op"] in ("Ne", "Eq"):
                    la, lb = place_of(sx["rv"]["a"]), place_of(sx["rv"]["b"])
                    if la and lb and la[0] in loads and lb[0] in loads:
                        x, y = loads[la[0]], loads[lb[0]]
                        if {x[1], y[1]} == {"end", "start"}:
                            e_, s_ = (x, y) if x[1] == "end" else (y, x)
                            guards.append((e_[0], s_[0], sx["ln"]))
        exts = []
        for b in f.blocks:
            for sx in b["s"]:
                if sx["k"] == "assign" and fpath(sx["lhs"])[-2:] == ["span", "end"]:
                    src = None
                    if sx["rv"]["k"] == "use" and place_of(sx["rv"]["op"]):
                        pl = place_of(sx["rv"]["op"])
                        if fpath(pl)[-2:] == ["span", "end"]:
                            src = base_of(pl[0])
                        elif pl[0] in loads and loads[pl[0]][1] == "end":
                            src = loads[pl[0]][0]
                    exts.append((base_of(sx["lhs"][0]), src, sx["ln"]))
        if not exts:
            ck.undecided(rule, key, f.span, "no `kept.span.end = other.span.end` assignment found")
            continue
        n += 1
        if not guards:
            # the pass merges vector neighbours unconditionally (condense_newlines): nothing lies between two
            # neighbouring tokens, so there is no third token to jump over - provided the token that is
            # swallowed really is the vector neighbour of the last one examined: the index must advance by
            # exactly one per examined token of a run
            ck.proved(rule, key, f.span, "%d extension(s); the pass makes no adjacency test at all (vector neighbours are merged unconditionally)" % len(exts))
            st = _stride(f, pv, exts)
            if st is None:
                ck.undecided(rule, key + ":stride", f.span, "the index that walks a run of merged tokens was not identified")
            elif st[0] > 1:
                ck.refuted(rule, key + ":stride", f.loc(st[1]), "within a run the index `%s` advances by %d between two examined tokens (e.g. once after the merge and once more at the top of the loop): every other token is never looked at, and since the pass tests no adjacency the kept token's span is extended right over it - a word between two line breaks ends up inside the merged newline token (overlap)" % (_nm(names_of(f), st[2]), st[0]))
            else:
                ck.proved(rule, key + ":stride", f.span, "the run index advances exactly once per examined token")
            continue
        bad = [(k_, o_, ln) for (k_, o_, ln) in exts if not any(g[0] == k_ and g[1] == o_ for g in guards)]
        names = f.debug_names()
        if bad:
            k_, o_, ln = bad[0]
            ck.refuted(rule, key, f.loc(ln), "`%s.span.end = %s.span.end` is not guarded by a comparison of %s.span.end with %s.span.start (adjacency tests found: %s): the kept token can swallow a token it does not touch, jumping over tokens that stay in the stream" % (
                _nm(names, k_), _nm(names, o_), _nm(names, k_), _nm(names, o_), [(_nm(names, a), _nm(names, b_)) for a, b_, _ in guards]))
        else:
            ck.proved(rule, key, f.span, "%d extension(s), each guarded by the adjacency test on the same two tokens" % len(exts))
    ck.floor(rule, "cursor-loop condensing passes with a span extension", n, 1)


def names_of(f):
    return f.debug_names()


def _stride(f, pv, exts):
    """(max number of `i += 1` on a cycle of the innermost loop through an extension, line, index local)
    for the index local that addresses the swallowed token; None if not identified."""
    from ..util import const_int
    idx = {e[1][2] for e in exts if isinstance(e[1], tuple) and e[1][0] == "elem"}
    if len(idx) != 1:
        return None
    il = next(iter(idx))
    incs = {}
    for bi, b in enumerate(f.blocks):
        if b["cleanup"]:
            continue
        for sx in b["s"]:
            if sx["k"] == "assign" and sx["lhs"] == [il] and sx["rv"]["k"] == "use" and place_of(sx["rv"]["op"]):
                pl = place_of(sx["rv"]["op"])
                if len(pl) == 2 and isinstance(pl[1], list) and pl[1][0] == "f":
                    ds = [x for (b2, si, k, x) in pv.defs.get(pl[0], []) if k == "assign"]
                    if len(ds) == 1 and ds[0]["rv"]["k"] == "bin" and ds[0]["rv"]["op"] in ("AddWithOverflow", "Add") and place_of(ds[0]["rv"]["a"]) == [il] and (const_int(ds[0]["rv"]["b"]) or 0) >= 1:
                        incs.setdefault(bi, []).extend([sx["ln"]] * const_int(ds[0]["rv"]["b"]))
            elif sx["k"] == "assign" and sx["lhs"] == [il] and sx["rv"]["k"] == "bin" and sx["rv"]["op"] == "Add" and place_of(sx["rv"]["a"]) == [il] and (const_int(sx["rv"]["b"]) or 0) >= 1:
                incs.setdefault(bi, []).extend([sx["ln"]] * const_int(sx["rv"]["b"]))
    if not incs:
        return None
    cfg = Cfg(f)
    loops = cfg.natural_loops()
    ext_blocks = set()
    for bi, b in enumerate(f.blocks):
        for sx in b["s"]:
            if sx["k"] == "assign" and any(sx["ln"] == e[2] for e in exts) and len(sx["lhs"]) > 1:
                ext_blocks.add(bi)
    best = None
    for eb in ext_blocks:
        inner = [(h, body) for h, body in loops.items() if eb in body]
        if not inner:
            continue
        h, body = min(inner, key=lambda x: len(x[1]))
        # simple cycles h -> ... -> eb -> ... -> h inside the body
        count = [0]

        def dfs(b, seen, n, through):
            if count[0] > 20000:
                return
            count[0] += 1
            n2 = n + len(incs.get(b, []))
            t2 = through or b == eb
            for sx in cfg.succ[b]:
                if sx == h:
                    if t2:
                        nonlocal_best(n2, b)
                    continue
                if sx in body and sx not in seen:
                    dfs(sx, seen | {sx}, n2, t2)
        res = []

        def nonlocal_best(nv, b):
            res.append(nv)
        dfs(h, {h}, 0, False)
        if res:
            m = max(res)
            ln = max((l for b2, ls in incs.items() if b2 in body for l in ls), default=0)
            if best is None or m > best[0]:
                best = (m, ln, il)
    return best


def _nm(names, x):
    if isinstance(x, tuple):
        return "%s[%s]" % (".".join(x[1]) or "tokens", names.get(x[2], "_%s" % x[2]))
    return names.get(x, "_%s" % x)


# ---------------------------------------------------------------------------------------------------
def stale_use(ck, p, rule):
    """After a removal (condense_indices / remove_indices) in a Document method, self.tokens is never addressed with an index
    taken out of a container that was filled with plain pre-removal positions."""
    def has_sub(origins, depth=0):
        for o in origins:
            if o[0] == "bin":
                if o[1].startswith("Sub"):
                    return True
                if depth < 6 and (has_sub(o[2], depth + 1) or has_sub(o[3], depth + 1)):
                    return True
            elif o[0] == "agg" and depth < 6:
                if any(has_sub(x, depth + 1) for x in o[3]):
                    return True
            elif o[0] == "call" and depth < 6 and last(norm(o[3] or o[2] or "")) in ("sub", "checked_sub", "saturating_sub", "wrapping_sub"):
                return True
        return False
    methods = [f for f in p.fns.values() if f.name.startswith("harper_core::document::") and f.get("kind") not in ("Closure", "Promoted")]
    n = 0
    for f in sorted(methods, key=lambda f: f.name):
        rem = [(bi, t) for bi, t in f.calls() if method(t) in ("condense_indices", "remove_indices") and
               (inst_of(t).endswith("document::{impl}::condense_indices") or inst_of(t).endswith("vec_ext::{impl}::remove_indices"))]
        if not rem:
            continue
        n += 1
        ck.saw(f)
        cfg = Cfg(f)
        pv = Prov(f)
        post = set()
        for bi, t in rem:
            work = [t["target"]] if t["target"] is not None else []
            while work:
                x = work.pop()
                if x in post or f.blocks[x]["cleanup"]:
                    continue
                post.add(x)
                work += f.succs(x)
        # uses of an index into self.tokens after the removal
        uses = []
        for bi in sorted(post):
            b = f.blocks[bi]
            for sx in b["s"]:
                if sx["k"] != "assign":
                    continue
                for pl in _places_in(sx):
                    idx = [e[1] for e in pl[1:] if isinstance(e, list) and e[0] == "i"]
                    if idx and "tokens" in [e[2] for e in pl[1:] if isinstance(e, list) and e[0] == "f"] + list(arg_fields(pv, {"c": [pl[0]]})):
                        uses.append((bi, sx["ln"], {"c": [idx[0]]}))
            t = b["t"]
            if t["k"] == "call" and method(t) in ("get", "get_mut", "index", "index_mut", "get_unchecked", "swap", "remove", "insert") and len(t["args"]) > 1 and "tokens" in arg_fields(pv, t["args"][0]):
                uses.append((bi, t["ln"], t["args"][1]))
        key = keyname(p, f) + ":after-removal"
        bad = None
        for bi, ln, op in uses:
            for o in arg_roots(f, pv, op):
                if o[0] != "call" or o[1] in post:
                    continue
                ct = f.blocks[o[1]]["t"]
                dty = f.local_tystr(ct["dest"][0]) if ct.get("dest") else ""
                if not re.search(r"Vec<|VecDeque<|SmallVec<", dty):
                    continue
                cont = ct["dest"][0]
                # what is pushed into that container before the removal
                plain = False
                for pb, pt in f.calls():
                    if pb in post or method(pt) not in ("push", "push_back", "insert", "extend") or len(pt["args"]) < 2:
                        continue
                    base = {x[1] for x in flatten(pv.trace_operand(pt["args"][0])) if x[0] == "call"}
                    if o[1] not in base and not _refers(f, pv, pt["args"][0], cont):
                        continue
                    if not has_sub(pv.trace_operand(pt["args"][1])):
                        plain = True
                if plain:
                    bad = (ln, names_of(f).get(cont, "_%d" % cont), ct["ln"])
        if bad:
            ck.refuted(rule, key, f.loc(bad[0]), "self.tokens is addressed after the removal with an index taken from `%s` (created at line %d, filled with plain positions counted before the removal): every token the removal took out in front of it shifts the real position, so from the second hit on the wrong token is read or written" % (bad[1], bad[2]))
        else:
            ck.proved(rule, key, f.span, "%d use(s) of an index into self.tokens after the removal, none taken from a container of pre-removal positions" % len(uses))
    ck.floor(rule, "Document methods with a removal", n, 2)


def names_of(f):
    return f.debug_names()


def _refers(f, pv, op, local):
    pl = place_of(op)
    if not pl:
        return False
    if pl[0] == local:
        return True
    for (b2, si, kind, x) in pv.defs.get(pl[0], []):
        if "rv" in x and x["rv"]["k"] == "ref" and x["rv"]["place"][0] == local:
            return True
    return False


def _places_in(sx):
    out = []

    def walk(o):
        if isinstance(o, dict):
            for k in ("c", "m", "place"):
                if k in o and isinstance(o[k], list) and o[k] and isinstance(o[k][0], int):
                    out.append(o[k])
            for v in o.values():
                walk(v)
        elif isinstance(o, list):
            for v in o:
                walk(v)
    walk(sx.get("rv"))
    if isinstance(sx.get("lhs"), list):
        out.append(sx["lhs"])
    return out


# ---------------------------------------------------------------------------------------------------
def _idx_expr(f, pv, op, depth=0):
    """normal form of a usize operand: ('field', base local, name) | ('lin', expr, +/-c) | ('const', c) | ('opaque', ..)"""
    if isinstance(op, dict) and "k" in op:
        k = op["k"]
        return ("const", int(k["int"])) if "int" in k else ("opaque", "const")
    pl = place_of(op)
    if not pl:
        return ("opaque", "?")
    fl = [e[2] for e in pl[1:] if isinstance(e, list) and e[0] == "f"]
    if fl and fl[-1] in ("start", "end") and depth < 8:
        return ("field", pl[0], tuple(fl))
    if len(pl) >= 2 and isinstance(pl[1], list) and pl[1][0] == "f" and pl[1][1] == 0 and depth < 8:
        # .0 of a checked-arithmetic tuple
        ds = [x for (b, si, kind, x) in pv.defs.get(pl[0], []) if kind == "assign"]
        if len(ds) == 1 and ds[0]["rv"]["k"] == "bin" and ds[0]["rv"]["op"].rstrip("WithOverflow") in ("Add", "Sub"):
            rv = ds[0]["rv"]
            a, b = _idx_expr(f, pv, rv["a"], depth + 1), _idx_expr(f, pv, rv["b"], depth + 1)
            if b[0] == "const":
                c = b[1] if rv["op"].startswith("Add") else -b[1]
                if a[0] == "lin":
                    return ("lin", a[1], a[2] + c)
                return ("lin", a, c)
        return ("opaque", "tuple field of _%d" % pl[0])
    if len(pl) == 1 and depth < 8:
        ds = [x for (b, si, kind, x) in pv.defs.get(pl[0], [])]
        if len(ds) == 1 and "rv" in ds[0]:
            rv = ds[0]["rv"]
            if rv["k"] == "use":
                return _idx_expr(f, pv, rv["op"], depth + 1)
            if rv["k"] == "bin" and rv["op"] in ("Add", "Sub"):
                a, b = _idx_expr(f, pv, rv["a"], depth + 1), _idx_expr(f, pv, rv["b"], depth + 1)
                if b[0] == "const":
                    c = b[1] if rv["op"] == "Add" else -b[1]
                    return ("lin", a[1], a[2] + c) if a[0] == "lin" else ("lin", a, c)
        return ("opaque", "_%d" % pl[0])
    return ("opaque", "_%d" % pl[0])


def _shift(e, c):
    if c == 0:
        return e
    if e[0] == "lin":
        return ("lin", e[1], e[2] + c) if e[2] + c != 0 else e[1]
    return ("lin", e, c)


def collapse_extent(ck, p, rule):
    """CollapseIdentifiers: the token that survives a collapsed chain ends where the last removed token ends"""
    fs = [f for f in p.fns.values() if keyname(p, f) == "<CollapseIdentifiers as Parser>::parse"]
    if not ck.anchor(rule, "<CollapseIdentifiers as Parser>::parse", fs):
        return
    f = fs[0]
    ck.saw(f)
    pv = Prov(f)
    key = "<CollapseIdentifiers@Parser>::parse:extent"
    # the survivor's span: Span::new(_, X.span.end) that reaches Token::new
    toks = [(bi, t) for bi, t in f.calls() if norm(inst_of(t)) == "harper_core::token::{impl}::new"]
    spans = [(bi, t) for bi, t in f.calls() if norm(inst_of(t)) == "harper_core::span::{impl}::new"]
    ext = [(bi, t) for bi, t in f.calls() if method(t) in ("extend", "push_back", "push") and len(t["args"]) > 1 and "VecDeque" in f.local_tystr(_root_local(f, pv, t["args"][0]) or 0)]
    if not toks or not spans or not ext:
        ck.undecided(rule, key, f.span, "replacement token / its span / the removal queue not found in this shape (Token::new %d, Span::new %d, queue writes %d)" % (len(toks), len(spans), len(ext)))
        return
    sp = [st for sb, st in spans if any(o[0] == "call" and o[1] == sb for tb, tt in toks for o in flatten(pv.trace_operand(tt["args"][0])))]
    if len(sp) != 1:
        ck.undecided(rule, key, f.span, "the span of the replacement token is not a single Span::new")
        return
    # index of the token whose span.end is used
    endop = sp[0]["args"][1]
    end_idx = None
    pl = place_of(endop)
    ds = [x for (b, si, kind, x) in pv.defs.get(pl[0], [])] if pl and len(pl) == 1 else []
    if len(ds) == 1 and "rv" in ds[0] and ds[0]["rv"]["k"] == "use":
        src = place_of(ds[0]["rv"]["op"])
        if src and [e[2] for e in src[1:] if isinstance(e, list) and e[0] == "f"][-2:] == ["span", "end"]:
            base = src[0]
            for _ in range(4):
                bd = [x for (b, si, kind, x) in pv.defs.get(base, [])]
                if len(bd) != 1:
                    break
                x = bd[0]
                if "rv" in x and x["rv"]["k"] == "ref":
                    rp = x["rv"]["place"]
                    ii = [e for e in rp[1:] if isinstance(e, list) and e[0] == "i"]
                    if ii:
                        end_idx = _idx_expr(f, pv, {"c": [ii[0][1]]})
                        break
                    base = rp[0]
                elif "args" in x and method(x) in ("index", "index_mut", "get_unchecked") and len(x["args"]) > 1:
                    end_idx = _idx_expr(f, pv, x["args"][1])
                    break
                else:
                    break
    if end_idx is None:
        ck.undecided(rule, key, f.loc(sp[0]["ln"]), "the end of the replacement span is not `tokens[i].span.end` for a recognisable index i")
        return
    last_removed = None
    for eb, et in ext:
        for o in pv.trace_operand(et["args"][1]):
            if o[0] == "agg" and str(o[2]).endswith("Range") and len(o[3]) == 2:
                # exclusive range: last removed = end - 1 ; find the end operand again in the statement
                for (b, si, kind, x) in pv.defs.get(place_of(et["args"][1])[0], []):
                    if "rv" in x and x["rv"]["k"] == "agg":
                        last_removed = _shift(_idx_expr(f, pv, x["rv"]["ops"][1]), -1)
            elif o[0] == "call" and last(norm(o[3] or o[2] or "")) == "new" and "RangeInclusive" in f.local_tystr(f.blocks[o[1]]["t"]["dest"][0]):
                last_removed = _idx_expr(f, pv, f.blocks[o[1]]["t"]["args"][1])
    if last_removed is None:
        ck.undecided(rule, key, f.loc(ext[0][1]["ln"]), "what is queued for removal is not a range with a recognisable upper bound")
        return

    def show(e):
        if e[0] == "field":
            return "%s.%s" % (f.debug_names().get(e[1], "_%d" % e[1]), ".".join(e[2]))
        if e[0] == "lin":
            return "%s%+d" % (show(e[1]), e[2])
        if e[0] == "const":
            return str(e[1])
        return "<%s>" % e[1]
    SEARCHES = {"find", "find_map", "position", "rposition", "rfind", "min", "max", "min_by_key", "max_by_key", "nth", "last", "next", "next_back", "binary_search", "partition_point"}

    def searched(e):
        """an opaque index that is the outcome of a data-dependent search: it can be any element the search ranges over"""
        if e[0] == "lin":
            return searched(e[1])
        if e[0] != "opaque" or not str(e[1]).startswith("_"):
            return False
        l = int(str(e[1])[1:])
        return any(o[0] == "call" and last(norm(o[3] or o[2] or "")) in SEARCHES for o in arg_roots(f, pv, {"c": [l]}))

    def opaque(e):
        return e[0] == "opaque" or (e[0] == "lin" and opaque(e[1]))
    if end_idx != last_removed and (opaque(end_idx) or opaque(last_removed)) and not (searched(end_idx) != searched(last_removed)):
        ck.undecided(rule, key, f.loc(sp[0]["ln"]), "the surviving token ends at tokens[%s] and removal stops at index %s: the two are computed differently and neither is the outcome of a search; whether they are always equal is not decided" % (show(end_idx), show(last_removed)))
        return
    if end_idx == last_removed:
        ck.proved(rule, key, f.loc(sp[0]["ln"]), "the surviving token ends at tokens[%s].span.end and tokens up to index %s are removed" % (show(end_idx), show(last_removed)))
    else:
        ck.refuted(rule, key, f.loc(sp[0]["ln"]), "the surviving token is stretched to tokens[%s].span.end but the tokens queued for removal stop at index %s (one of the two is the outcome of a search and can be any position it ranges over): the tokens in between stay in the stream underneath the stretched one (overlapping tokens, characters covered twice) - or, the other way round, removed tokens leave a hole" % (show(end_idx), show(last_removed)))


def _root_local(f, pv, op):
    pl = place_of(op)
    if not pl:
        return None
    l = pl[0]
    for _ in range(6):
        ds = [x for (b, si, kind, x) in pv.defs.get(l, [])]
        if len(ds) == 1 and "rv" in ds[0] and ds[0]["rv"]["k"] == "ref":
            l = ds[0]["rv"]["place"][0]
        else:
            break
    return l


# ---------------------------------------------------------------------------------------------------
# Source order of the parts of a typst_syntax 0.13 AST node, confirmed by reading typst-syntax/src/ast.rs
# (cast_first_match / nth(k) / skip_while(kind != X) / cast_last_match).  One line of reason each.
TYPST_ORDER = {
    "ShowRule": ["selector", "transform"],                 # `show selector: transform` - selector precedes the colon
    "SetRule": ["target", "args", "condition"],            # `set target(args) if condition`
    "Conditional": ["condition", "if_body", "else_body"],  # `if c { a } else { b }`
    "WhileLoop": ["condition", "body"],
    "ForLoop": ["pattern", "iterable", "body"],            # `for pattern in iterable { body }`
    "Closure": ["name", "params", "body"],
    "LetBinding": ["kind", "init"],
    "DestructAssignment": ["pattern", "value"],
    "FieldAccess": ["target", "field"],
    "FuncCall": ["callee", "args"],
    "Named": ["name", "expr"],
    "Keyed": ["key", "expr"],
    "TermItem": ["term", "description"],
    "Binary": ["lhs", "rhs"],
}


def typst_order(ck, p, rule):
    """tokens leave the Typst translator in source order: wherever the parts of one AST node are translated and the
    results concatenated (merge![..] = an array of results, Iterator::chain), the parts appear in the order the table
    gives; a partition of the children that emits one class before the other is refuted"""
    fns = [f for f in p.fns.values() if f.name.startswith("harper_typst::typst_translator::") and f.get("kind") != "Promoted" and "::tests" not in f.name]
    if not ck.anchor(rule, "functions of harper_typst::typst_translator", fns):
        return
    n_sites = 0
    sorted_at_exit = False
    for g in p.fns.values():
        if keyname(p, g) == "<Typst as Parser>::parse":
            sorted_at_exit = any(method(t).startswith("sort") for h in with_closures(p, g) for _, t in h.calls())
    for f in sorted(fns, key=lambda f: f.name):
        pv = Prov(f)

        def parts(op):
            """(node type, accessor) pairs among the deep origins of an operand"""
            out = set()
            for o in arg_roots(f, pv, op):
                if o[0] != "call":
                    continue
                ct = f.blocks[o[1]]["t"]
                inst = norm(inst_of(ct))
                if not inst.startswith("typst_syntax::ast::") or not ct["args"]:
                    continue
                ty = f.local_tystr(place_of(ct["args"][0])[0]) if place_of(ct["args"][0]) else ""
                m = re.search(r"ast::(\w+)", ty)
                if m and m.group(1) in TYPST_ORDER and method(ct) in TYPST_ORDER[m.group(1)]:
                    out.add((m.group(1), method(ct)))
            return out
        seqs = []
        for bi, b in enumerate(f.blocks):
            if b["cleanup"]:
                continue
            for sx in b["s"]:
                if sx["k"] == "assign" and sx["rv"]["k"] == "agg" and sx["rv"].get("agg") == "array" and len(sx["rv"]["ops"]) > 1:
                    seqs.append((sx["ln"], "merge![..]", [parts(o) for o in sx["rv"]["ops"]]))
            t = b["t"]
            if t["k"] == "call" and method(t) == "chain" and len(t["args"]) == 2:
                seqs.append((t["ln"], "chain", [parts(t["args"][0]), parts(t["args"][1])]))
            if t["k"] == "call" and method(t) == "partition" and t["args"]:
                roots = {last(norm(o[3] or o[2] or "")) for o in arg_roots(f, pv, t["args"][0]) if o[0] == "call"}
                if roots & {"items", "children", "exprs"}:
                    n_sites += 1
                    key = "%s:partition" % keyname(p, f)
                    if sorted_at_exit:
                        ck.proved(rule, key, f.loc(t["ln"]), "children are split into two classes, but Typst::parse sorts the tokens before returning them")
                    else:
                        ck.refuted(rule, key, f.loc(t["ln"]), "the children of a node are split with partition(..) and the two classes are emitted one after the other: a child of the second class that is written before a child of the first comes out after it, so the tokens are not in source order")
        for ln, how, ops in seqs:
            for i in range(len(ops)):
                for j in range(i + 1, len(ops)):
                    for (ti, ai) in ops[i]:
                        for (tj, aj) in ops[j]:
                            if ti != tj or ai == aj or (ti, aj) in ops[i] or (tj, ai) in ops[j]:
                                continue
                            n_sites += 1
                            order = TYPST_ORDER[ti]
                            key = "%s:%s:%s-%s" % (keyname(p, f), ti, ai, aj)
                            if order.index(ai) < order.index(aj):
                                ck.proved(rule, key, f.loc(ln), "%s: %s() is emitted before %s(), as written in the source" % (ti, ai, aj))
                            elif sorted_at_exit:
                                ck.proved(rule, key, f.loc(ln), "%s: %s() before %s() against source order, but Typst::parse sorts the tokens before returning them" % (ti, ai, aj))
                            else:
                                ck.refuted(rule, key, f.loc(ln), "%s: the tokens of %s() are emitted before those of %s() (%s), but in the source `%s` comes first: the token stream is not in increasing order, and passes that join neighbouring tokens (number + suffix, contractions) build spans with start > end" % (ti, ai, aj, how, aj))
    ck.floor(rule, "ordered concatenations of AST parts in the Typst translator", n_sites, 3)


# ---------------------------------------------------------------------------------------------------
FB_SCOPE = re.compile(r"^(harper_core::(lexing|parsers|patterns|mask|document|span)|harper_comments|harper_html|harper_typst|harper_literate_haskell|harper_tree_sitter|harper_ls::git_commit_parser)(::|$)")
ITER_ADAPT = {"iter", "into_iter", "enumerate", "copied", "cloned", "by_ref", "peekable"}


def _fallback(ck, p):
    """`s.iter().position(pred).unwrap_or(t.len())`: "not found" stands for "the whole slice", so the
    fallback has to be the length of the slice that was searched.  The length of another slice - the
    uncut input where a sub-slice was searched - yields an end index beyond the searched slice, and a
    token (or cut) built from it reaches past the text."""
    rule = "R-C02-fallback"
    ck.rule(rule, "where a front end takes `position(..)` of a slice and falls back to a length when nothing is found (unwrap_or(x.len())), x is the very slice that was searched: the length of a different slice (the uncut input, where a sub-slice was searched) makes the resulting index run past the searched slice - a lexer then returns a token longer than the remaining text")
    n = 0
    for f in sorted(p.fns.values(), key=lambda g: g.name):
        if not FB_SCOPE.match(f.name):
            continue
        pv = None
        k = 0
        for bi, t in f.calls():
            if method(t) != "unwrap_or" or len(t["args"]) != 2:
                continue
            pv = pv or Prov(f)
            srch = [o for o in pv.trace_operand(t["args"][0]) if o[0] == "call" and last(norm(o[2] or "")) in ("position", "rposition")]
            lens = [o for o in pv.trace_operand(t["args"][1]) if o[0] == "call" and last(norm(o[2] or "")) == "len"]
            if len(srch) != 1 or len(lens) != 1 or len(pv.trace_operand(t["args"][0])) != 1 or len(pv.trace_operand(t["args"][1])) != 1:
                continue

            def base(op, depth=0):
                """origins of the slice an iterator chain walks"""
                out = set()
                for o in pv.trace_operand(op):
                    if o[0] == "call" and last(norm(o[2] or "")) in ITER_ADAPT | {"position", "rposition"} and depth < 8:
                        ct = f.blocks[o[1]]["t"]
                        if last(norm(o[2] or "")) in ("position", "rposition") and depth > 0:
                            continue        # the &mut iterator's own def chain lists the consumer too
                        out |= base(ct["args"][0], depth + 1)
                    else:
                        out.add(o[:3] if o[0] == "call" else o)
                return out
            b1 = base(f.blocks[srch[0][1]]["t"]["args"][0], 1)
            b2 = {o[:3] if o[0] == "call" else o for o in pv.trace_operand(f.blocks[lens[0][1]]["t"]["args"][0])}
            if not b1 or not b2:
                continue
            n += 1
            k += 1
            ck.saw(f)
            key = "%s:fallback#%d" % (keyname(p, f), k)
            if b1 == b2:
                ck.proved(rule, key, f.loc(t["ln"]), "the fallback is the length of the searched slice")
            elif any(o[0] == "call" and last(norm(o[2] or "")) in ("index", "get", "split_at", "get_content") for o in b1) and not any(o[0] == "call" for o in b2):
                ck.refuted(rule, key, f.loc(t["ln"]), "position() searches a sub-slice, but when nothing is found the length of the uncut slice is used instead of the sub-slice's: the index that results lies beyond the end of what was searched (by the offset of the sub-slice), and a token or cut built from it reaches past the text")
            else:
                ck.undecided(rule, key, f.loc(t["ln"]), "the searched slice and the slice whose length is the fallback are not recognisably the same (%s vs %s)" % (sorted(map(str, b1))[:2], sorted(map(str, b2))[:2]))
    ck.floor(rule, "position(..).unwrap_or(len) sites in the front ends", n, 2)


# ---------------------------------------------------------------------------------------------------
def _md_cover(ck, p, byk):
    """A token that merely covers a Markdown event (code, math, HTML, code-block text, an ignored link title)
    has to be as long as the event's SOURCE RANGE.  The event's own text is something else: pulldown-cmark
    expands a tab in front of an indented code block into spaces (text longer than its range - the token
    runs past the end of the text and over its successor) and strips the backticks of a code span (shorter)."""
    rule = "R-C02-cover"
    ck.rule(rule, "Markdown: a token built with Span::new_with_len(cursor, n) for an event has n counted on the source (chars of source_str[range]), never on the event's own text (CowStr): that text can be longer than the range it came from (tab expansion), which puts the token's end past the text and over the next token")
    fs = byk.get("<Markdown as Parser>::parse")
    if not ck.anchor(rule, "<Markdown as Parser>::parse", fs):
        return
    f = fs[0]
    ck.saw(f)
    pv = Prov(f)
    n = 0
    bad = []
    for bi, t in f.calls():
        if norm(inst_of(t) or "") != "harper_core::span::{impl}::new_with_len" or len(t["args"]) < 2:
            continue
        from ..util import const_int
        if const_int(t["args"][1]) is not None:
            continue
        n += 1
        cow = _counts_event_text(f, pv, t["args"][1])
        if cow:
            bad.append(t["ln"])
    ck.floor(rule, "event-covering tokens in Markdown::parse", n, 2)
    if bad:
        ck.refuted(rule, "Markdown::parse:cover-length", f.loc(bad[0]), "a token is sized by the length of the event's own text (lines %s): for `-\\t\\tx` pulldown-cmark reports a code-block text of two spaces for a one-character range, and the Unlintable token 3..5 lies past the end of the four-character text and over the token 3..4 that follows" % sorted(set(bad)))
    else:
        ck.proved(rule, "Markdown::parse:cover-length", f.span, "%d event-covering tokens, all sized on the source range" % n)


def _counts_event_text(f, pv, op, depth=0):
    """is this length `<event text>.chars().count()` - counted on a pulldown-cmark CowStr rather than on a slice
    of the source string?  Follows the value through count / chars / deref / copies only."""
    if depth > 8:
        return False
    def rooted_in_event(o):
        while isinstance(o, tuple) and o and o[0] == "field":
            o = o[1]
        return isinstance(o, tuple) and o and o[0] == "call" and "pulldown_cmark" in str(o[3] or o[2] or "")
    for o in pv.trace_operand(op):
        if o[0] == "field" and rooted_in_event(o) and depth > 0:
            return True
        if o[0] != "call":
            continue
        t = f.blocks[o[1]]["t"]
        m = method(t)
        if m in ("count", "chars", "len", "clone", "as_ref", "borrow", "as_str", "to_string", "into") and t["args"]:
            if _counts_event_text(f, pv, t["args"][0], depth + 1):
                return True
        if m in ("deref", "as_ref", "borrow", "to_string", "into_string") and t["args"]:
            pl = place_of(t["args"][0])
            if pl and "CowStr" in (f.local_tystr(pl[0]) or ""):
                return True
    pl = place_of(op)
    if pl and "CowStr" in (f.local_tystr(pl[0]) or ""):
        return True
    return False
