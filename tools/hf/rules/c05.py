"""C05 — results depend only on text, language, dictionary, configuration.

A linter's output is a function of its declared inputs iff there is no hidden state: (i) in `self`
of a rule, (ii) in statics, (iii) in caches with incomplete keys, (iv) in the iteration order of
randomly seeded hash containers.  Each is a structural fact decided here."""
import re

from .. import facts
from ..cfg import Cfg
from ..common import (arg_fields, arg_roots, calls_to, def_of, inst_of, method, target_of, place_field_names)
from ..prov import Prov, flatten, field_names
from ..tygraph import TyGraph, INTERIOR_MUT
from ..util import fns_by_key, keyname, place_of, norm, last, with_closures, calls
from . import c11

LEVEL = "other"
LINT = "harper_core::linting::Linter::lint"

# registered memo tables / delegation containers: (self type, field) -> reason
MEMO = {
    ("LintGroup", "chunk_pattern_cache"): "memo of run_on_chunk keyed by (chunk chars, tokenisation, config hash): completeness decided by R-C05-key",
    ("LintGroup", "linters"): "container of sub-linters, iterated to delegate Linter::lint (gate decided under C11)",
    ("LintGroup", "pattern_linters"): "container of pattern linters, iterated to delegate run_on_chunk (gate decided under C11)",
    ("SpellCheck", "word_cache"): "memo of suggestions keyed by the word; value derives from (word, self.dictionary, self.dialect)",
}
# registered scratch / memo statics: name fragment -> justification rule
STATIC_REG = {
    "within_edit_distance::BUFFERS": "scratch",
    "fst_dictionary::AUTOMATON_BUILDERS": "keyed",
    "lint_group::CURATED_CONFIG": "nullary",
}
WRITE_ONCE = ("std::thread::local_impl::LazyStorage", "std::thread::local_impl::EagerStorage", "lazy_static::lazy::Lazy", "once_cell::sync::Lazy",
              "once_cell::unsync::Lazy", "std::sync::once_lock::OnceLock", "std::sync::lazy_lock::LazyLock", "core::cell::once::OnceCell", "std::sync::OnceLock")
UI_STATICS = re.compile(r"(__CALLSITE|::META$|augment_args(_for_update)?::DEFAULT_VALUE$)")

ITER_METHODS = {"iter", "keys", "values", "into_iter", "drain", "iter_mut", "values_mut", "into_values", "into_keys", "extract_if"}
# reviewed iteration sites over randomly seeded hash containers: (function key, method) -> (class, reason)
ORDER_TABLE = {
    ("<DotInitialisms as Default>::default", "keys"): ("insensitive", "each key adds one named entry to a WordPatternGroup (a map keyed by the word)"),
    ("harper_core::linting::proper_noun_capitalization_linters::lint_group_from_json", "into_iter"): ("insensitive", "each entry is inserted into the LintGroup's BTreeMap under its own name"),
    ("AttributeList::into_human_readable", "into_iter"): ("insensitive", "collected into another map; dictionary tooling, not on the lint path"),
    ("HumanReadableAttributeList::into_normal", "into_iter"): ("insensitive", "collected into another map keyed by the same char"),
    ("<WordMap as IntoIterator>::into_iter", "into_values"): ("escapes", "consumed by From<MutableDictionary> for FstDictionary, which sorts by the full word and deduplicates (FstDictionary::new)"),
    ("TreeSitterMasker::create_ident_dict", "into_iter"): ("insensitive", "extends a dictionary (a set of words)"),
    ("<Summary as Display>::fmt", "into_iter"): ("ui", "text of the statistics summary, not a lint result"),
    ("<Summary as Display>::fmt", "iter"): ("ui", "text of the statistics summary, not a lint result"),
    ("harper_cli::main", "into_iter"): ("ui", "command-line listing"),
    ("<Backend as LanguageServer>::did_change_configuration::{closure}", "values_mut"): ("insensitive", "every open document gets a new LintGroup; order irrelevant"),
    ("<Backend as LanguageServer>::did_change_configuration::{closure}", "keys"): ("insensitive", "per-url refresh+publish; documents are independent"),
    ("<Backend as LanguageServer>::shutdown::{closure}", "keys"): ("insensitive", "empty publish per url"),
}


def run(ck, tier):
    ck.rule("R-C05-stateless", "effects: every impl of Linter::lint writes no field of self outside the registered memo table {LintGroup.chunk_pattern_cache, SpellCheck.word_cache} and the sub-linter containers it delegates to; every Pattern / PatternLinter implementor has no interior mutability in its type graph")
    ck.rule("R-C05-statics", "census of statics in the ten crates: each is write-once with a payload free of interior mutability, or a registered scratch/memo whose justification is checked (BUFFERS cleared before use, AUTOMATON_BUILDERS keyed by its only input, CURATED_CONFIG nullary), or logging/CLI plumbing")
    ck.rule("R-C05-key", "cache-key completeness for chunk_pattern_cache: key covers (a) the chunk's characters, (b) the configuration (hash_one(&self.config), Hash feeds every entry), (c) the tokenisation of the chunk, and (d) hits are re-based symmetrically (pull_by before put, push_by after get, same offset); SpellCheck.word_cache is keyed by the word and its value derives only from word/dictionary/dialect")
    ck.rule("R-C05-order", "no randomly seeded iteration order reaches an output: LintGroup's rule tables are BTreeMaps; every iteration over a randomly seeded hash container is classified (reviewed table, exact keys); consumers of the word-map order must sort by a total key before truncating")
    ck.rule("R-C05-rebuild", "harper-ls rebuilds the LintGroup when the document's dictionary changes (update_document: doc_state.dict != dict => new LintGroup); the WebAssembly Linter rebuilds its merged dictionary and LintGroup after import_words, unguarded, or guarded by an exact-spelling look-up of the imported words in the user dictionary (not by 'the count grew' - a word can replace an entry that differs only by case - and not by a lookup in the merged dictionary, which folds case while the spell checker does not)")
    ck.not_decided += ["equality of concrete lint lists across histories (needs execution)", "thread-assignment equivalence beyond 'no shared mutable state other than pure thread-local memos'"]
    p = facts.load()
    byk = fns_by_key(p)
    _stateless(ck, p, byk)
    _freeze(ck, p)
    if tier == "thorough":
        pn = facts.load_nc()
        from .. import prov as _prov
        saved = _prov.PROGRAM
        _prov.PROGRAM = pn
        try:
            _stateless(_Sub(ck, "R-C05-stateless", "no-concurrent:"), pn, fns_by_key(pn))
            _freeze(_Sub(ck, "R-C05-stateless", "no-concurrent:"), pn)
        finally:
            _prov.PROGRAM = saved
    _statics(ck, p, byk)
    _key(ck, p, byk)
    _order(ck, p, byk)
    _rebuild(ck, p)
    # the chunk cache is only sound if the memoised computation looks only inside the chunk
    from . import c12
    c12.match_to_lint_locality(_Sub(ck, "R-C05-key", "locality:"), p, "R-C05-key")


# ---------------------------------------------------------------------------------------------------
def self_writes(p, f, seen=None):
    """{(field path first component or '*', how, where)} written through `&mut self` in f, following
    workspace callees that receive the whole `&mut *self`."""
    seen = set() if seen is None else seen
    if f.name in seen:
        return set()
    seen.add(f.name)
    out = set()
    pv = Prov(f)
    # aliases of self
    alias = {1}
    changed = True
    while changed:
        changed = False
        for b in f.blocks:
            if b["cleanup"]:
                continue
            for s in b["s"]:
                if s["k"] == "assign" and len(s["lhs"]) == 1 and s["lhs"][0] not in alias:
                    rv = s["rv"]
                    pl = rv.get("place") if rv["k"] == "ref" else (place_of(rv["op"]) if rv["k"] == "use" else None)
                    if pl and pl[0] in alias and all(e == "*" for e in pl[1:]):
                        alias.add(s["lhs"][0])
                        changed = True
    field_borrows = {}   # temp local -> field name
    for bi, b in enumerate(f.blocks):
        if b["cleanup"]:
            continue
        for s in b["s"]:
            if s["k"] != "assign":
                continue
            lhs = s["lhs"]
            if lhs[0] in alias and len(lhs) > 1:
                fl = [e[2] for e in lhs[1:] if isinstance(e, list) and e[0] == "f"]
                if fl:
                    out.add((fl[0], "assigned", f.loc(s["ln"])))
            rv = s["rv"]
            if rv["k"] == "ref" and rv["mut"] and rv["place"][0] in alias:
                fl = [e[2] for e in rv["place"][1:] if isinstance(e, list) and e[0] == "f"]
                if fl and len(lhs) == 1:
                    field_borrows[lhs[0]] = fl[0]
    # propagate borrows through moves / reborrows
    changed = True
    while changed:
        changed = False
        for b in f.blocks:
            if b["cleanup"]:
                continue
            for s in b["s"]:
                if s["k"] == "assign" and len(s["lhs"]) == 1 and s["lhs"][0] not in field_borrows:
                    rv = s["rv"]
                    pl = rv.get("place") if rv["k"] == "ref" else (place_of(rv["op"]) if rv["k"] in ("use", "cast") else None)
                    if pl and pl[0] in field_borrows and all(e == "*" for e in pl[1:]):
                        field_borrows[s["lhs"][0]] = field_borrows[pl[0]]
                        changed = True
    for bi, t in f.calls():
        for ai, a in enumerate(t["args"]):
            pl = place_of(a)
            if not pl or len(pl) != 1:
                continue
            if pl[0] in field_borrows:
                fld = field_borrows[pl[0]]
                if ai == 0 and def_of(t) == LINT:
                    out.add((fld, "delegated", f.loc(t["ln"])))
                else:
                    out.add((fld, "mut-borrowed by %s" % method(t), f.loc(t["ln"])))
            elif pl[0] in alias and pl[0] != 1 or (pl[0] == 1 and ai == 0 and bi >= 0 and False):
                pass
        # whole self passed on
        a0 = t["args"][0] if t["args"] else None
        pl0 = place_of(a0) if a0 else None
        if pl0 and len(pl0) == 1 and pl0[0] in alias and f.local_ty(pl0[0])["k"] == "ref" and f.local_ty(pl0[0])["mut"]:
            callee = p.fns.get(t["f"].get("inst") or "")
            if callee is not None and callee.local_ty(1)["k"] == "ref" and callee.local_ty(1)["mut"]:
                for w in self_writes(p, callee, seen):
                    out.add(w)
            elif callee is None and t["f"].get("inst") is None and def_of(t) == LINT:
                pass
            elif callee is None:
                out.add(("*", "whole &mut self passed to %s" % target_of(t), f.loc(t["ln"])))
    return out


def _stateless(ck, p, byk):
    rule = "R-C05-stateless"
    impls = p.impls_of_method(LINT)
    ck.floor(rule, "impls of Linter::lint", len(impls), 16)
    for f in impls:
        ck.saw(f)
        ty = last((f.get("impl_self_head") or "?"))
        if (f.get("impl_self_head") or "").startswith("<"):
            ty = "<blanket impl for PatternLinter>"
        ws = self_writes(p, f)
        bad = []
        notes = []
        for fld, how, where in sorted(ws):
            if how == "delegated":
                notes.append("%s: delegated to Linter::lint" % fld)
                continue
            if (ty, fld) in MEMO:
                notes.append("%s: %s" % (fld, MEMO[(ty, fld)]))
                continue
            bad.append((fld, how, where))
        if bad:
            for fld, how, where in bad:
                ck.refuted(rule, "%s.%s" % (ty, fld), where, "Linter::lint of %s writes self.%s (%s): the rule keeps state between documents, so its output can depend on what was linted before" % (ty, fld, how))
        else:
            ck.proved(rule, ty, f.span, "writes on self: %s" % (notes or "none"))


def _freeze(ck, p):
    rule = "R-C05-stateless"
    tg = TyGraph(p)
    n = {"Pattern": 0, "PatternLinter": 0}
    for tr, label in (("harper_core::patterns::Pattern", "Pattern"), ("harper_core::linting::pattern_linter::PatternLinter", "PatternLinter")):
        for im in p.impls:
            if im["trait"] != tr:
                continue
            head = im["self_head"]
            if head.startswith("<") or head in ("alloc::sync::Arc", "alloc::rc::Rc", "alloc::boxed::Box"):
                continue
            n[label] += 1
            crate = im["crate"]
            bad = tg.interior_mutable_nodes(crate, im["self"])
            key = "freeze:%s:%s" % (label, last(head))
            if bad:
                path, ty = bad[0]
                ck.refuted(rule, key, im["span"], "%s (methods take &self) contains interior mutability: %s via %s" % (last(head), ty, "/".join(path)))
            else:
                ck.proved(rule, key, im["span"], "no Cell/RefCell/Mutex/Atomic reachable in the type graph")
    ck.floor(rule, "Pattern implementor structs", n["Pattern"], 12)
    ck.floor(rule, "PatternLinter implementor structs", n["PatternLinter"], 24)


# ---------------------------------------------------------------------------------------------------
def _payload(tg, crate, tid):
    """strip write-once wrappers"""
    t = tg.ty(crate, tid)
    while t["k"] == "adt" and t["name"].startswith(WRITE_ONCE) and t["args"]:
        tid = t["args"][0]
        t = tg.ty(crate, tid)
    return tid, t


def _statics(ck, p, byk):
    rule = "R-C05-statics"
    tg = TyGraph(p)
    n = 0
    seen_reg = set()
    for s in p.statics:
        nm = s["name"]
        if UI_STATICS.search(nm):
            continue
        n += 1
        crate = s["crate"]
        short = re.sub(r"::\{constant#0\}::\{closure#\d\}::__RUST_STD_INTERNAL_VAL$", "", nm)
        short = re.sub(r"::\{impl#\d+\}::deref::__stability::LAZY$", "::<lazy_static>", short)
        key = norm(short).replace("harper_core::", "").replace("harper_ls::", "ls::")
        if s["mut"]:
            ck.refuted(rule, key, s["span"], "static mut")
            continue
        tid, t = _payload(tg, crate, s["ty"])
        im = tg.interior_mutable_nodes(crate, tid)
        reg = [k for k in STATIC_REG if k in nm]
        if not im:
            ck.proved(rule, key, s["span"], "write-once; payload %s has no interior mutability" % t["s"][:80])
        elif reg:
            seen_reg.add(reg[0])
            ck.proved(rule, key, s["span"], "registered %s static (%s); justification checked below" % (STATIC_REG[reg[0]], reg[0]))
        else:
            ck.refuted(rule, key, s["span"], "static with interior mutability (%s) that is not a registered scratch/memo: hidden state shared by every linter on the thread/process" % im[0][1])
    ck.floor(rule, "statics in the workspace (without logging/CLI plumbing)", n, 10)
    # justifications
    f = byk.get("harper_core::edit_distance::edit_distance_min_alloc")
    if ck.anchor(rule, "edit_distance_min_alloc", f):
        f = f[0]
        ck.saw(f)
        cfg = Cfg(f)
        pv = Prov(f)
        ok = True
        detail = []
        for param, first in ((3, "clear"), (4, "resize")):
            uses = []
            for bi, t in f.calls():
                for a in t["args"]:
                    pl = place_of(a)
                    if pl and (pl[0] == param or pv.mut_base.get(pl[0]) == param or _alias_of(f, pl[0]) == param):
                        uses.append((bi, method(t)))
            firsts = [b for b, m in uses if m == first]
            good = bool(firsts) and all(cfg.dominates(firsts[0], b) for b, m in uses)
            ok = ok and good
            detail.append("param _%d: %s dominates its %d other uses=%s" % (param, first, len(uses) - 1, good))
        ck.decide(rule, "BUFFERS:cleared-before-use", ok, f.span, "; ".join(detail))
        users = [g for g in p.fns.values() if any(("static", x) for x in []) or _uses_static(g, "within_edit_distance::BUFFERS")]
        only = all(all(inst_of(t).endswith("edit_distance_min_alloc") or not _passes_closure_args(c, t) for _, t in c.calls()) for g in users for c in p.closures_of(g.name))
        ck.decide(rule, "BUFFERS:users", len(users) >= 1 and only, "", "functions touching BUFFERS: %s; the buffers are handed only to edit_distance_min_alloc" % [keyname(p, g) for g in users])
    b = byk.get("harper_core::spell::fst_dictionary::build_dfa")
    if ck.anchor(rule, "fst_dictionary::build_dfa", b):
        b = b[0]
        ck.saw(b)
        clos = with_closures(p, b)[1:]
        eqs = 0
        for c in clos:
            for blk in c.blocks:
                for s in blk["s"]:
                    if s["k"] == "assign" and s["rv"]["k"] == "bin" and s["rv"]["op"] == "Eq":
                        eqs += 1
        news = [(c, t) for c in clos for _, t in c.calls() if inst_of(t).endswith("LevenshteinAutomatonBuilder::new") or (method(t) == "new" and "levenshtein_automata" in inst_of(t))]
        const_second = all("k" in t["args"][1] for _, t in news)
        users = [g for g in p.fns.values() if _uses_static(g, "fst_dictionary::AUTOMATON_BUILDERS") and g.get("kind") != "Closure"]
        only_build = all(keyname(p, g).startswith("harper_core::spell::fst_dictionary::build_dfa") or "AUTOMATON_BUILDERS" in g.name for g in users)
        ords = _distance_orderings(clos)
        ck.decide(rule, "AUTOMATON_BUILDERS:keyed", eqs >= 1 and bool(news) and const_second and only_build and not ords, b.span,
                  "builders are looked up by comparing the stored distance with the parameter (%d equality comparisons, %d ordering comparisons of u8 distances%s), built from (max_distance, constant)=%s, used only by build_dfa=%s" % (
                      eqs, len(ords), "" if not ords else " at lines %s: a builder for ANOTHER distance can be picked, so the automaton accepts words beyond the requested bound (or fewer), depending on what this thread searched for before" % sorted(set(ords)), const_second, only_build))
    cc = [s for s in p.statics if s["name"].endswith("lint_group::CURATED_CONFIG")]
    if ck.anchor(rule, "CURATED_CONFIG", cc):
        ts = p.tys[cc[0]["crate"]][cc[0]["ty"]]["s"]
        ck.decide(rule, "CURATED_CONFIG:nullary", "UnboundCache<(), " in ts, cc[0]["span"], "memo store type %s: key type () (no inputs)" % ts)


def _alias_of(f, local):
    for b in f.blocks:
        for s in b["s"]:
            if s["k"] == "assign" and s["lhs"] == [local] and s["rv"]["k"] in ("ref", "use"):
                pl = s["rv"].get("place") or place_of(s["rv"]["op"])
                if pl:
                    return pl[0]
    return None


def _uses_static(f, frag):
    def opnd_static(o):
        k = o.get("k") if isinstance(o, dict) else None
        return bool(k and "static" in k and frag in k["static"])
    for b in f.blocks:
        for s in b["s"]:
            if s["k"] == "assign":
                rv = s["rv"]
                if rv["k"] == "tls" and frag in rv["name"]:
                    return True
                for k in ("op", "a", "b"):
                    if isinstance(rv.get(k), dict) and opnd_static(rv[k]):
                        return True
        t = b["t"]
        if t["k"] == "call":
            if any(opnd_static(a) for a in t["args"]):
                return True
            fn = t["f"]
            if frag in (fn.get("inst") or "") or frag in (fn.get("def") or ""):
                return True
    return False


def _passes_closure_args(c, t):
    """does the call receive one of the closure's own parameters (the borrowed buffers)?"""
    for a in t["args"]:
        pl = place_of(a)
        if pl and 2 <= pl[0] <= c["argc"]:
            return True
    return False


# ---------------------------------------------------------------------------------------------------
def _key(ck, p, byk):
    rule = "R-C05-key"
    fs = byk.get("<LintGroup as Linter>::lint")
    if not ck.anchor(rule, "<LintGroup as Linter>::lint", fs):
        return
    f = fs[0]
    ck.saw(f)
    cfg = Cfg(f)
    pv = Prov(f)
    gets = [(bi, t) for bi, t in f.calls() if inst_of(t).startswith("lru::{impl}::") and method(t) in ("get", "get_mut", "peek")]
    puts = [(bi, t) for bi, t in f.calls() if inst_of(t).startswith("lru::{impl}::") and method(t) in ("put", "push", "get_or_insert")]
    runs = [(bi, t) for bi, t in f.calls() if inst_of(t) == "harper_core::linting::pattern_linter::run_on_chunk"]
    if not (gets and puts and runs):
        ck.refuted(rule, "anchor-missing:chunk-cache", f.span, "cache get/put or run_on_chunk not found")
        return
    chunk_op = runs[0][1]["args"][1]
    chunk_src = {o for o in flatten(pv.trace_operand(chunk_op)) if o[0] == "call"}
    for what, (bi, t) in (("get", gets[0]), ("put", puts[0])):
        keyop = t["args"][1]
        roots = arg_roots(f, pv, keyop)
        # (a) characters: get_span_content(chunk.span())
        gsc = [o for o in roots if o[0] == "call" and last(norm(o[3] or "")) in ("get_span_content", "get_content")]
        a_ok = False
        for o in gsc:
            sp = arg_roots(f, pv, f.blocks[o[1]]["t"]["args"][1])
            spans = [x for x in sp if x[0] == "call" and last(norm(x[3] or "")) == "span"]
            # every span that can feed the keyed characters must be the span of that very chunk
            # (a fallback such as `sub.span().unwrap_or(chunk_span)` keys another slice's characters)
            a_ok = bool(spans) and all({y for y in flatten(pv.trace_operand(f.blocks[x[1]]["t"]["args"][0])) if y[0] == "call"} == chunk_src for x in spans)
        ck.decide(rule, "chunk-cache:%s:chars" % what, a_ok, f.loc(t["ln"]), "(a) key contains the characters of the very chunk handed to run_on_chunk: %s" % a_ok)
        # (c) tokenisation: the key derives from the chunk's tokens themselves, not only from its outer span
        c_ok = False
        why = "the key is built from chunk.span() and the characters only"
        for o in roots:
            if o[0] != "call":
                continue
            ct = f.blocks[o[1]]["t"]
            if last(norm(o[3] or o[2] or "")) == "span":
                continue
            for a in ct["args"]:
                if {y for y in flatten(pv.trace_operand(a)) if y[0] == "call"} == chunk_src and chunk_src:
                    # the tokens flow into the key: through a closure that reads `kind`, or hashed whole
                    reads_kind = _chain_reads_kind(p, f, pv, o, roots)
                    if reads_kind:
                        c_ok = True
                        why = "the key hashes the chunk's token kinds (%s)" % target_of(ct)
        if c_ok:
            ck.proved(rule, "chunk-cache:%s:tokenisation" % what, f.loc(t["ln"]), "(c) " + why)
        else:
            ck.refuted(rule, "chunk-cache:%s:tokenisation" % what, f.loc(t["ln"]),
                       "(c) the memoised run_on_chunk reads every token's kind, but %s: the same characters tokenised differently (another language/parser on the same long-lived linter) are served the other tokenisation's lints" % why)
    # (d) symmetric re-basing: what is subtracted before the lints are stored / handed over is what is added back
    _rebase_symmetry(ck, p, rule, byk, f, cfg, pv, gets, puts)
    # (b) shared with C11
    c11._key(_Sub(ck, rule, "config:"), p, byk)
    # word_cache
    fs = byk.get("SpellCheck::cached_suggest_correct_spelling")
    if ck.anchor(rule, "SpellCheck::cached_suggest_correct_spelling", fs):
        g = fs[0]
        ck.saw(g)
        gpv = Prov(g)
        gets = [(bi, t) for bi, t in g.calls() if inst_of(t).startswith("lru::{impl}::") and method(t) == "get"]
        puts = [(bi, t) for bi, t in g.calls() if inst_of(t).startswith("lru::{impl}::") and method(t) == "put"]
        ok = len(gets) == 1 and len(puts) == 1
        detail = "get=%d put=%d" % (len(gets), len(puts))
        if ok:
            kg = ("arg", 2) in arg_roots(g, gpv, gets[0][1]["args"][1])
            kp = ("arg", 2) in arg_roots(g, gpv, puts[0][1]["args"][1])
            vroots = arg_roots(g, gpv, puts[0][1]["args"][2])
            leaves = {o for o in vroots if o[0] in ("arg", "static")}
            fields = set()
            for bi, t in g.calls():
                for a in t["args"]:
                    fields |= set(place_field_names(a)) & {"dictionary", "dialect", "word_cache"}
            only_inputs = leaves <= {("arg", 1), ("arg", 2)}
            # the key must determine the word the search is run on: it may differ from it only by
            # representation-changing conversions, never by a lossy transform (to_lower, trim, ...)
            lossy = []
            for which, op in (("get", gets[0][1]["args"][1]), ("put", puts[0][1]["args"][1])):
                for o in arg_roots(g, gpv, op):
                    if o[0] == "call" and last(norm(o[3] or o[2] or "")) not in INJECTIVE:
                        lossy.append("%s key goes through %s" % (which, last(norm(o[3] or o[2] or ""))))
            searches = [(bi, t) for bi, t in g.calls() if inst_of(t).endswith("spell::suggest_correct_spelling")]
            search_on_word = bool(searches) and all(("arg", 2) in flatten(gpv.trace_operand(t["args"][0])) for _, t in searches)
            ok = kg and kp and only_inputs and not lossy and search_on_word
            detail += "; key = the word on both sides=%s/%s%s; the search runs on that same word=%s; the cached value derives only from (self, word) %s; self fields read: %s" % (kg, kp, "" if not lossy else " but " + "; ".join(sorted(set(lossy))), search_on_word, only_inputs, sorted(fields))
        ck.decide(rule, "word_cache", ok, g.span, detail)


INJECTIVE = {"into", "from", "clone", "to_owned", "to_vec", "to_smallvec", "as_ref", "deref", "borrow", "iter", "copied", "cloned", "collect", "into_iter", "to_string", "as_slice", "from_slice", "from_iter", "new", "as_mut", "borrow_mut"}


class _Sub:
    """adapter: run a rule function of another property under this property's rule id"""
    def __init__(self, ck, rule, prefix):
        self.ck, self.rule_id, self.prefix = ck, rule, prefix
        self.callsites = 0

    def anchor(self, rule, what, obj):
        return self.ck.anchor(self.rule_id, what, obj)

    def saw(self, f):
        self.ck.saw(f)

    def floor(self, rule, what, found, floor):
        self.ck.floor(self.rule_id, what, found, floor)

    def decide(self, rule, key, ok, where="", detail="", facts=None):
        return self.ck.decide(self.rule_id, self.prefix + key, ok, where, detail, facts)

    def ob(self, rule, key, verdict, where="", detail="", facts=None):
        return self.ck.ob(self.rule_id, self.prefix + key, verdict, where, detail, facts)

    @property
    def extra(self):
        return self.ck.extra

    @property
    def notes(self):
        return self.ck.notes

    def refuted(self, rule, key, where="", detail="", facts=None):
        return self.ck.refuted(self.rule_id, self.prefix + key, where, detail, facts)

    def proved(self, rule, key, where="", detail="", facts=None):
        return self.ck.proved(self.rule_id, self.prefix + key, where, detail, facts)

    def undecided(self, rule, key, where="", detail="", facts=None):
        return self.ck.undecided(self.rule_id, self.prefix + key, where, detail, facts)


def _chain_reads_kind(p, f, pv, origin, roots):
    """the call chain that carries the chunk tokens into the key reads their `kind`: either a closure
    argument of one of the calls on the way reads the field `kind`, or the token slice itself is hashed"""
    for o in roots:
        if o[0] != "call":
            continue
        t = f.blocks[o[1]]["t"]
        n = last(norm(o[3] or o[2] or ""))
        if n in ("hash_one", "hash", "hash_slice"):
            for a in t["args"][1:]:
                ty = None
                pl = place_of(a)
                if pl:
                    ty = f.local_tystr(pl[0])
                if ty and "Token" in ty and "[" in ty:
                    return True
        for a in t["args"]:
            for x in flatten(pv.trace_operand(a)):
                if x[0] == "agg" and x[1] == "closure":
                    c = p.fns.get(x[2].split(":")[0]) or p.fns.get(x[2])
                    if c is not None and _reads_field(c, "kind"):
                        return True
            # closures are aggregates: look at raw origins too
            for x in pv.trace_operand(a):
                if x[0] == "agg" and x[1] == "closure":
                    cname = x[2].rstrip(":")
                    c = p.fns.get(cname)
                    if c is not None and _reads_field(c, "kind"):
                        return True
    return False


def _reads_field(fn, name):
    s = str(fn.blocks)
    return ("'f', " in s or '"f", ' in s) and ("'%s'" % name in s or '"%s"' % name in s)


def _is_results(f, pv, t):
    pl = place_of(t["args"][0])
    if not pl:
        return False
    base = pv.mut_base.get(pl[0])
    return base is not None and f.debug_names().get(base) == "results"


def _offset_id(f, pv, op):
    """identity of an offset operand: (base local name, field path) of the place it copies"""
    for o in pv.trace_operand(op):
        x = o
        path = []
        while isinstance(x, tuple) and x[0] == "field":
            path.append(x[3])
            x = x[1]
        if path:
            return (str(x)[:60], tuple(reversed(path)))
    pl = place_of(op)
    if pl:
        return (f.debug_names().get(pl[0], pl[0]), tuple(e[2] for e in pl[1:] if isinstance(e, list)))
    return None


# ---------------------------------------------------------------------------------------------------
RANDOM_HASHER = re.compile(r"(hashbrown::(map::)?HashMap<|hashbrown::(set::)?HashSet<|std::collections::HashMap<|std::collections::HashSet<|hashbrown::hash_map::|hashbrown::hash_set::|std::collections::hash_map::|std::collections::hash_set::)")
FIXED = re.compile(r"FixedState|BuildHasherDefault")


def _order(ck, p, byk):
    rule = "R-C05-order"
    d = p.adts.get("harper_core::linting::lint_group::LintGroup")
    if ck.anchor(rule, "LintGroup", d):
        tys = {f["name"]: p.tys[d["crate"]][f["ty"]]["s"] for f in d["variants"][0]["fields"]}
        ok = all("BTreeMap<" in tys.get(k, "") for k in ("linters", "pattern_linters"))
        ck.decide(rule, "LintGroup:rule-tables", ok, d["span"], "linters: %s; pattern_linters: %s" % (tys.get("linters", "?")[:60], tys.get("pattern_linters", "?")[:60]))
    # census of iteration sites
    sites = {}
    for f in p.fns.values():
        for bi, t in f.calls():
            m = method(t)
            if m not in ITER_METHODS or not t["args"]:
                continue
            pl = place_of(t["args"][0])
            rty = f.local_tystr(pl[0]) if pl else ""
            inst = inst_of(t)
            if not (inst.startswith("hashbrown::map::") or inst.startswith("hashbrown::set::") or inst.startswith("std::collections::hash::")):
                continue
            if FIXED.search(rty):
                continue
            sites.setdefault((keyname(p, f), m), (f, t, rty))
    ck.floor(rule, "iteration sites over randomly seeded hash containers", len(sites), 5)
    for (k, m), (f, t, rty) in sorted(sites.items()):
        ck.saw(f)
        ck.callsites += 1
        key = "iter:%s:%s" % (k, m)
        if (k, m) in ORDER_TABLE:
            cls, why = ORDER_TABLE[(k, m)]
            ck.proved(rule, key, f.loc(t["ln"]), "%s (%s): %s" % (cls, rty[:50], why))
        elif k == "WordMap::iter":
            continue   # handled below through its consumers
        elif k == "AttributeList::expand_marked_word":
            ck.undecided(rule, key, f.loc(t["ln"]), "dictionary construction merges metadata with a commutative append, but `derived_from` is last-writer-wins for case variants that share a WordId; not decided structurally")
        elif k.startswith("<Backend as LanguageServer>::did_change_watched_files"):
            ck.proved(rule, key, f.loc(t["ln"]), "retain: order-insensitive filter")
        else:
            ck.undecided(rule, key, f.loc(t["ln"]), "iteration over a randomly seeded %s that has not been classified; if its order can reach a lint, suggestion list or cache decision this breaks determinism" % rty[:60])
    # the word map: its order escapes through WordMap::iter -> Dictionary::words_iter
    consumers = []
    for f in p.fns.values():
        if f.name.startswith("harper_cli::"):
            continue
        for b in with_closures(p, f)[:1]:
            for bi, t in b.calls():
                if def_of(t) == "harper_core::spell::dictionary::Dictionary::words_iter" or inst_of(t) == "harper_core::spell::word_map::{impl}::iter":
                    consumers.append((f, bi, t))
    ck.floor(rule, "consumers of the word-map order", len(consumers), 2)
    for f, bi, t in consumers:
        ck.saw(f)
        k = keyname(p, f)
        key = "wordmap-order:%s" % k
        verdict, why = _classify_consumer(p, f, bi, t)
        if verdict == "ok":
            ck.proved(rule, key, f.loc(t["ln"]), why)
        elif verdict == "bad":
            ck.refuted(rule, key, f.loc(t["ln"]), why)
        else:
            ck.undecided(rule, key, f.loc(t["ln"]), why)


PASS_THROUGH = {"map", "filter", "filter_map", "flat_map", "cloned", "copied", "into_iter", "iter", "inspect", "chain", "new", "peekable", "by_ref", "flatten", "from", "into", "as_slice", "deref"}
INSENSITIVE = {"any", "all", "count", "sum", "min", "max", "contains", "for_each", "extend", "extend_words", "len", "is_empty", "fold"}
SENSITIVE = {"take", "next", "find", "position", "nth", "last", "collect", "truncate", "first", "skip", "take_while", "step_by", "zip", "enumerate"}
SORTS = {"sorted_by_key", "sorted_unstable_by_key", "sorted_by", "sorted_unstable_by", "sorted", "sorted_unstable", "sort_by_key", "sort_unstable_by_key", "sort_by", "sort_unstable_by", "sort", "sort_unstable", "sorted_by_cached_key"}


def _classify_consumer(p, f, bi, t):
    """follow the iterator value forward through the calls that take it as their first argument"""
    k = keyname(p, f)
    table = {
        "<MergedDictionary as Dictionary>::words_iter::{closure}": ("ok", "pass-through (flat_map over children): classified at the callers of MergedDictionary::words_iter, i.e. this same list"),
        "<FstDictionary as Dictionary>::words_iter": ("ok", "pass-through to the inner dictionary"),
        "<Arc as Dictionary>::words_iter": ("ok", "pass-through (blanket impl)"),
        "<MutableDictionary as Dictionary>::words_iter": ("ok", "pass-through (Box::new(map(..)))"),
        "MergedDictionary::hash_dictionary": ("ok", "order-sensitive hash used only for MergedDictionary equality: unequal hashes force a linter rebuild (cache dropped), results unchanged"),
        "harper_ls::dictionary_io::write_word_list::{closure}": ("ok", "file line order; the reloaded dictionary is the same set"),
        "Linter::export_words": ("ok", "JS-visible list of custom words (a set), not a lint result"),
        "TreeSitterMasker::create_ident_dict": ("ok", "set construction"),
    }
    if k in table:
        return table[k]
    pv = Prov(f)
    cur = t["dest"][0]
    seen_sort_total = None
    chain = []
    cfg = Cfg(f)
    for _ in range(40):
        nxt = None
        # moves
        for b in f.blocks:
            for s in b["s"]:
                if s["k"] == "assign" and len(s["lhs"]) == 1 and s["rv"]["k"] in ("use", "ref", "cast"):
                    pl = s["rv"].get("place") or place_of(s["rv"]["op"])
                    if pl and pl[0] == cur and all(e == "*" for e in pl[1:]):
                        nxt = ("move", s["lhs"][0], None)
        for cb, ct in f.calls():
            if ct["args"] and place_of(ct["args"][0]) and place_of(ct["args"][0])[0] == cur and cb != bi:
                nxt = ("call", ct["dest"][0], ct)
        if nxt is None:
            break
        if nxt[0] == "move":
            cur = nxt[1]
            continue
        ct = nxt[2]
        m = method(ct)
        chain.append(m)
        if m in SORTS:
            seen_sort_total = _sort_is_total(p, f, pv, ct)
        elif m in INSENSITIVE:
            return "ok", "chain %s ends in an order-insensitive consumer" % chain
        elif m in SENSITIVE:
            if seen_sort_total:
                return "ok", "chain %s: truncation happens after a sort whose key covers the whole element" % chain
            if seen_sort_total is False:
                return "bad", "chain %s: the candidates arrive in hash-seed order, are sorted by a partial key (ties keep arrival order) and then truncated by %s: equal-distance suggestions differ between dictionaries with the same words, processes and runs" % (chain, m)
            return "bad", "chain %s: order-sensitive consumer %s is applied to the hash-seed order" % (chain, m)
        elif m not in PASS_THROUGH:
            return "undecided", "chain %s: consumer %s is outside the classified vocabulary" % (chain, m)
        cur = nxt[1]
    return "undecided", "could not follow the iterator to a consumer (chain %s)" % chain


def _sort_is_total(p, f, pv, ct):
    """the sort key closure returns a value built from *every* component of the element (tuple of all
    fields / the element itself); a projection of one field is a partial key"""
    if len(ct["args"]) < 2:
        return True      # natural Ord on the whole element
    clos = None
    for x in pv.trace_operand(ct["args"][1]):
        if x[0] == "agg" and x[1] == "closure":
            clos = p.fns.get(x[2].rstrip(":")) or p.fns.get(x[2].split(":")[0])
    if clos is None:
        # closure aggregate name is stored in the rvalue; find by parent
        cands = [c for c in p.closures_of(f.name)]
        pl = place_of(ct["args"][1])
        for b in f.blocks:
            for s in b["s"]:
                if s["k"] == "assign" and pl and s["lhs"] == [pl[0]] and s["rv"]["k"] == "agg" and s["rv"].get("agg") == "closure":
                    clos = p.fns.get(s["rv"]["name"])
    if clos is None:
        return None
    cpv = Prov(clos)
    elem_ty = clos.local_ty(2)
    while elem_ty["k"] == "ref":
        elem_ty = clos.ty(elem_ty["in"])
    n_fields = len(elem_ty.get("elems", [])) if elem_ty["k"] == "tuple" else None
    ret = cpv.trace_local(0)
    used = set()
    whole = False
    for o in ret:
        for leaf in _all_terms(o):
            x = leaf
            path = []
            while isinstance(x, tuple) and x[0] == "field":
                path.append(x[2])
                x = x[1]
            if x == ("arg", 2):
                if path:
                    used.add(path[-1])
                else:
                    whole = True
    if whole:
        return True
    if n_fields is None:
        return None
    return len(used) >= n_fields


def _all_terms(o):
    out = [o]
    if isinstance(o, tuple):
        if o[0] == "agg":
            for ops in o[3]:
                for x in ops:
                    out += _all_terms(x)
        elif o[0] in ("bin",):
            for x in list(o[2]) + list(o[3]):
                out += _all_terms(x)
        elif o[0] in ("un", "discr"):
            for x in o[-1]:
                out += _all_terms(x)
        elif o[0] == "call":
            pass
    return out


# ---------------------------------------------------------------------------------------------------
def _distance_orderings(bodies):
    """lines of <, <=, >, >= comparisons between u8 values in the given bodies"""
    out = []
    for c in bodies:
        for blk in c.blocks:
            if blk["cleanup"]:
                continue
            for sx in blk["s"]:
                if sx["k"] == "assign" and sx["rv"]["k"] == "bin" and sx["rv"]["op"] in ("Lt", "Le", "Gt", "Ge"):
                    tys = []
                    for side in ("a", "b"):
                        pl = place_of(sx["rv"][side])
                        if pl:
                            tys.append(c.local_tystr(pl[0]) if len(pl) == 1 else "")
                        else:
                            tys.append(str(sx["rv"][side].get("k", {}).get("txt", "")))
                    if any(t == "u8" or t.endswith("_u8") for t in tys):
                        out.append(sx["ln"])
            t = blk["t"]
            if t["k"] == "call" and method(t) in ("lt", "le", "gt", "ge", "cmp", "partial_cmp", "min_by_key", "max_by_key", "min", "max") and any("u8" in (c.local_tystr(place_of(a)[0]) if place_of(a) else "") for a in t["args"]):
                out.append(t["ln"])
    return out


def builders_keyed(ck, p, rule):
    """C15: the automaton a fuzzy search runs is built for exactly the requested distance"""
    byk = fns_by_key(p)
    b = byk.get("harper_core::spell::fst_dictionary::build_dfa")
    if not ck.anchor(rule, "fst_dictionary::build_dfa", b):
        return
    b = b[0]
    ck.saw(b)
    bodies = with_closures(p, b)
    ords = _distance_orderings(bodies)
    news = [(c, t) for c in bodies for _, t in c.calls() if inst_of(t).endswith("LevenshteinAutomatonBuilder::new") or (method(t) == "new" and "levenshtein_automata" in inst_of(t))]
    if ords:
        ck.refuted(rule, "build_dfa:exact-distance", b.loc(sorted(set(ords))[0]), "the cached automaton builder is chosen by an ordering comparison of distances (lines %s), not by equality with the requested one: a search with bound d can run an automaton built for a larger bound and return words at a distance beyond d - which one it gets depends on what the thread searched for before" % sorted(set(ords)))
    elif not news:
        ck.undecided(rule, "build_dfa:exact-distance", b.span, "no LevenshteinAutomatonBuilder::new found under build_dfa")
    else:
        ck.proved(rule, "build_dfa:exact-distance", b.span, "builders are created for the requested distance and looked up by equality only (no ordering comparison of distances)")


def _rebuild(ck, p):
    rule = "R-C05-rebuild"
    f = p.fns.get("harper_ls::backend::{impl#0}::update_document::{closure#0}")
    if not ck.anchor(rule, "Backend::update_document", f):
        return
    ck.saw(f)
    cfg = Cfg(f)
    pv = Prov(f)
    from ..common import gate_for
    asg = [(bi, s) for bi, b in enumerate(f.blocks) if not b["cleanup"] for s in b["s"] if s["k"] == "assign" and s["lhs"][-1:] and isinstance(s["lhs"][-1], list) and s["lhs"][-1][0] == "f" and s["lhs"][-1][2] == "linter"]
    ne = [(bi, t) for bi, t in f.calls() if def_of(t).endswith("cmp::PartialEq::ne") or def_of(t).endswith("cmp::PartialEq::eq")]
    ok = False
    detail = "assignments to doc_state.linter: %d; dictionary comparisons: %d" % (len(asg), len(ne))
    for bi, s in asg:
        g = gate_for(f, cfg, bi, lambda t: def_of(t).endswith("cmp::PartialEq::ne") and any(x.endswith("dict") and "ident" not in x for x in arg_fields(pv, t["args"][0])), want=True)
        new_group = any(o[0] == "call" and last(norm(o[3] or "")) in ("new_curated", "with_lint_config") for o in arg_roots(f, pv, s["rv"]["op"])) if s["rv"]["k"] == "use" else False
        if g and new_group:
            ok = True
    ck.decide(rule, "Backend::update_document", ok, f.span, detail + "; a new LintGroup is stored under `doc_state.dict != dict`: %s" % ok)
    # the field that is compared with the freshly generated dictionary holds nothing but such a dictionary
    cmps = []
    for bi, t in ne:
        fl = [x for x in arg_fields(pv, t["args"][0]) if x.endswith("dict") and "ident" not in x]
        fresh = {o for o in arg_roots(f, pv, t["args"][1]) if o[0] == "call" and last(norm(o[3] or o[2] or "")) == "generate_file_dictionary"}
        if fl and fresh:
            cmps.append((fl[0], t))
    if len(cmps) != 1:
        ck.undecided(rule, "Backend::update_document:compared-field", f.span, "expected one comparison of a DocumentState dictionary field with the freshly generated dictionary, found %d" % len(cmps))
    else:
        fld, ct = cmps[0]
        others = []
        n_w = 0
        for g2 in p.fns.values():
            if not g2.name.startswith("harper_ls::backend::"):
                continue
            gv = None
            for b in g2.blocks:
                if b["cleanup"]:
                    continue
                for sx in b["s"]:
                    if sx["k"] != "assign" or len(sx["lhs"]) < 2:
                        continue
                    fp = [e[2] for e in sx["lhs"][1:] if isinstance(e, list) and e[0] == "f"]
                    if not fp or fp[-1] != fld or "DocumentState" not in (g2.local_tystr(sx["lhs"][0]) or ""):
                        continue
                    n_w += 1
                    gv = gv or Prov(g2)
                    op = sx["rv"].get("op") if sx["rv"]["k"] == "use" else None
                    roots = arg_roots(g2, gv, op) if op else set()
                    names = {last(norm(o[3] or o[2] or "")) for o in roots if o[0] == "call"}
                    same_fn = g2 is f
                    if not same_fn or not ({"generate_file_dictionary"} & names) or ({"add_dictionary", "merged"} & names):
                        # a value assembled elsewhere (e.g. the file dictionary with the identifiers merged in)
                        others.append((g2, sx["ln"], sorted(names)[:5]))
        if others:
            g2, ln, names = others[0]
            ck.refuted(rule, "Backend::update_document:compared-field", g2.loc(ln), "update_document decides whether to rebuild the linter by comparing doc_state.%s with the freshly generated file dictionary, but %s also stores a differently assembled dictionary in that field (%s): from then on the comparison always differs, every update rebuilds the linter from the bare file dictionary, and what had been merged in (the document's identifiers - their dictionary is unchanged, so it is not merged again) is lost: the same text gets other diagnostics on its second update than on its first" % (fld, keyname(p, g2), ", ".join(names)))
        else:
            ck.proved(rule, "Backend::update_document:compared-field", f.loc(ct["ln"]), "doc_state.%s is compared with the freshly generated file dictionary and only ever assigned that dictionary (%d assignments)" % (fld, n_w))
    # the WebAssembly binding keeps one long-lived LintGroup as well: same clause, rule instance of R-C16-samedoc
    from . import c16
    c16.import_words_sync(_Sub(ck, rule, "wasm:"), fns_by_key(p), rule)


# ---------------------------------------------------------------------------------------------------
def _base_kind(p, f, pv, op):
    """how an offset is derived from a token slice: ('span-start' | 'first-start' | 'last-end' ..., origins of the slice)"""
    oid = _offset_id(f, pv, op)
    fld = oid[1][-1] if oid and oid[1] else "?"
    k = _base_kind0(p, f, pv, op)
    if k is None:
        return None
    return (k[0].rsplit("-", 1)[0] + "-" + str(fld), k[1])


def _base_kind0(p, f, pv, op):
    for o in arg_roots(f, pv, op):
        if o[0] != "call":
            continue
        ct = f.blocks[o[1]]["t"]
        m = method(ct)
        inst = norm(inst_of(ct))
        if m == "span" and "token_string_ext" in inst and ct["args"]:
            return ("span-start", frozenset(x for x in flatten(pv.trace_operand(ct["args"][0])) if x[0] in ("call", "arg")))
        if m in ("first", "last", "get", "index") and ct["args"] and ("slice" in inst or "vec" in inst):
            return ("%s-start" % m, frozenset(x for x in flatten(pv.trace_operand(ct["args"][0])) if x[0] in ("call", "arg")))
    return None


def _rebase_symmetry(ck, p, rule, byk, lf, lcfg, lpv, gets, puts):
    ROC = "harper_core::linting::pattern_linter::run_on_chunk"
    PULL, PUSH = "harper_core::span::{impl}::pull_by", "harper_core::span::{impl}::push_by"
    callee = p.fns.get(ROC)
    if not ck.anchor(rule, "run_on_chunk", callee):
        return
    # summary of run_on_chunk: does it hand back chunk-relative spans, and relative to what?
    cpv = Prov(callee)
    c_pulls = [(h, t) for h in with_closures(p, callee) for _, t in h.calls() if inst_of(t) == PULL]
    c_pushes = [(h, t) for h in with_closures(p, callee) for _, t in h.calls() if inst_of(t) == PUSH]
    c_kind = None
    if c_pulls:
        h, t = c_pulls[0]
        k = _base_kind(p, h, Prov(h), t["args"][1])
        c_kind = k[0] if k else "unrecognised"
    callers = [g for g in p.fns.values() if g.name.startswith("harper_core::") and any(inst_of(t) == ROC for _, t in g.calls())]
    for g in sorted(callers, key=lambda g: g.name):
        ck.saw(g)
        gpv = lpv if g is lf else Prov(g)
        gcfg = lcfg if g is lf else Cfg(g)
        site = [(bi, t) for bi, t in g.calls() if inst_of(t) == ROC][0]
        chunk_src = frozenset(x for x in flatten(gpv.trace_operand(site[1]["args"][1])) if x[0] in ("call", "arg"))
        pulls = [(bi, t) for bi, t in g.calls() if inst_of(t) == PULL]
        pushes = [(bi, t) for bi, t in g.calls() if inst_of(t) == PUSH]
        # the shift may sit in a closure of an adaptor (extend(lints.into_iter().map(|mut l| { l.span.push_by(base); l })))
        from ..common import captured_operand
        cl_sites = {}
        for c in p.closures_of(g.name):
            cpv = Prov(c)
            for cb, ct in c.calls():
                if inst_of(ct) in (PULL, PUSH):
                    cap = captured_operand(p, c, cpv, ct["args"][1])
                    if cap and cap[0] is g:
                        host_bb = [bi for bi, b in enumerate(g.blocks) for sx in b["s"] if sx["k"] == "assign" and sx["rv"]["k"] == "agg" and sx["rv"].get("name") == c.name]
                        fake = dict(ct)
                        fake["args"] = [ct["args"][0], cap[1]]
                        fake["_closure"] = c.name
                        (pulls if inst_of(ct) == PULL else pushes).append((host_bb[0] if host_bb else 0, fake))
        key = "chunk-cache:rebase" if g is lf else "%s:rebase" % keyname(p, g)
        if len(pulls) > 1 or len(pushes) > 1 or len(c_pulls) > 1 or c_pushes:
            ck.undecided(rule, key, g.span, "(d) more than one pull_by / push_by site (here %d/%d, in run_on_chunk %d/%d)" % (len(pulls), len(pushes), len(c_pulls), len(c_pushes)))
            continue
        if not pulls and not pushes and not c_pulls:
            ck.proved(rule, key, g.span, "(d) spans are never made chunk-relative on this path")
            continue
        if pulls and c_pulls:
            ck.refuted(rule, key, g.loc(pulls[0][1]["ln"]), "(d) the spans are pulled back twice (in run_on_chunk and here) and pushed once")
            continue
        pk = None
        if pulls:
            k = _base_kind(p, g, gpv, pulls[0][1]["args"][1])
            pk = (k[0], k[1] == chunk_src) if k else ("unrecognised", False)
        elif c_pulls:
            pk = (c_kind, True)          # relative to its own `chunk` parameter = the slice passed here
        if not pushes or pk is None:
            ck.refuted(rule, key, g.span, "(d) chunk-relative spans (pull_by %s) are %s" % ("in run_on_chunk" if c_pulls else "here", "never pushed back" if not pushes else "pushed back without having been pulled"))
            continue
        k = _base_kind(p, g, gpv, pushes[0][1]["args"][1])
        qk = (k[0], k[1] == chunk_src) if k else ("unrecognised", False)
        same_local = bool(pulls) and _offset_id(g, gpv, pulls[0][1]["args"][1]) is not None and _offset_id(g, gpv, pulls[0][1]["args"][1]) == _offset_id(g, gpv, pushes[0][1]["args"][1])
        detail = "pulled by %s of the chunk (%s), pushed back by %s" % (pk[0], "in run_on_chunk" if c_pulls else "here", qk[0])
        if "unrecognised" in (pk[0], qk[0]) and not same_local:
            ck.undecided(rule, key, g.loc(pushes[0][1]["ln"]), "(d) " + detail + ": offsets not recognised as derived from the chunk")
            continue
        if not same_local and {pk[0], qk[0]} == {"span-start", "first-start"} and pk[1] and qk[1]:
            ck.undecided(rule, key, g.loc(pushes[0][1]["ln"]), "(d) " + detail + ": the two are equal only if the first token of a chunk is the one that starts earliest, which no rule here establishes for every front end (until fix e7b4a9f the Markdown parser put a block's break in front of the block's last run of text)")
            continue
        if not same_local and (pk[0] != qk[0] or not pk[1] or not qk[1]):
            ck.refuted(rule, key, g.loc(pushes[0][1]["ln"]), "(d) " + detail + ": the offset added back is not the offset taken off, so the lint lands on other characters than the rule matched - possibly beyond the end of the text")
            continue
        # ordering around the cache (only where this function owns the cache)
        if g is lf and gets and puts and pulls:
            loops = gcfg.natural_loops()

            def loop_head(b):
                hs = [h for h, body in loops.items() if b in body]
                return min(hs, key=lambda h: len(loops[h])) if hs else b
            apps = [(bi, t) for bi, t in g.calls() if method(t) in ("append", "extend") and bi > 0 and _is_results(g, gpv, t)]
            pull_h, push_h = loop_head(pulls[0][0]), loop_head(pushes[0][0])
            before_put = gcfg.dominates(pull_h, puts[0][0]) and pull_h != puts[0][0]
            if not before_put:
                # shift fused into the collecting loop: every element pushed onto the vector that put() stores is shifted first
                from .c13 import _base_local
                stored = _base_local(g, gpv, puts[0][1]["args"][2]) if len(puts[0][1]["args"]) > 2 else None
                srcs = {stored}
                for (b_, si_, k_, x_) in gpv.defs.get(stored, []):
                    if k_ == "call" and method(x_) == "clone" and x_["args"]:
                        srcs.add(_base_local(g, gpv, x_["args"][0]))
                adds = [(bi_, t_) for bi_, t_ in g.calls() if method(t_) in ("push", "extend", "append", "insert") and t_["args"] and _base_local(g, gpv, t_["args"][0]) in srcs]
                if adds and all(gcfg.dominates(pulls[0][0], bi_) and method(t_) == "push" for bi_, t_ in adds):
                    before_put = True
            after_put = gcfg.every_path_passes(puts[0][0], [push_h], to=[x for x, _ in apps])[0]
            after_hit = gcfg.every_path_passes(gets[0][0], [push_h], to=[x for x, _ in apps])[0]
            if not (after_put and after_hit) and pushes[0][1].get("_closure"):
                # the shift is applied by the adaptor that feeds results.extend(..): every element that gets in is shifted
                cname = pushes[0][1]["_closure"]
                fed = [x for x, t_ in apps if _closure_feeds(g, gpv, t_, cname)]
                if fed and len(fed) == len(apps):
                    after_put = after_hit = True
            ok = before_put and after_put and after_hit and bool(apps)
            ck.decide(rule, key, ok, g.span, "(d) " + detail + "; pull_by precedes put=%s; push_by lies on every path from put and from the lookup to results.append=%s/%s" % (before_put, after_put, after_hit))
        elif g is lf and gets and puts:
            apps = [(bi, t) for bi, t in g.calls() if method(t) in ("append", "extend") and bi > 0 and _is_results(g, gpv, t)]
            loops = gcfg.natural_loops()
            hs = [h for h, body in loops.items() if pushes[0][0] in body]
            push_h = min(hs, key=lambda h: len(loops[h])) if hs else pushes[0][0]
            after_put = gcfg.every_path_passes(puts[0][0], [push_h], to=[x for x, _ in apps])[0]
            after_hit = gcfg.every_path_passes(gets[0][0], [push_h], to=[x for x, _ in apps])[0]
            ck.decide(rule, key, after_put and after_hit and bool(apps), g.span, "(d) " + detail + "; push_by lies on every path from put and from the lookup to results.append=%s/%s" % (after_put, after_hit))
        else:
            ck.proved(rule, key, g.span, "(d) " + detail)


def _closure_feeds(g, gpv, t, cname):
    """is the closure `cname` part of the adaptor chain that produces an argument of call t?"""
    seen = set()
    work = [a for a in t["args"]]
    while work:
        a = work.pop()
        for o in gpv.trace_operand(a):
            if o in seen:
                continue
            seen.add(o)
            if o[0] == "agg" and o[1] == "closure" and o[2] == cname:
                return True
            if o[0] == "call":
                work += list(g.blocks[o[1]]["t"]["args"])
    return False
