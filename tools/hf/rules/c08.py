"""C08 — diagnostics and quick-fix edits land on the flagged text (unit and provenance clauses)."""
import re

from .. import facts
from ..cfg import Cfg
from ..common import arg_fields, arg_roots, def_of, inst_of, method, target_of
from ..prov import Prov, flatten, field_names
from ..util import fns_by_key, keyname, place_of, norm, last, with_closures

LEVEL = "other"


def _aggs(f, suffix):
    out = []
    for bi, b in enumerate(f.blocks):
        if b["cleanup"]:
            continue
        for s in b["s"]:
            if s["k"] == "assign" and s["rv"]["k"] == "agg" and s["rv"].get("name", "").endswith(suffix):
                out.append((bi, s))
    return out


def _closure_of(p, f, pv, op):
    """the closure body passed as operand (through moves)"""
    for x in pv.trace_operand(op):
        if x[0] == "agg" and x[1] == "closure":
            nm = x[2]
            return p.fns.get(nm.rstrip(":")) or p.fns.get(nm.split(":")[0])
    pl = place_of(op)
    if pl:
        for b in f.blocks:
            for s in b["s"]:
                if s["k"] == "assign" and s["lhs"] == [pl[0]] and s["rv"]["k"] == "agg" and s["rv"].get("agg") == "closure":
                    return p.fns.get(s["rv"]["name"])
    return None


def run(ck, tier):
    ck.rule("R-C08-utf16", "sibling agreement of index_to_position and position_to_index: the produced column and the counter compared with position.character are both sums of char::len_utf16 over the line (no len_utf8, no constant step) and both count lines by '\\n'")
    ck.rule("R-C08-range", "lint_to_diagnostic and every TextEdit of lint_to_code_actions take their range from span_to_range(source, lint.span) of the same document; Remove -> \"\", ReplaceWith(w) -> w, InsertAfter(w) -> flagged text followed by w; generate_code_actions filters with overlaps_with(range_to_span(..)) on the same document")
    ck.rule("R-C08-verbatim", "the server's copy of a document is the client's text character for character: every Document built in update_document is built from the `text` parameter through copying conversions only, and every caller hands update_document the text field of the notification (or the server's own copy / the file it read) unaltered - otherwise every position after an altered character is off")
    ck.not_decided += ["the arithmetic of position_to_index (a position on the last line of a text without trailing newline is resolved against the previous line today: a value-level off-by-one, out of reach of structural rules)", "client-side application of the edit"]
    p = facts.load()
    byk = fns_by_key(p)
    _utf16(ck, p, byk)
    _range(ck, p, byk)
    _verbatim(ck, p)
    from . import c09, c05
    c09._source(c05._Sub(ck, "R-C08-verbatim", "server-copy:"), p, "R-C08-verbatim")
    ck.rule("R-C08-actions", "code actions are answered from the lints, wherever the cursor is: every path through DocumentState::generate_code_actions runs the linter and selects the lints whose span covers the requested position - no early exit that decides by something else (e.g. whether a token lies under the cursor: markup between the tokens of a flagged phrase belongs to the diagnostic's range but to no token)")
    _actions(ck, p, byk)
    ck.rule("R-C08-key", "every open document has its own server-side state: each keyed access to the table of open documents (get / get_mut / entry / remove / insert ...) uses the URI of the request through copying conversions only - not a case-folded, trimmed or otherwise many-to-one form of it, under which two open documents would share text, diagnostics and the URI their edits are addressed to")
    c09.docmap_keys(ck, p, "R-C08-key")


def _newline_closure(c):
    """closure compares its char with '\\n'"""
    for b in c.blocks:
        for s in b["s"]:
            if s["k"] == "assign" and s["rv"]["k"] == "bin" and s["rv"]["op"] == "Eq":
                for side in ("a", "b"):
                    k = s["rv"][side].get("k", {})
                    if k.get("int") == "10" or k.get("txt") == "'\\n'":
                        return True
    return False


def _utf16(ck, p, byk):
    rule = "R-C08-utf16"
    f = byk.get("harper_ls::pos_conv::index_to_position")
    if ck.anchor(rule, "pos_conv::index_to_position", f):
        f = f[0]
        ck.saw(f)
        pv = Prov(f)
        pos = _aggs(f, "::Position")
        ok = len(pos) == 1
        detail = "Position constructions: %d" % len(pos)
        if ok:
            rv = pos[0][1]["rv"]
            fields = dict(zip(rv["fields"], rv["ops"]))
            croots = arg_roots(f, pv, fields["character"])
            sums = [o for o in croots if o[0] == "call" and last(norm(o[3] or o[2] or "")) == "sum"]
            maps = [o for o in croots if o[0] == "call" and last(norm(o[3] or o[2] or "")) == "map"]
            unit = None
            for o in maps:
                c = _closure_of(p, f, pv, f.blocks[o[1]]["t"]["args"][1])
                if c is not None:
                    ck.saw(c)
                    ret = flatten(Prov(c).trace_local(0))
                    unit = sorted({last(norm(x[3] or x[2] or "")) if x[0] == "call" else str(x) for x in ret})
            lroots = arg_roots(f, pv, fields["line"])
            nl = False
            for o in lroots:
                if o[0] == "call" and last(norm(o[3] or o[2] or "")) in ("filter_map", "filter", "rposition", "position", "take_while", "skip_while"):
                    c = _closure_of(p, f, pv, f.blocks[o[1]]["t"]["args"][1])
                    nl = nl or (c is not None and _newline_closure(c))
            ok = bool(sums) and unit == ["len_utf16"] and nl
            detail = "column = sum over the line of %s; line = number of '\\n' before the index: %s" % (unit, nl)
            if bool(sums) and unit == ["len_utf16"] and not nl:
                ck.undecided(rule, "index_to_position", f.span, detail + " (how lines are counted was not recognised)")
                ok = None
        if ok is not None:
            ck.decide(rule, "index_to_position", ok, f.span, detail)
    f = byk.get("harper_ls::pos_conv::position_to_index")
    if ck.anchor(rule, "pos_conv::position_to_index", f):
        f = f[0]
        ck.saw(f)
        pv = Prov(f)
        names = {n: l for l, n in f.debug_names().items()}
        # the counter that is compared with position.character
        cmp_locals = set()
        for b in f.blocks:
            for s in b["s"]:
                if s["k"] == "assign" and s["rv"]["k"] == "bin" and s["rv"]["op"] in ("Eq", "Ge", "Gt", "Le", "Lt"):
                    a, bb = s["rv"]["a"], s["rv"]["b"]
                    if "character" in arg_fields(pv, bb) or any(o[0] == "field" and o[3] == "character" for o in pv.trace_operand(bb)) or "character" in str(pv.trace_operand(bb)):
                        if place_of(a):
                            cmp_locals.add(_copy_root(f, place_of(a)[0]))
                    if "character" in str(pv.trace_operand(a)):
                        if place_of(bb):
                            cmp_locals.add(_copy_root(f, place_of(bb)[0]))
        ok = len(cmp_locals) == 1
        detail = "locals compared with position.character: %s" % sorted(f.debug_names().get(l, "_%d" % l) for l in cmp_locals)
        if ok:
            ctr = list(cmp_locals)[0]
            steps = set()
            inits = set()
            for (bi, si, kind, x) in pv.defs.get(ctr, []):
                if kind != "assign":
                    steps.add("call")
                    continue
                for o in pv.trace_operand(x["rv"]["op"]) if x["rv"]["k"] == "use" else pv._trace_rvalue(x["rv"], 0):
                    t = o
                    if t[0] == "field" and t[1][0] == "bin":
                        t = t[1]
                    if t[0] == "bin" and t[1] in ("Add", "AddWithOverflow"):
                        for y in flatten(t[3]):
                            steps.add(last(norm(y[3] or y[2] or "")) if y[0] == "call" else str(y))
                    elif t[0] == "const":
                        inits.add(t[1])
                    elif t[0] == "cycle":
                        pass
                    else:
                        steps.add(str(t)[:40])
            nl = any(_newline_closure(c) for c in p.closures_of(f.name))
            ok = steps == {"len_utf16"} and inits <= {"0"} and nl
            detail += "; it starts at %s and advances by %s per char; lines found by '\\n': %s" % (sorted(inits), sorted(steps), nl)
        ck.decide(rule, "position_to_index", ok, f.span, detail)


def _copy_root(f, l):
    seen = set()
    while l not in seen:
        seen.add(l)
        nxt = None
        for b in f.blocks:
            for s in b["s"]:
                if s["k"] == "assign" and s["lhs"] == [l] and s["rv"]["k"] == "use" and place_of(s["rv"]["op"]) and len(place_of(s["rv"]["op"])) == 1:
                    nxt = place_of(s["rv"]["op"])[0]
        if nxt is None or len([1 for b in f.blocks for s in b["s"] if s["k"] == "assign" and s["lhs"] == [l]]) > 1:
            return l
        l = nxt
    return l


def _range(ck, p, byk):
    rule = "R-C08-range"
    f = byk.get("harper_ls::diagnostics::lint_to_diagnostic")
    if ck.anchor(rule, "diagnostics::lint_to_diagnostic", f):
        f = f[0]
        ck.saw(f)
        pv = Prov(f)
        dg = _aggs(f, "::Diagnostic")
        ok = len(dg) == 1
        detail = "Diagnostic constructions: %d" % len(dg)
        if ok:
            rv = dg[0][1]["rv"]
            fields = dict(zip(rv["fields"], rv["ops"]))
            calls = [o for o in flatten(pv.trace_operand(fields["range"])) if o[0] == "call"]
            good = False
            for o in calls:
                t = f.blocks[o[1]]["t"]
                if inst_of(t) == "harper_ls::pos_conv::span_to_range":
                    src = ("arg", 2) in flatten(pv.trace_operand(t["args"][0]))
                    sp = "span" in arg_fields(pv, t["args"][1]) and ("arg", 1) in flatten(pv.trace_operand(t["args"][1]))
                    good = src and sp
            msg = "message" in arg_fields(pv, fields["message"]) or any("message" in arg_fields(pv, f.blocks[o[1]]["t"]["args"][0]) for o in flatten(pv.trace_operand(fields["message"])) if o[0] == "call")
            ok = good and msg
            detail = "range = span_to_range(source, lint.span): %s; message = lint.message: %s" % (good, msg)
        ck.decide(rule, "lint_to_diagnostic", ok, f.span, detail)
    # code actions
    c = p.fns.get("harper_ls::diagnostics::lint_to_code_actions::{closure#0}")
    par = byk.get("harper_ls::diagnostics::lint_to_code_actions")
    if ck.anchor(rule, "diagnostics::lint_to_code_actions", c) and par:
        par = par[0]
        ck.saw(c); ck.saw(par)
        pv = Prov(c)
        ppv = Prov(par)
        te = _aggs(c, "::TextEdit")
        ok = len(te) == 1
        detail = "TextEdit constructions: %d" % len(te)
        if ok:
            rv = te[0][1]["rv"]
            fields = dict(zip(rv["fields"], rv["ops"]))
            good_range = False
            for o in flatten(pv.trace_operand(fields["range"])):
                if o[0] == "call" and inst_of(c.blocks[o[1]]["t"]) == "harper_ls::pos_conv::span_to_range":
                    t = c.blocks[o[1]]["t"]
                    up_src = _upvar_names(c, pv, t["args"][0])
                    up_span = _upvar_names(c, pv, t["args"][1])
                    good_range = "source" in up_src and "lint" in up_span and "span" in arg_fields(pv, t["args"][1])
            # parent: source = document.get_source()
            src_ok = False
            for b in par.blocks:
                for s in b["s"]:
                    if s["k"] == "assign" and s["rv"]["k"] == "agg" and s["rv"].get("agg") == "closure" and s["rv"].get("name") == c.name:
                        for o in s["rv"]["ops"]:
                            for r in arg_roots(par, ppv, o):
                                if r[0] == "call" and last(norm(r[3] or "")) in ("get_source", "get_full_content"):
                                    src_ok = ("arg", 3) in arg_roots(par, ppv, par.blocks[r[1]]["t"]["args"][0])
            if not good_range:
                # helper form: span_to_range(document.get_source(), lint.span) with document and lint captured / passed through
                for o in flatten(pv.trace_operand(fields["range"])):
                    if o[0] == "call" and inst_of(c.blocks[o[1]]["t"]) == "harper_ls::pos_conv::span_to_range":
                        t = c.blocks[o[1]]["t"]
                        srcs = [x for x in arg_roots(c, pv, t["args"][0]) if x[0] == "call" and last(norm(x[3] or x[2] or "")) in ("get_source", "get_full_content")]
                        doc_names = set()
                        for x in srcs:
                            doc_names |= _upvar_names(c, pv, c.blocks[x[1]]["t"]["args"][0])
                        up_span = _upvar_names(c, pv, t["args"][1])
                        if srcs and "document" in doc_names and "lint" in up_span and "span" in arg_fields(pv, t["args"][1]):
                            good_range = src_ok = True
            if not good_range and not any(inst_of(tt) == "harper_ls::pos_conv::span_to_range" for _, tt in c.calls()):
                ck.undecided(rule, "lint_to_code_actions:range", c.span, "no span_to_range call in the per-suggestion closure: how the edit range is computed is not of a recognised form")
            else:
              ck.decide(rule, "lint_to_code_actions:range", good_range and src_ok, c.span, "TextEdit.range = span_to_range(source, lint.span)=%s with source = document.get_source() of the document the lint belongs to=%s" % (good_range, src_ok))
            # arms
            arms = _suggestion_arms(c, pv, fields["new_text"])
            want = {"Remove": "empty", "ReplaceWith": "payload", "InsertAfter": "flagged+payload"}
            bad = {k: v for k, v in arms.items() if want.get(k) != v}
            missing = [k for k in want if k not in arms]
            ck.floor(rule, "suggestion arms in lint_to_code_actions", len(arms), 3)
            ck.decide(rule, "lint_to_code_actions:new_text", not bad and not missing, c.span, "new_text per suggestion kind: %s" % arms)
    # generate_code_actions filter
    g = byk.get("DocumentState::generate_code_actions")
    if ck.anchor(rule, "DocumentState::generate_code_actions", g):
        g = g[0]
        ck.saw(g)
        gpv = Prov(g)
        rts = [(bi, t) for bi, t in g.calls() if inst_of(t) == "harper_ls::pos_conv::range_to_span"]
        ok = len(rts) == 1
        detail = "range_to_span calls: %d" % len(rts)
        if ok:
            t = rts[0][1]
            src_doc = any(o[0] == "call" and last(norm(o[3] or "")) in ("get_full_content", "get_source") and "document" in arg_fields(gpv, g.blocks[o[1]]["t"]["args"][0]) for o in arg_roots(g, gpv, t["args"][0]))
            rng = ("arg", 2) in arg_roots(g, gpv, t["args"][1])
            filt = False
            for c2 in [g] + list(p.closures_of(g.name)):
                for _, t2 in c2.calls():
                    if inst_of(t2).endswith("span::{impl}::overlaps_with"):
                        filt = True
            lint_doc = any(def_of(t3) == "harper_core::linting::Linter::lint" and "document" in arg_fields(gpv, t3["args"][1]) for _, t3 in g.calls())
            ok = src_doc and rng and filt and lint_doc
            detail = "span = range_to_span(self.document content, requested range)=%s/%s; lints come from self.document=%s; filter closure uses Span::overlaps_with=%s" % (src_doc, rng, lint_doc, filt)
        ck.decide(rule, "generate_code_actions:filter", ok, g.span, detail)


def _upvar_names(c, pv, op):
    out = set()
    for o in pv.trace_operand(op):
        x = o
        while isinstance(x, tuple) and x[0] == "field":
            if x[1] == ("arg", 1) and x[3]:
                out.add(x[3].replace("_ref__", ""))
            x = x[1]
        if isinstance(x, tuple) and x[0] == "call":
            t = c.blocks[x[1]]["t"]
            for a in t["args"]:
                out |= _upvar_names(c, pv, a)
    pl = place_of(op)
    if pl and pl[0] == 1:
        for e in pl[1:]:
            if isinstance(e, list) and e[0] == "f" and e[2]:
                out.add(e[2].replace("_ref__", ""))
                break
    return out


def _suggestion_arms(c, pv, new_text_op):
    """classify, per arm of the match on the Suggestion, what new_text is assigned"""
    cfg = Cfg(c)
    # the switch on the discriminant of the suggestion (param 2)
    sw = None
    for bi, b in enumerate(c.blocks):
        t = b["t"]
        if t["k"] == "switch":
            org = pv.trace_operand(t["discr"])
            if any(o[0] == "discr" and ("arg", 2) in flatten(o[1]) for o in org):
                sw = (bi, t)
                break
    if sw is None:
        return {}
    variants = {"0": "Remove", "1": "ReplaceWith", "2": "InsertAfter"}
    # read variant names from the aggregate definition order is fragile: use downcast names in the arm blocks
    text_local = place_of(new_text_op)[0] if place_of(new_text_op) else None
    text_local = _copy_root(c, text_local) if text_local is not None else None
    out = {}
    for v, blk in sw[1]["targets"]:
        arm = {b for b in cfg.reach0 if cfg.dominates(blk, b)}
        name = None
        for b in arm:
            for s in c.blocks[b]["s"]:
                if s["k"] == "assign":
                    for e in _places(s):
                        for el in e[1:]:
                            if isinstance(el, list) and el[0] == "dc" and el[2] in ("ReplaceWith", "InsertAfter", "Remove"):
                                name = el[2]
        # definitions of the text local in this arm
        cls = None
        for (bi, si, kind, x) in pv.defs.get(text_local, []):
            if bi not in arm:
                continue
            if kind == "call":
                m = method(x)
                roots = arg_roots(c, pv, {"c": [text_local]}) if False else _roots_of_call(c, pv, x)
                has_flagged = any(o[0] == "call" and last(norm(o[3] or "")) == "get_content_string" for o in roots)
                has_payload = any(_is_payload(o) for o in roots) or _mentions_payload(c, pv, x)
                consts = [o[1] for o in roots if o[0] == "const"]
                if m == "format" or has_flagged:
                    order = _format_order(c, pv, x)
                    cls = "flagged+payload" if has_flagged and order == ["flagged", "payload"] else "format:%s" % order
                elif has_payload:
                    cls = "payload"
                elif any(k in ('""', "") for k in consts) or m in ("new",):
                    cls = "empty"
                else:
                    cls = "other:%s" % m
        if name is None and cls == "empty":
            name = "Remove"
        if name:
            out[name] = cls
    return out


def _places(s):
    out = [s["lhs"]]
    rv = s["rv"]
    if "place" in rv:
        out.append(rv["place"])
    for k in ("op", "a", "b"):
        o = rv.get(k)
        if isinstance(o, dict) and place_of(o):
            out.append(place_of(o))
    for o in rv.get("ops", []):
        if place_of(o):
            out.append(place_of(o))
    return out


def _roots_of_call(c, pv, t):
    out = set()
    for a in t["args"]:
        out |= arg_roots(c, pv, a)
    return out


def _is_payload(o):
    return False


def _mentions_payload(c, pv, t):
    """an argument derives from the payload of the suggestion (param 2 downcast .0)"""
    def has(o, d=0):
        if d > 14 or not isinstance(o, tuple):
            return False
        if o[0] == "field":
            if o[1] == ("arg", 2) and o[2] == 0:
                return True
            return has(o[1], d + 1)
        if o[0] == "call":
            return any(any(has(x, d + 1) for x in pv.trace_operand(a)) for a in c.blocks[o[1]]["t"]["args"])
        return False
    return any(any(has(o) for o in pv.trace_operand(a)) for a in t["args"])


def _format_order(c, pv, t):
    """order of the display arguments of a format!() call: 'flagged' (get_content_string) / 'payload'"""
    order = []
    for o in arg_roots(c, pv, t["args"][0]):
        pass
    # find the argument array aggregate feeding this call
    for b in c.blocks:
        for s in b["s"]:
            if s["k"] == "assign" and s["rv"]["k"] == "agg" and s["rv"].get("agg") == "array" and len(s["rv"]["ops"]) == 2:
                kinds = []
                for op in s["rv"]["ops"]:
                    roots = arg_roots(c, pv, op)
                    if any(o[0] == "call" and last(norm(o[3] or "")) == "get_content_string" for o in roots):
                        kinds.append("flagged")
                    elif any(o[0] == "call" and last(norm(o[3] or "")) == "new_display" for o in roots):
                        # payload?
                        disp = [o for o in roots if o[0] == "call" and last(norm(o[3] or "")) == "new_display"]
                        kinds.append("payload" if any(_mentions_payload(c, pv, c.blocks[o[1]]["t"]) for o in disp) else "other")
                    else:
                        kinds.append("other")
                if "flagged" in kinds or "payload" in kinds:
                    order = kinds
    return order


# ---------------------------------------------------------------------------------------------------
VERBATIM = {"chars", "collect", "as_ref", "deref", "as_str", "borrow", "into_iter", "from_iter", "clone", "to_owned", "to_string",
            "into", "from", "as_slice", "iter", "copied", "cloned", "as_bytes", "from_utf8", "from_utf8_unchecked", "as_mut", "deref_mut"}
OPTION_PLUMBING = {"last", "first", "unwrap", "expect", "ok_or", "ok_or_else", "branch", "context", "with_context", "as_deref", "ok", "map_err",
                   "unwrap_or_default", "take", "poll", "into_future", "new_unchecked", "get_context", "lock", "get", "get_mut", "last_mut", "pop"}
TRANSFORM = {"filter", "filter_map", "replace", "replacen", "replace_range", "trim", "trim_start", "trim_end", "trim_matches", "trim_start_matches", "trim_end_matches",
             "strip_prefix", "strip_suffix", "to_lowercase", "to_uppercase", "to_ascii_lowercase", "to_ascii_uppercase", "nfc", "nfd", "nfkc", "nfkd",
             "split", "split_whitespace", "lines", "retain", "remove", "truncate", "drain", "dedup", "skip", "take_while", "skip_while", "map", "flat_map",
             "rev", "chunks", "escape_default", "escape_debug", "from_utf8_lossy", "to_string_lossy", "insert", "insert_str", "push", "push_str", "extend"}
TEXT_SOURCES = {"get_full_string", "read_to_string", "read"}


def _text_walk(p, f, pv, op, depth=0, seen=None):
    """follow an operand back through copying conversions; returns (leaves, transforms, unknown calls)"""
    seen = set() if seen is None else seen
    leaves, bad, unknown = [], [], []
    for o in flatten(pv.trace_operand(op)):
        if o in seen:
            continue
        seen.add(o)
        if o[0] != "call":
            leaves.append(o)
            continue
        t = f.blocks[o[1]]["t"]
        inst = norm(inst_of(t))
        m = last(inst)
        if m.startswith("{closure"):            # a future polled in place: the async fn it is the body of
            m = last(inst.rsplit("::", 1)[0])
        if m in ("map", "and_then", "map_or", "then", "unwrap_or_else") and ("option::" in inst or "result::" in inst) and len(t["args"]) >= 2:
            # Option/Result plumbing with a closure: the value is what the closure returns
            cl = [x for x in pv.trace_operand(t["args"][-1]) if x[0] == "agg" and x[1] == "closure"]
            c = p.fns.get(cl[0][2]) if len(cl) == 1 else None
            if c is not None and depth < 12:
                cv = Prov(c)
                l2, b2, u2 = _text_walk(p, c, cv, {"m": [0]}, depth + 1, set())
                leaves += [x for x in l2 if x[0] == "source"] or [("closure-result", c.name)]
                bad += b2
                unknown += u2
                continue
        if m in TEXT_SOURCES:
            leaves.append(("source", m))
            continue
        if m == "new" and re.search(r"^alloc::(sync|rc|boxed)::", inst) and t["args"] and depth < 12:
            # Arc::new(v) / Rc::new(v) / Box::new(v): the value itself
            l2, b2, u2 = _text_walk(p, f, pv, t["args"][0], depth + 1, seen)
            leaves += l2
            bad += b2
            unknown += u2
            continue
        if (m in VERBATIM or m in OPTION_PLUMBING) and t["args"] and depth < 12:
            l2, b2, u2 = _text_walk(p, f, pv, t["args"][0], depth + 1, seen)
            leaves += l2
            bad += b2
            unknown += u2
            continue
        if m in ("unwrap_or", "or", "map_or") and ("option::" in inst or "result::" in inst) and t["args"] and depth < 12:
            # either the value inside or the alternative
            for a in t["args"]:
                l2, b2, u2 = _text_walk(p, f, pv, a, depth + 1, seen)
                leaves += l2
                bad += b2
                unknown += u2
            continue
        if m in TRANSFORM:
            bad.append("%s (line %d)" % (m, t["ln"]))
            continue
        g = [h for h in p.fns.values() if norm(h.name) == inst and h.crate == f.crate]
        if g:
            inner = sorted({method(tt) for h in with_closures(p, g[0]) for _, tt in h.calls() if method(tt) in TRANSFORM})
            if inner:
                bad.append("%s (line %d), which applies %s" % (keyname(p, g[0]), t["ln"], ", ".join(inner)))
                continue
        unknown.append("%s (line %d)" % (m, t["ln"]))
    return leaves, bad, unknown


def _verbatim(ck, p):
    rule = "R-C08-verbatim"
    f = p.fns.get("harper_ls::backend::{impl#0}::update_document::{closure#0}")
    if not ck.anchor(rule, "Backend::update_document", f):
        return
    ck.saw(f)
    pv = Prov(f)
    sites = []
    for bi, t in f.calls():
        inst = norm(inst_of(t))
        if inst.startswith("harper_core::document::{impl}::new"):
            sites.append(("Document::%s" % last(inst), t))
    ck.floor(rule, "Document constructors in update_document", len(sites), 1)
    for what, t in sites:
        leaves, bad, unknown = _text_walk(p, f, pv, t["args"][0])
        fields = arg_fields(pv, t["args"][0]) if not bad else set()
        key = "Backend::update_document:%s" % what
        from_text = bool(leaves) and all(o[0] == "arg" and o[1] == 1 for o in leaves)
        if bad:
            ck.refuted(rule, key, f.loc(t["ln"]), "the text the Document is built from went through %s: the server's copy differs from the text the client holds, so every diagnostic range, code-action edit and ignore span after an altered character points at other characters" % "; ".join(bad))
        elif unknown or not from_text:
            ck.undecided(rule, key, f.loc(t["ln"]), "text operand not traced to the `text` parameter through copying conversions only (leaves %s, calls %s)" % (sorted(map(str, leaves))[:4], unknown[:4]))
        else:
            ck.proved(rule, key, f.loc(t["ln"]), "built from the `text` parameter through copying conversions only")
    callers = []
    for g in p.fns.values():
        for bi, t in g.calls():
            if norm(inst_of(t)) == "harper_ls::backend::{impl}::update_document":
                callers.append((g, t))
    ck.floor(rule, "callers of update_document", len(callers), 2)
    for g, t in sorted(callers, key=lambda x: x[0].name):
        ck.saw(g)
        gv = Prov(g)
        leaves, bad, unknown = _text_walk(p, g, gv, t["args"][2])
        key = "%s:text-argument" % keyname(p, g)
        fields = arg_fields(gv, t["args"][2])
        if bad:
            ck.refuted(rule, key, g.loc(t["ln"]), "the text handed to update_document went through %s" % "; ".join(bad))
        elif unknown:
            ck.undecided(rule, key, g.loc(t["ln"]), "text argument passes through calls outside the copying vocabulary: %s" % unknown[:4])
        elif any(o[0] == "source" for o in leaves) or "text" in fields:
            ck.proved(rule, key, g.loc(t["ln"]), "text argument is %s, unaltered" % ("the server's own copy / the file read" if any(o[0] == "source" for o in leaves) else "the notification's text field"))
        else:
            ck.undecided(rule, key, g.loc(t["ln"]), "text argument not traced to a text field (fields %s, leaves %s)" % (sorted(fields)[:5], sorted(map(str, leaves))[:3]))


# ---------------------------------------------------------------------------------------------------
DROPPING = {"pop", "remove", "truncate", "retain", "retain_mut", "dedup", "dedup_by", "dedup_by_key", "drain", "clear", "swap_remove", "split_off", "insert", "resize", "splice"}


def verbatim_source(ck, p, rule, scope, what, floor):
    """Spans are offsets into the text the caller holds.  Wherever a Document is built from a text that
    came in from outside (`scope`: a predicate on function names), the character vector handed to
    Document::new_from_vec is that text character for character: `text.chars().collect()` and copies of
    it.  A normalising step on the way (line endings folded, a byte-order mark stripped, blanks trimmed)
    makes every span behind it point one or more characters early in the caller's text."""
    from .c13 import ops_on
    n = 0
    for f in sorted(p.fns.values(), key=lambda g: g.name):
        if not scope(f) or f.get("kind") == "Closure":
            continue
        pv = None
        k = 0
        for bi, t in f.calls():
            inst = norm(inst_of(t))
            if not (inst.startswith("harper_core::document::{impl}::new_from_vec") or inst.endswith("::document::{impl}::new_from_vec")):
                continue
            pv = pv or Prov(f)
            n += 1
            k += 1
            ck.saw(f)
            key = "%s:source%s" % (keyname(p, f), "" if k == 1 else "#%d" % k)
            leaves, bad, unknown = _text_walk(p, f, pv, t["args"][0])
            # a vector that is filled by hand: which element-dropping operations does it see?
            dropped = []
            for o in flatten(pv.trace_operand(t["args"][0])):
                pass
            locs = set()
            pl = place_of(t["args"][0])
            if pl:
                locs.add(pv.mut_base.get(pl[0], pl[0]))
            for o in arg_roots(f, pv, t["args"][0]):
                if o[0] == "call":
                    ct = f.blocks[o[1]]["t"]
                    if ct.get("dest") and last(norm(inst_of(ct) or "")) in ("new", "with_capacity", "default") and "vec" in norm(inst_of(ct) or "").lower():
                        locs.add(ct["dest"][0])
            for l in locs:
                try:
                    dropped += [m for m, _, _ in ops_on(f, pv, l) if m in DROPPING]
                except Exception:
                    pass
            strs = [o for o in leaves if o[0] == "arg"]
            # a vector filled element by element is not a transform by itself (what is dropped again is)
            grow = [b for b in bad if b.split(" ")[0] in ("push", "push_str", "extend", "insert", "insert_str")]
            bad = [b for b in bad if b not in grow]
            unknown = list(unknown) + grow
            if bad:
                ck.refuted(rule, key, f.loc(t["ln"]), "the characters the Document is built from went through %s: the document is a different text than the one the caller holds, and every span behind the altered place is displaced in the caller's text (a lint covers the wrong characters, a fix rewrites the neighbours)" % "; ".join(bad[:3]))
            elif dropped:
                ck.refuted(rule, key, f.loc(t["ln"]), "the character vector the Document is built from is filled by hand and has elements taken out again (%s): it is shorter than the text the caller holds, and every span behind a dropped character is displaced in the caller's text" % ", ".join(sorted(set(dropped))))
            elif unknown or not strs or len(strs) != len(leaves):
                ck.undecided(rule, key, f.loc(t["ln"]), "the source is not traced to a text parameter through copying conversions only (leaves %s, calls %s)" % (sorted(map(str, leaves))[:3], unknown[:3]))
            else:
                ck.proved(rule, key, f.loc(t["ln"]), "source = the text parameter, through chars().collect() and copies only")
    ck.floor(rule, what, n, floor)


def _actions(ck, p, byk):
    rule = "R-C08-actions"
    fs = [f for f in byk.get("DocumentState::generate_code_actions", []) if f.name.startswith("harper_ls::")]
    if not ck.anchor(rule, "DocumentState::generate_code_actions", fs):
        return
    f = fs[0]
    ck.saw(f)
    cfg = Cfg(f)
    lints = [bi for bi, t in f.calls() if def_of(t) == "harper_core::linting::Linter::lint" or last(norm(inst_of(t) or "")) == "collect_lints"]
    sel = [bi for bi, t in f.calls() if method(t) in ("filter", "retain", "filter_map") or last(norm(inst_of(t) or "")) == "overlaps_with"]
    for c in with_closures(p, f)[1:]:
        if any(last(norm(inst_of(t) or "")) == "overlaps_with" for _, t in c.calls()):
            sel.append(-1)
    if not lints:
        ck.undecided(rule, "generate_code_actions:always-lints", f.span, "no call of Linter::lint found in generate_code_actions")
        return
    ok, wit = cfg.every_path_passes(0, set(lints))
    if 0 in lints:
        ok = True
    if ok and sel:
        ck.proved(rule, "generate_code_actions:always-lints", f.span, "every path runs the linter (bb%s) and the lints are selected by overlap with the requested position" % lints)
    elif ok:
        ck.undecided(rule, "generate_code_actions:always-lints", f.span, "every path runs the linter, but no selection by Span::overlaps_with was recognised")
    else:
        lns = sorted({f.blocks[b0]["t"].get("ln") for b0 in (wit or []) if f.blocks[b0]["t"].get("ln")})
        ck.refuted(rule, "generate_code_actions:always-lints", f.loc(lns[-1] if lns else 0), "a path returns from generate_code_actions without running the linter (lines %s): for a position it rules out that way no fix is offered, although the range of a published diagnostic can cover it (the characters between the tokens of a flagged phrase - emphasis markers, tags, comment leaders - lie inside the diagnostic's range but under no token)" % lns[:8])
